#!/bin/sh
# Offline setup: nothing to build; the verifier is pure Python run under python3-vt.
set -e
cd "$(dirname "$0")"
python3-vt -c "import z3, sympy, mpmath; print('pfv setup ok: z3', z3.get_version_string())"
mkdir -p evidence replay
