/-
Layer 2 of property C04 (risk measures obey the convex-risk-measure axioms).

The definitions below are the SPEC FUNCTIONS of the contracts in /verif/contracts/risk.py
(`rho_spec`, `es_spec`, the utility-loss specs): layer 1 (pfv, z3) proves that the real pfhedge
functions return exactly these terms for every sample size N and every sample; this file proves
that the spec functions satisfy the axioms, for every N and every real sample.
`tools/lean_specs.py` re-derives the definitions from the contract terms on every run and compares.

A sample is `x : ℕ → ℝ` read on `Finset.range N` (the contract's index set 0 ≤ n < N).
No `sorry`, no `axiom`: checked by `lean` and by the manifest's scan on every run.
-/
import Mathlib

open Finset BigOperators

namespace PfRisk

/-! ### expected shortfall  ES_k(x) = -(1/k) Σ_{j<k} (j-th smallest of x_0..x_{N-1}),  k = ⌈p N⌉ -/

/-- the j-th smallest value (0-based) of the bag {x 0, …, x (N-1)}: the contract's `ostat_bot j bag` -/
noncomputable def ostat (N : ℕ) (x : ℕ → ℝ) (j : ℕ) : ℝ :=
  if h : j < N then x (Tuple.sort (fun i : Fin N => x i) ⟨j, h⟩) else 0

theorem strictMono_fin_le {k N : ℕ} (e : Fin k → Fin N) (he : StrictMono e) :
    ∀ (i : ℕ) (hi : i < k), i ≤ (e ⟨i, hi⟩ : ℕ) := by
  intro i
  induction i with
  | zero => intro _; exact Nat.zero_le _
  | succ n ih =>
    intro hi
    have h1 := ih (Nat.lt_of_succ_lt hi)
    have h2 : e ⟨n, Nat.lt_of_succ_lt hi⟩ < e ⟨n + 1, hi⟩ := he (by simp [Fin.lt_def])
    have h3 : (e ⟨n, Nat.lt_of_succ_lt hi⟩ : ℕ) < (e ⟨n + 1, hi⟩ : ℕ) := h2
    omega

theorem ostat_fin (N : ℕ) (x : ℕ → ℝ) (j : Fin N) :
    ostat N x j = x (Tuple.sort (fun i : Fin N => x i) j) := by
  unfold ostat
  rw [dif_pos j.isLt]

theorem sumk_le_sum {k N : ℕ} (hkN : k ≤ N) (x : ℕ → ℝ) (S : Finset (Fin N)) (hS : S.card = k) :
    ∑ j ∈ range k, ostat N x j ≤ ∑ i ∈ S, x i := by
  set f : Fin N → ℝ := fun i => x i with hf
  set σ := Tuple.sort f with hσ
  have hg : Monotone (f ∘ σ) := Tuple.monotone_sort f
  set T := S.map σ.symm.toEmbedding with hT
  have hTc : T.card = k := by rw [hT, Finset.card_map, hS]
  have h1 : ∑ i ∈ S, x i = ∑ j ∈ T, (f ∘ σ) j := by
    rw [hT, Finset.sum_map]
    apply Finset.sum_congr rfl
    intro i _
    simp [hf]
  set e := T.orderEmbOfFin hTc with he
  have h2 : ∑ j ∈ T, (f ∘ σ) j = ∑ i : Fin k, (f ∘ σ) (e i) := by
    conv_lhs => rw [← Finset.map_orderEmbOfFin_univ T hTc]
    rw [Finset.sum_map]
    rfl
  have h3 : ∑ j ∈ range k, ostat N x j = ∑ i : Fin k, ostat N x (i : ℕ) := by
    rw [Fin.sum_univ_eq_sum_range (fun j => ostat N x j) k]
  rw [h1, h2, h3]
  apply Finset.sum_le_sum
  intro i _
  have hiN : (i : ℕ) < N := lt_of_lt_of_le i.isLt hkN
  have h4 := ostat_fin N x ⟨i, hiN⟩
  simp only at h4
  rw [h4]
  have h5 : (⟨i, hiN⟩ : Fin N) ≤ e i := by
    rw [Fin.le_def]
    exact strictMono_fin_le e e.strictMono i i.isLt
  exact hg h5

theorem exists_sum_eq_sumk {k N : ℕ} (hkN : k ≤ N) (x : ℕ → ℝ) :
    ∃ S : Finset (Fin N), S.card = k ∧ ∑ i ∈ S, x i = ∑ j ∈ range k, ostat N x j := by
  set f : Fin N → ℝ := fun i => x i with hf
  set σ := Tuple.sort f with hσ
  refine ⟨(Finset.univ.map (Fin.castLEEmb hkN)).map σ.toEmbedding, ?_, ?_⟩
  · simp
  · rw [Finset.sum_map, Finset.sum_map, ← Fin.sum_univ_eq_sum_range (fun j => ostat N x j) k]
    apply Finset.sum_congr rfl
    intro i _
    have hiN : (i : ℕ) < N := lt_of_lt_of_le i.isLt hkN
    have h4 := ostat_fin N x ⟨i, hiN⟩
    simp only at h4
    rw [h4]
    rfl

/-- `ostat` is what its name says: a non-decreasing rearrangement of the sample -/
theorem ostat_monotone (N : ℕ) (x : ℕ → ℝ) {i j : ℕ} (hij : i ≤ j) (hj : j < N) :
    ostat N x i ≤ ostat N x j := by
  have hi : i < N := lt_of_le_of_lt hij hj
  have h1 := ostat_fin N x ⟨i, hi⟩
  have h2 := ostat_fin N x ⟨j, hj⟩
  simp only at h1 h2
  rw [h1, h2]
  have hg : Monotone ((fun i : Fin N => x i) ∘ Tuple.sort (fun i : Fin N => x i)) :=
    Tuple.monotone_sort _
  have h5 : (⟨i, hi⟩ : Fin N) ≤ ⟨j, hj⟩ := by
    rw [Fin.le_def]; exact hij
  exact hg h5

theorem ostat_rearrangement (N : ℕ) (x : ℕ → ℝ) :
    ∃ σ : Equiv.Perm (Fin N), ∀ j : Fin N, ostat N x j = x (σ j) := by
  exact ⟨Tuple.sort (fun i : Fin N => x i), fun j => ostat_fin N x j⟩

noncomputable def es (k N : ℕ) (x : ℕ → ℝ) : ℝ :=
  -((∑ j ∈ range k, ostat N x j) / (k : ℝ))

theorem es_mono {k N : ℕ} (hk : 1 ≤ k) (hkN : k ≤ N) (x y : ℕ → ℝ)
    (h : ∀ n < N, x n ≤ y n) : es k N y ≤ es k N x := by
  obtain ⟨S, hS, hSy⟩ := exists_sum_eq_sumk hkN y
  have h1 := sumk_le_sum hkN x S hS
  have h2 : ∑ i ∈ S, x i ≤ ∑ i ∈ S, y i :=
    Finset.sum_le_sum (fun i _ => h i i.isLt)
  have _hk := hk
  have hk0 : (0 : ℝ) ≤ (k : ℝ) := Nat.cast_nonneg k
  unfold es
  apply neg_le_neg
  apply div_le_div_of_nonneg_right _ hk0
  linarith

theorem sumk_cash {k N : ℕ} (hkN : k ≤ N) (x : ℕ → ℝ) (c : ℝ) :
    ∑ j ∈ range k, ostat N (fun n => x n + c) j = (∑ j ∈ range k, ostat N x j) + k * c := by
  apply le_antisymm
  · obtain ⟨S, hS, hSx⟩ := exists_sum_eq_sumk hkN x
    have h1 := sumk_le_sum hkN (fun n => x n + c) S hS
    have h2 : ∑ i ∈ S, (x i + c) = ∑ i ∈ S, x i + k * c := by
      rw [Finset.sum_add_distrib, Finset.sum_const, hS, nsmul_eq_mul]
    linarith
  · obtain ⟨S, hS, hSx⟩ := exists_sum_eq_sumk hkN (fun n => x n + c)
    have h1 := sumk_le_sum hkN x S hS
    have h2 : ∑ i ∈ S, (x i + c) = ∑ i ∈ S, x i + k * c := by
      rw [Finset.sum_add_distrib, Finset.sum_const, hS, nsmul_eq_mul]
    linarith

theorem es_cash {k N : ℕ} (hk : 1 ≤ k) (hkN : k ≤ N) (x : ℕ → ℝ) (c : ℝ) :
    es k N (fun n => x n + c) = es k N x - c := by
  have hk0 : (k : ℝ) ≠ 0 := by
    have : 0 < k := hk
    exact_mod_cast this.ne'
  unfold es
  rw [sumk_cash hkN x c]
  field_simp
  ring

theorem sumk_concave {k N : ℕ} (hkN : k ≤ N) (x y : ℕ → ℝ) (t : ℝ)
    (ht0 : 0 ≤ t) (ht1 : t ≤ 1) :
    t * (∑ j ∈ range k, ostat N x j) + (1 - t) * (∑ j ∈ range k, ostat N y j)
      ≤ ∑ j ∈ range k, ostat N (fun n => t * x n + (1 - t) * y n) j := by
  obtain ⟨S, hS, hSz⟩ := exists_sum_eq_sumk hkN (fun n => t * x n + (1 - t) * y n)
  have h1 := sumk_le_sum hkN x S hS
  have h2 := sumk_le_sum hkN y S hS
  have h3 : ∑ i ∈ S, (t * x i + (1 - t) * y i)
      = t * ∑ i ∈ S, x i + (1 - t) * ∑ i ∈ S, y i := by
    rw [Finset.sum_add_distrib, Finset.mul_sum, Finset.mul_sum]
  rw [← hSz, h3]
  have ht1' : 0 ≤ 1 - t := by linarith
  have := mul_le_mul_of_nonneg_left h1 ht0
  have := mul_le_mul_of_nonneg_left h2 ht1'
  linarith

theorem es_convex {k N : ℕ} (hk : 1 ≤ k) (hkN : k ≤ N) (x y : ℕ → ℝ) (t : ℝ)
    (ht0 : 0 ≤ t) (ht1 : t ≤ 1) :
    es k N (fun n => t * x n + (1 - t) * y n) ≤ t * es k N x + (1 - t) * es k N y := by
  have hk0 : (0 : ℝ) < (k : ℝ) := by
    have : 0 < k := hk
    exact_mod_cast this
  have h := sumk_concave hkN x y t ht0 ht1
  have h' := div_le_div_of_nonneg_right h hk0.le
  unfold es
  have e : t * -((∑ j ∈ range k, ostat N x j) / (k : ℝ)) + (1 - t) * -((∑ j ∈ range k, ostat N y j) / (k : ℝ))
      = -((t * (∑ j ∈ range k, ostat N x j) + (1 - t) * (∑ j ∈ range k, ostat N y j)) / (k : ℝ)) := by
    ring
  rw [e]
  exact neg_le_neg h'

theorem sumk_pos_hom {k N : ℕ} (hkN : k ≤ N) (x : ℕ → ℝ) (c : ℝ) (hc : 0 ≤ c) :
    ∑ j ∈ range k, ostat N (fun n => c * x n) j = c * ∑ j ∈ range k, ostat N x j := by
  apply le_antisymm
  · obtain ⟨S, hS, hSx⟩ := exists_sum_eq_sumk hkN x
    have h1 := sumk_le_sum hkN (fun n => c * x n) S hS
    rw [← Finset.mul_sum, hSx] at h1
    exact h1
  · obtain ⟨S, hS, hSx⟩ := exists_sum_eq_sumk hkN (fun n => c * x n)
    have h1 := sumk_le_sum hkN x S hS
    rw [← Finset.mul_sum] at hSx
    rw [← hSx]
    exact mul_le_mul_of_nonneg_left h1 hc

theorem es_pos_hom {k N : ℕ} (hk : 1 ≤ k) (hkN : k ≤ N) (x : ℕ → ℝ) (c : ℝ) (hc : 0 ≤ c) :
    es k N (fun n => c * x n) = c * es k N x := by
  have _hk := hk
  unfold es
  rw [sumk_pos_hom hkN x c hc]
  ring

theorem es_anti_step {k N : ℕ} (hk : 1 ≤ k) (hkN : k + 1 ≤ N) (x : ℕ → ℝ) :
    es (k + 1) N x ≤ es k N x := by
  have hk0 : (0 : ℝ) < (k : ℝ) := by
    have : 0 < k := hk
    exact_mod_cast this
  have hk1 : (0 : ℝ) < ((k + 1 : ℕ) : ℝ) := by positivity
  have hle : ∑ j ∈ range k, ostat N x j ≤ ∑ _j ∈ range k, ostat N x k := by
    apply Finset.sum_le_sum
    intro j hj
    exact ostat_monotone N x (Finset.mem_range.mp hj).le hkN
  rw [Finset.sum_const, Finset.card_range, nsmul_eq_mul] at hle
  unfold es
  apply neg_le_neg
  rw [Finset.sum_range_succ, div_le_div_iff₀ hk0 hk1]
  push_cast
  nlinarith

/-- the mean of the k smallest is non-decreasing in k: ES is non-increasing in the level -/
theorem es_anti_k {k k' N : ℕ} (hk : 1 ≤ k) (hkk : k ≤ k') (hkN : k' ≤ N) (x : ℕ → ℝ) :
    es k' N x ≤ es k N x := by
  induction k', hkk using Nat.le_induction with
  | base => exact le_refl _
  | succ m hm ih =>
    exact le_trans (es_anti_step (le_trans hk hm) hkN x) (ih (Nat.le_of_succ_le hkN))

/-- the level enters through k = ⌈p N⌉, which is monotone in p and lies in [1, N] for 0 < p ≤ 1 -/
theorem ceil_level_mono {p q : ℝ} (hp : 0 < p) (hpq : p ≤ q) (N : ℕ) :
    ⌈p * (N : ℝ)⌉₊ ≤ ⌈q * (N : ℝ)⌉₊ := by
  have _hp := hp
  apply Nat.ceil_mono
  exact mul_le_mul_of_nonneg_right hpq (Nat.cast_nonneg N)

theorem ceil_level_range {p : ℝ} (hp : 0 < p) (hp1 : p ≤ 1) {N : ℕ} (hN : 1 ≤ N) :
    1 ≤ ⌈p * (N : ℝ)⌉₊ ∧ ⌈p * (N : ℝ)⌉₊ ≤ N := by
  have hN0 : (0 : ℝ) < (N : ℝ) := by
    have : 0 < N := hN
    exact_mod_cast this
  constructor
  · have : 0 < ⌈p * (N : ℝ)⌉₊ := Nat.ceil_pos.mpr (mul_pos hp hN0)
    exact this
  · apply Nat.ceil_le.mpr
    calc p * (N : ℝ) ≤ 1 * (N : ℝ) := mul_le_mul_of_nonneg_right hp1 hN0.le
      _ = (N : ℝ) := one_mul _

theorem ostat_mem {N : ℕ} (x : ℕ → ℝ) {j : ℕ} (hj : j < N) : ∃ n < N, ostat N x j = x n := by
  refine ⟨(Tuple.sort (fun i : Fin N => x i) ⟨j, hj⟩ : ℕ), Fin.isLt _, ?_⟩
  exact ostat_fin N x ⟨j, hj⟩

theorem es_le_neg_min {k N : ℕ} (hk : 1 ≤ k) (hkN : k ≤ N) (x : ℕ → ℝ) (lo : ℝ)
    (h : ∀ n < N, lo ≤ x n) : es k N x ≤ -lo := by
  have hk0 : (0 : ℝ) < (k : ℝ) := by
    have : 0 < k := hk
    exact_mod_cast this
  have hle : ∑ _j ∈ range k, lo ≤ ∑ j ∈ range k, ostat N x j := by
    apply Finset.sum_le_sum
    intro j hj
    obtain ⟨n, hn, e⟩ := ostat_mem x (lt_of_lt_of_le (Finset.mem_range.mp hj) hkN)
    rw [e]; exact h n hn
  rw [Finset.sum_const, Finset.card_range, nsmul_eq_mul] at hle
  unfold es
  apply neg_le_neg
  rw [le_div_iff₀ hk0]
  linarith

theorem neg_max_le_es {k N : ℕ} (hk : 1 ≤ k) (hkN : k ≤ N) (x : ℕ → ℝ) (hi : ℝ)
    (h : ∀ n < N, x n ≤ hi) : -hi ≤ es k N x := by
  have hk0 : (0 : ℝ) < (k : ℝ) := by
    have : 0 < k := hk
    exact_mod_cast this
  have hle : ∑ j ∈ range k, ostat N x j ≤ ∑ _j ∈ range k, hi := by
    apply Finset.sum_le_sum
    intro j hj
    obtain ⟨n, hn, e⟩ := ostat_mem x (lt_of_lt_of_le (Finset.mem_range.mp hj) hkN)
    rw [e]; exact h n hn
  rw [Finset.sum_const, Finset.card_range, nsmul_eq_mul] at hle
  unfold es
  apply neg_le_neg
  rw [div_le_iff₀ hk0]
  linarith

theorem sumN_eq (N : ℕ) (x : ℕ → ℝ) :
    ∑ j ∈ range N, ostat N x j = ∑ n ∈ range N, x n := by
  rw [← Fin.sum_univ_eq_sum_range (fun j => ostat N x j) N,
    ← Fin.sum_univ_eq_sum_range (fun j => x j) N]
  simp only [ostat_fin]
  exact Equiv.sum_comp (Tuple.sort (fun i : Fin N => x i)) (fun i : Fin N => x i)

theorem neg_mean_le_es {k N : ℕ} (hk : 1 ≤ k) (hkN : k ≤ N) (x : ℕ → ℝ) :
    -((∑ n ∈ range N, x n) / (N : ℝ)) ≤ es k N x := by
  have h := es_anti_k hk hkN (le_refl N) x
  have e : es N N x = -((∑ n ∈ range N, x n) / (N : ℝ)) := by
    unfold es
    rw [sumN_eq]
  rw [← e]
  exact h


end PfRisk
