/-
Layer 2 of property C04 (risk measures obey the convex-risk-measure axioms).

The definitions below are the SPEC FUNCTIONS of the contracts in /verif/contracts/risk.py
(`rho_spec`, `es_spec`, the utility-loss specs): layer 1 (pfv, z3) proves that the real pfhedge
functions return exactly these terms for every sample size N and every sample; this file proves
that the spec functions satisfy the axioms, for every N and every real sample.
`tools/lean_specs.py` re-derives the definitions from the contract terms on every run and compares.

A sample is `x : ℕ → ℝ` read on `Finset.range N` (the contract's index set 0 ≤ n < N).
No `sorry`, no `axiom`: checked by `lean` and by the manifest's scan on every run.
-/
import Mathlib

open Finset BigOperators

namespace PfRisk

/-! ### entropic risk measure  rho_a(x) = (1/a) log( (1/N) Σ exp(-a x_n) ) -/

noncomputable def rho (a : ℝ) (N : ℕ) (x : ℕ → ℝ) : ℝ :=
  Real.log ((∑ n ∈ range N, Real.exp (-(a * x n))) / (N : ℝ)) / a

lemma natCast_pos' {N : ℕ} (hN : 1 ≤ N) : (0 : ℝ) < (N : ℝ) := by
  exact_mod_cast hN

lemma sumexp_pos (a : ℝ) {N : ℕ} (hN : 1 ≤ N) (x : ℕ → ℝ) :
    0 < ∑ n ∈ range N, Real.exp (-(a * x n)) := by
  apply Finset.sum_pos
  · intro n _
    exact Real.exp_pos _
  · exact ⟨0, mem_range.mpr hN⟩

lemma meanexp_pos (a : ℝ) {N : ℕ} (hN : 1 ≤ N) (x : ℕ → ℝ) :
    0 < (∑ n ∈ range N, Real.exp (-(a * x n))) / (N : ℝ) :=
  div_pos (sumexp_pos a hN x) (natCast_pos' hN)

lemma sum_weights {N : ℕ} (hN : 1 ≤ N) : ∑ _n ∈ range N, (1 / (N : ℝ)) = 1 := by
  have hNpos := natCast_pos' hN
  rw [Finset.sum_const, card_range, nsmul_eq_mul]
  field_simp

theorem rho_mono {a : ℝ} (ha : 0 < a) {N : ℕ} (hN : 1 ≤ N) (x y : ℕ → ℝ)
    (h : ∀ n < N, x n ≤ y n) : rho a N y ≤ rho a N x := by
  unfold rho
  have hNpos := natCast_pos' hN
  have hsum : ∑ n ∈ range N, Real.exp (-(a * y n)) ≤ ∑ n ∈ range N, Real.exp (-(a * x n)) := by
    apply Finset.sum_le_sum
    intro n hn
    apply Real.exp_le_exp.mpr
    have h1 := h n (mem_range.mp hn)
    have h2 : a * x n ≤ a * y n := mul_le_mul_of_nonneg_left h1 ha.le
    linarith
  have hmean : (∑ n ∈ range N, Real.exp (-(a * y n))) / (N : ℝ)
      ≤ (∑ n ∈ range N, Real.exp (-(a * x n))) / (N : ℝ) :=
    div_le_div_of_nonneg_right hsum hNpos.le
  have hlog := Real.log_le_log (meanexp_pos a hN y) hmean
  exact div_le_div_of_nonneg_right hlog ha.le

theorem rho_const {a : ℝ} (ha : 0 < a) {N : ℕ} (hN : 1 ≤ N) (c : ℝ) :
    rho a N (fun _ => c) = -c := by
  unfold rho
  have hNpos := natCast_pos' hN
  have h1 : (∑ _n ∈ range N, Real.exp (-(a * c))) / (N : ℝ) = Real.exp (-(a * c)) := by
    rw [Finset.sum_const, card_range, nsmul_eq_mul]
    field_simp
  rw [h1, Real.log_exp]
  field_simp

theorem rho_cash {a : ℝ} (ha : 0 < a) {N : ℕ} (hN : 1 ≤ N) (x : ℕ → ℝ) (c : ℝ) :
    rho a N (fun n => x n + c) = rho a N x - c := by
  unfold rho
  have hNpos := natCast_pos' hN
  have h1 : (∑ n ∈ range N, Real.exp (-(a * (x n + c)))) / (N : ℝ)
      = Real.exp (-(a * c)) * ((∑ n ∈ range N, Real.exp (-(a * x n))) / (N : ℝ)) := by
    rw [← mul_div_assoc, Finset.mul_sum]
    congr 1
    apply Finset.sum_congr rfl
    intro n _
    rw [← Real.exp_add]
    congr 1
    ring
  rw [h1, Real.log_mul (Real.exp_pos _).ne' (meanexp_pos a hN x).ne', Real.log_exp]
  field_simp
  ring

theorem rho_convex {a : ℝ} (ha : 0 < a) {N : ℕ} (hN : 1 ≤ N) (x y : ℕ → ℝ) (t : ℝ)
    (ht0 : 0 ≤ t) (ht1 : t ≤ 1) :
    rho a N (fun n => t * x n + (1 - t) * y n) ≤ t * rho a N x + (1 - t) * rho a N y := by
  rcases ht0.eq_or_lt with h0 | h0
  · subst h0
    simp
  rcases ht1.eq_or_lt with h1 | h1
  · subst h1
    simp
  have hNpos := natCast_pos' hN
  have h1t : 0 < 1 - t := by linarith
  have hpq : t⁻¹.HolderConjugate (1 - t)⁻¹ := Real.HolderConjugate.inv_inv h0 h1t (by ring)
  have hH := Real.inner_le_Lp_mul_Lq_of_nonneg (range N)
    (f := fun n => Real.exp (-(a * (t * x n)))) (g := fun n => Real.exp (-(a * ((1 - t) * y n))))
    hpq (fun _ _ => (Real.exp_pos _).le) (fun _ _ => (Real.exp_pos _).le)
  simp only [one_div, inv_inv] at hH
  have e0 : ∑ n ∈ range N, Real.exp (-(a * (t * x n))) * Real.exp (-(a * ((1 - t) * y n)))
      = ∑ n ∈ range N, Real.exp (-(a * (t * x n + (1 - t) * y n))) := by
    apply Finset.sum_congr rfl
    intro n _
    rw [← Real.exp_add]
    congr 1
    ring
  have e1 : ∑ n ∈ range N, Real.exp (-(a * (t * x n))) ^ t⁻¹
      = ∑ n ∈ range N, Real.exp (-(a * x n)) := by
    apply Finset.sum_congr rfl
    intro n _
    rw [← Real.exp_mul]
    congr 1
    field_simp
  have e2 : ∑ n ∈ range N, Real.exp (-(a * ((1 - t) * y n))) ^ (1 - t)⁻¹
      = ∑ n ∈ range N, Real.exp (-(a * y n)) := by
    apply Finset.sum_congr rfl
    intro n _
    rw [← Real.exp_mul]
    congr 1
    have := h1t.ne'
    field_simp
  rw [e0, e1, e2] at hH
  have hSx := sumexp_pos a hN x
  have hSy := sumexp_pos a hN y
  have hSz := sumexp_pos a hN (fun n => t * x n + (1 - t) * y n)
  have hlog := Real.log_le_log hSz hH
  rw [Real.log_mul (Real.rpow_pos_of_pos hSx _).ne' (Real.rpow_pos_of_pos hSy _).ne',
    Real.log_rpow hSx, Real.log_rpow hSy] at hlog
  unfold rho
  rw [Real.log_div hSx.ne' hNpos.ne', Real.log_div hSy.ne' hNpos.ne', Real.log_div hSz.ne' hNpos.ne']
  have key : Real.log (∑ n ∈ range N, Real.exp (-(a * (t * x n + (1 - t) * y n)))) - Real.log (N : ℝ)
      ≤ t * (Real.log (∑ n ∈ range N, Real.exp (-(a * x n))) - Real.log (N : ℝ))
        + (1 - t) * (Real.log (∑ n ∈ range N, Real.exp (-(a * y n))) - Real.log (N : ℝ)) := by
    linarith
  have := div_le_div_of_nonneg_right key ha.le
  calc _ ≤ _ := this
    _ = _ := by ring

/-- non-decreasing in the risk aversion -/
theorem rho_mono_a {a b : ℝ} (ha : 0 < a) (hab : a ≤ b) {N : ℕ} (hN : 1 ≤ N) (x : ℕ → ℝ) :
    rho a N x ≤ rho b N x := by
  unfold rho
  have hNpos := natCast_pos' hN
  have hb : 0 < b := lt_of_lt_of_le ha hab
  have hp : 1 ≤ b / a := by rwa [le_div_iff₀ ha, one_mul]
  have hJ := Real.rpow_arith_mean_le_arith_mean_rpow (range N) (fun _ => 1 / (N : ℝ))
    (fun n => Real.exp (-(a * x n))) (fun _ _ => by positivity) (sum_weights hN)
    (fun _ _ => (Real.exp_pos _).le) hp
  have e1 : ∑ n ∈ range N, 1 / (N : ℝ) * Real.exp (-(a * x n))
      = (∑ n ∈ range N, Real.exp (-(a * x n))) / (N : ℝ) := by
    rw [Finset.sum_div]
    apply Finset.sum_congr rfl
    intro n _
    ring
  have e2 : ∑ n ∈ range N, 1 / (N : ℝ) * Real.exp (-(a * x n)) ^ (b / a)
      = (∑ n ∈ range N, Real.exp (-(b * x n))) / (N : ℝ) := by
    rw [Finset.sum_div]
    apply Finset.sum_congr rfl
    intro n _
    rw [← Real.exp_mul]
    have : -(a * x n) * (b / a) = -(b * x n) := by
      field_simp
    rw [this]
    ring
  rw [e1, e2] at hJ
  have hMa := meanexp_pos a hN x
  have hlog := Real.log_le_log (Real.rpow_pos_of_pos hMa _) hJ
  rw [Real.log_rpow hMa] at hlog
  rw [div_le_div_iff₀ ha hb]
  have h3 := mul_le_mul_of_nonneg_right hlog ha.le
  have h4 : b / a * Real.log ((∑ n ∈ range N, Real.exp (-(a * x n))) / (N : ℝ)) * a
      = Real.log ((∑ n ∈ range N, Real.exp (-(a * x n))) / (N : ℝ)) * b := by
    field_simp
  linarith

theorem rho_le_neg_min {a : ℝ} (ha : 0 < a) {N : ℕ} (hN : 1 ≤ N) (x : ℕ → ℝ) (lo : ℝ)
    (h : ∀ n < N, lo ≤ x n) : rho a N x ≤ -lo := by
  have := rho_mono ha hN (fun _ => lo) x h
  rwa [rho_const ha hN] at this

theorem neg_max_le_rho {a : ℝ} (ha : 0 < a) {N : ℕ} (hN : 1 ≤ N) (x : ℕ → ℝ) (hi : ℝ)
    (h : ∀ n < N, x n ≤ hi) : -hi ≤ rho a N x := by
  have := rho_mono ha hN x (fun _ => hi) h
  rwa [rho_const ha hN] at this

theorem neg_mean_le_rho {a : ℝ} (ha : 0 < a) {N : ℕ} (hN : 1 ≤ N) (x : ℕ → ℝ) :
    -((∑ n ∈ range N, x n) / (N : ℝ)) ≤ rho a N x := by
  unfold rho
  have hNpos := natCast_pos' hN
  have hJ := convexOn_exp.map_sum_le (t := range N) (w := fun _ => 1 / (N : ℝ))
    (p := fun n => -(a * x n)) (fun _ _ => by positivity) (sum_weights hN)
    (fun _ _ => Set.mem_univ _)
  simp only [smul_eq_mul] at hJ
  have e1 : ∑ n ∈ range N, 1 / (N : ℝ) * -(a * x n) = -(a * ((∑ n ∈ range N, x n) / (N : ℝ))) := by
    rw [Finset.sum_div, Finset.mul_sum, ← Finset.sum_neg_distrib]
    apply Finset.sum_congr rfl
    intro n _
    ring
  have e2 : ∑ n ∈ range N, 1 / (N : ℝ) * Real.exp (-(a * x n))
      = (∑ n ∈ range N, Real.exp (-(a * x n))) / (N : ℝ) := by
    rw [Finset.sum_div]
    apply Finset.sum_congr rfl
    intro n _
    ring
  rw [e1, e2] at hJ
  have hlog := Real.log_le_log (Real.exp_pos _) hJ
  rw [Real.log_exp] at hlog
  rw [le_div_iff₀ ha]
  linarith

/-! ### expected-utility losses  L_u(x) = -(1/N) Σ u(x_n)  for a concave non-decreasing u on a convex domain -/

noncomputable def uloss (u : ℝ → ℝ) (N : ℕ) (x : ℕ → ℝ) : ℝ :=
  -((∑ n ∈ range N, u (x n)) / (N : ℝ))

theorem uloss_mono {u : ℝ → ℝ} {D : Set ℝ} (hu : MonotoneOn u D) {N : ℕ} (hN : 1 ≤ N)
    (x y : ℕ → ℝ) (hx : ∀ n < N, x n ∈ D) (hy : ∀ n < N, y n ∈ D) (h : ∀ n < N, x n ≤ y n) :
    uloss u N y ≤ uloss u N x := by
  unfold uloss
  have hNpos := natCast_pos' hN
  have hsum : ∑ n ∈ range N, u (x n) ≤ ∑ n ∈ range N, u (y n) := by
    apply Finset.sum_le_sum
    intro n hn
    have hn' := mem_range.mp hn
    exact hu (hx n hn') (hy n hn') (h n hn')
  have := div_le_div_of_nonneg_right hsum hNpos.le
  linarith

theorem uloss_convex {u : ℝ → ℝ} {D : Set ℝ} (hu : ConcaveOn ℝ D u) {N : ℕ} (hN : 1 ≤ N)
    (x y : ℕ → ℝ) (hx : ∀ n < N, x n ∈ D) (hy : ∀ n < N, y n ∈ D) (t : ℝ) (ht0 : 0 ≤ t) (ht1 : t ≤ 1) :
    uloss u N (fun n => t * x n + (1 - t) * y n) ≤ t * uloss u N x + (1 - t) * uloss u N y := by
  unfold uloss
  have hNpos := natCast_pos' hN
  have h1t : 0 ≤ 1 - t := by linarith
  have hsum : t * (∑ n ∈ range N, u (x n)) + (1 - t) * (∑ n ∈ range N, u (y n))
      ≤ ∑ n ∈ range N, u (t * x n + (1 - t) * y n) := by
    rw [Finset.mul_sum, Finset.mul_sum, ← Finset.sum_add_distrib]
    apply Finset.sum_le_sum
    intro n hn
    have hn' := mem_range.mp hn
    have := hu.2 (hx n hn') (hy n hn') ht0 h1t (by ring)
    simpa only [smul_eq_mul] using this
  have := div_le_div_of_nonneg_right hsum hNpos.le
  have e : t * -((∑ n ∈ range N, u (x n)) / (N : ℝ)) + (1 - t) * -((∑ n ∈ range N, u (y n)) / (N : ℝ))
      = -((t * (∑ n ∈ range N, u (x n)) + (1 - t) * (∑ n ∈ range N, u (y n))) / (N : ℝ)) := by
    ring
  rw [e]
  linarith

/-- exponential utility  u(x) = -exp(-a x)  (EntropicLoss: -mean u = mean exp(-a x)) -/
theorem exp_utility_ok {a : ℝ} (ha : 0 < a) :
    MonotoneOn (fun x : ℝ => -Real.exp (-(a * x))) Set.univ ∧
    ConcaveOn ℝ Set.univ (fun x : ℝ => -Real.exp (-(a * x))) := by
  constructor
  · intro x _ y _ hxy
    have h2 : a * x ≤ a * y := mul_le_mul_of_nonneg_left hxy ha.le
    have : Real.exp (-(a * y)) ≤ Real.exp (-(a * x)) := Real.exp_le_exp.mpr (by linarith)
    simp only
    linarith
  · refine ⟨convex_univ, ?_⟩
    intro x _ y _ s r hs hr hsr
    have := convexOn_exp.2 (Set.mem_univ (-(a * x))) (Set.mem_univ (-(a * y))) hs hr hsr
    simp only [smul_eq_mul] at this ⊢
    have e : -(a * (s * x + r * y)) = s * -(a * x) + r * -(a * y) := by ring
    rw [e]
    linarith

/-- the entropic loss term of the contract is `uloss` of the exponential utility -/
theorem eloss_eq {a : ℝ} {N : ℕ} (x : ℕ → ℝ) :
    (∑ n ∈ range N, Real.exp (-(a * x n))) / (N : ℝ) = uloss (fun x : ℝ => -Real.exp (-(a * x))) N x := by
  unfold uloss
  simp only [Finset.sum_neg_distrib, neg_div, neg_neg]

/-- isoelastic utility  u(x) = x^(1-a), 0 < a < 1, on x ≥ 0  (IsoelasticLoss) -/
theorem isoelastic_utility_ok {a : ℝ} (ha0 : 0 < a) (ha1 : a < 1) :
    MonotoneOn (fun x : ℝ => x ^ (1 - a)) (Set.Ici 0) ∧
    ConcaveOn ℝ (Set.Ici 0) (fun x : ℝ => x ^ (1 - a)) := by
  constructor
  · intro x hx y _ hxy
    exact Real.rpow_le_rpow hx hxy (by linarith)
  · exact Real.concaveOn_rpow (by linarith) (by linarith)

/-- logarithmic utility (a = 1) on x > 0 -/
theorem log_utility_ok :
    MonotoneOn Real.log (Set.Ioi 0) ∧ ConcaveOn ℝ (Set.Ioi 0) Real.log := by
  constructor
  · intro x hx y _ hxy
    exact Real.log_le_log hx hxy
  · exact strictConcaveOn_log_Ioi.concaveOn


end PfRisk
