/-
Layer 2 of property C04 (risk measures obey the convex-risk-measure axioms).

The definitions below are the SPEC FUNCTIONS of the contracts in /verif/contracts/risk.py
(`rho_spec`, `es_spec`, the utility-loss specs): layer 1 (pfv, z3) proves that the real pfhedge
functions return exactly these terms for every sample size N and every sample; this file proves
that the spec functions satisfy the axioms, for every N and every real sample.
`tools/lean_specs.py` re-derives the definitions from the contract terms on every run and compares.

A sample is `x : ℕ → ℝ` read on `Finset.range N` (the contract's index set 0 ≤ n < N).
No `sorry`, no `axiom`: checked by `lean` and by the manifest's scan on every run.
-/
import Mathlib

open Finset BigOperators

namespace PfRisk

/-! ### quadratic CVaR: the objective  G(w) = w + lam (1/N) Σ max(-w - x_n, 0)^2  whose minimum over w is the risk.
    (Layer 1 proves that the code returns G at the root handed back by `bisect`.) -/

noncomputable def qobj (lam : ℝ) (N : ℕ) (x : ℕ → ℝ) (w : ℝ) : ℝ :=
  w + lam * ((∑ n ∈ range N, (max (-w - x n) 0) ^ 2) / (N : ℝ))

theorem qobj_mono {lam : ℝ} (hl : 0 ≤ lam) {N : ℕ} (hN : 1 ≤ N) (x y : ℕ → ℝ) (w : ℝ)
    (h : ∀ n < N, x n ≤ y n) : qobj lam N y w ≤ qobj lam N x w := by
  unfold qobj
  have hNpos : (0:ℝ) < (N:ℝ) := by exact_mod_cast hN
  have hsum : ∑ n ∈ range N, (max (-w - y n) 0)^2 ≤ ∑ n ∈ range N, (max (-w - x n) 0)^2 := by
    apply Finset.sum_le_sum
    intro n hn
    have hxy := h n (Finset.mem_range.mp hn)
    have h1 : max (-w - y n) 0 ≤ max (-w - x n) 0 := max_le_max (by linarith) le_rfl
    have h0 : 0 ≤ max (-w - y n) 0 := le_max_right _ _
    exact pow_le_pow_left₀ h0 h1 2
  have h2 := div_le_div_of_nonneg_right hsum hNpos.le
  have h3 := mul_le_mul_of_nonneg_left h2 hl
  linarith

theorem qobj_cash {lam : ℝ} {N : ℕ} (x : ℕ → ℝ) (w c : ℝ) :
    qobj lam N (fun n => x n + c) (w - c) = qobj lam N x w - c := by
  unfold qobj
  have e : ∀ n, -(w - c) - (x n + c) = -w - x n := by intro n; ring
  simp only [e]
  ring

/-- jointly convex in (w, x) -/
theorem qobj_convex {lam : ℝ} (hl : 0 ≤ lam) {N : ℕ} (hN : 1 ≤ N) (x y : ℕ → ℝ) (w v t : ℝ)
    (ht0 : 0 ≤ t) (ht1 : t ≤ 1) :
    qobj lam N (fun n => t * x n + (1 - t) * y n) (t * w + (1 - t) * v)
      ≤ t * qobj lam N x w + (1 - t) * qobj lam N y v := by
  unfold qobj
  have hNpos : (0:ℝ) < (N:ℝ) := by exact_mod_cast hN
  have ht1' : 0 ≤ 1 - t := by linarith
  have hsum : ∑ n ∈ range N, (max (-(t * w + (1 - t) * v) - (t * x n + (1 - t) * y n)) 0)^2
      ≤ t * ∑ n ∈ range N, (max (-w - x n) 0)^2 + (1 - t) * ∑ n ∈ range N, (max (-v - y n) 0)^2 := by
    rw [Finset.mul_sum, Finset.mul_sum, ← Finset.sum_add_distrib]
    apply Finset.sum_le_sum
    intro n _
    have hA0 : 0 ≤ max (-w - x n) 0 := le_max_right _ _
    have hB0 : 0 ≤ max (-v - y n) 0 := le_max_right _ _
    have hA1 : -w - x n ≤ max (-w - x n) 0 := le_max_left _ _
    have hB1 : -v - y n ≤ max (-v - y n) 0 := le_max_left _ _
    generalize max (-w - x n) 0 = A at *
    generalize max (-v - y n) 0 = B at *
    have hC0 : 0 ≤ max (-(t * w + (1 - t) * v) - (t * x n + (1 - t) * y n)) 0 := le_max_right _ _
    have hC1 : max (-(t * w + (1 - t) * v) - (t * x n + (1 - t) * y n)) 0 ≤ t * A + (1 - t) * B := by
      apply max_le
      · have e1 := mul_le_mul_of_nonneg_left hA1 ht0
        have e2 := mul_le_mul_of_nonneg_left hB1 ht1'
        linarith
      · have e1 := mul_nonneg ht0 hA0
        have e2 := mul_nonneg ht1' hB0
        linarith
    have hsq : (max (-(t * w + (1 - t) * v) - (t * x n + (1 - t) * y n)) 0)^2 ≤ (t * A + (1 - t) * B)^2 :=
      pow_le_pow_left₀ hC0 hC1 2
    have hjen : (t * A + (1 - t) * B)^2 ≤ t * A^2 + (1 - t) * B^2 := by
      nlinarith [mul_nonneg (mul_nonneg ht0 ht1') (sq_nonneg (A - B))]
    linarith
  have h2 := div_le_div_of_nonneg_right hsum hNpos.le
  have h3 := mul_le_mul_of_nonneg_left h2 hl
  have e : lam * ((t * ∑ n ∈ range N, (max (-w - x n) 0)^2 + (1 - t) * ∑ n ∈ range N, (max (-v - y n) 0)^2) / (N:ℝ))
      = t * (lam * ((∑ n ∈ range N, (max (-w - x n) 0)^2) / (N:ℝ)))
        + (1 - t) * (lam * ((∑ n ∈ range N, (max (-v - y n) 0)^2) / (N:ℝ))) := by ring
  rw [e] at h3
  linarith

/-- the risk  Q(x) = inf_w G(w) -/
noncomputable def qcvar (lam : ℝ) (N : ℕ) (x : ℕ → ℝ) : ℝ := ⨅ w : ℝ, qobj lam N x w

/-- G is bounded below (so the infimum is a real number): G(w) ≥ -max(x) - 1/(4 lam) -/
theorem qobj_lower {lam : ℝ} (hl : 0 < lam) {N : ℕ} (hN : 1 ≤ N) (x : ℕ → ℝ) (hi : ℝ)
    (h : ∀ n < N, x n ≤ hi) (w : ℝ) : -hi - 1 / (4 * lam) ≤ qobj lam N x w := by
  unfold qobj
  have hNpos : (0:ℝ) < (N:ℝ) := by exact_mod_cast hN
  have hm0 : 0 ≤ max (-w - hi) 0 := le_max_right _ _
  have hm1 : -w - hi ≤ max (-w - hi) 0 := le_max_left _ _
  have hsum : (N:ℝ) * (max (-w - hi) 0)^2 ≤ ∑ n ∈ range N, (max (-w - x n) 0)^2 := by
    have hc : ∑ _n ∈ range N, (max (-w - hi) 0)^2 = (N:ℝ) * (max (-w - hi) 0)^2 := by
      rw [Finset.sum_const, Finset.card_range, nsmul_eq_mul]
    rw [← hc]
    apply Finset.sum_le_sum
    intro n hn
    have hx := h n (Finset.mem_range.mp hn)
    have h1 : max (-w - hi) 0 ≤ max (-w - x n) 0 := max_le_max (by linarith) le_rfl
    exact pow_le_pow_left₀ hm0 h1 2
  have hdiv : (max (-w - hi) 0)^2 ≤ (∑ n ∈ range N, (max (-w - x n) 0)^2) / (N:ℝ) := by
    rw [le_div_iff₀ hNpos]; linarith
  have h3 := mul_le_mul_of_nonneg_left hdiv hl.le
  generalize max (-w - hi) 0 = m at *
  have key : lam * m^2 - m + 1 / (4 * lam) = lam * (m - 1 / (2 * lam))^2 := by
    field_simp; ring
  have key2 : 0 ≤ lam * (m - 1 / (2 * lam))^2 := mul_nonneg hl.le (sq_nonneg _)
  linarith

theorem qobj_bddBelow {lam : ℝ} (hl : 0 < lam) {N : ℕ} (hN : 1 ≤ N) (x : ℕ → ℝ) :
    BddBelow (Set.range (qobj lam N x)) := by
  refine ⟨-(∑ n ∈ range N, |x n|) - 1 / (4 * lam), ?_⟩
  rintro _ ⟨w, rfl⟩
  apply qobj_lower hl hN
  intro n hn
  calc x n ≤ |x n| := le_abs_self _
    _ ≤ ∑ n ∈ range N, |x n| :=
      Finset.single_le_sum (f := fun n => |x n|) (fun i _ => abs_nonneg _) (Finset.mem_range.mpr hn)

theorem qcvar_mono {lam : ℝ} (hl : 0 < lam) {N : ℕ} (hN : 1 ≤ N) (x y : ℕ → ℝ)
    (h : ∀ n < N, x n ≤ y n) : qcvar lam N y ≤ qcvar lam N x := by
  unfold qcvar
  exact ciInf_mono (qobj_bddBelow hl hN y) (fun w => qobj_mono hl.le hN x y w h)

theorem qcvar_cash {lam : ℝ} (hl : 0 < lam) {N : ℕ} (hN : 1 ≤ N) (x : ℕ → ℝ) (c : ℝ) :
    qcvar lam N (fun n => x n + c) = qcvar lam N x - c := by
  apply le_antisymm
  · have h1 : ∀ w, qcvar lam N (fun n => x n + c) + c ≤ qobj lam N x w := by
      intro w
      have := ciInf_le (qobj_bddBelow hl hN (fun n => x n + c)) (w - c)
      rw [qobj_cash] at this
      unfold qcvar
      linarith
    have h2 : qcvar lam N (fun n => x n + c) + c ≤ qcvar lam N x := le_ciInf h1
    linarith
  · apply le_ciInf
    intro w
    have h1 := ciInf_le (qobj_bddBelow hl hN x) (w + c)
    have h2 := qobj_cash (lam := lam) (N := N) x (w + c) c
    rw [add_sub_cancel_right] at h2
    rw [h2]
    unfold qcvar
    linarith

theorem qcvar_convex {lam : ℝ} (hl : 0 < lam) {N : ℕ} (hN : 1 ≤ N) (x y : ℕ → ℝ) (t : ℝ)
    (ht0 : 0 ≤ t) (ht1 : t ≤ 1) :
    qcvar lam N (fun n => t * x n + (1 - t) * y n) ≤ t * qcvar lam N x + (1 - t) * qcvar lam N y := by
  rcases eq_or_lt_of_le ht0 with h0 | h0
  · subst h0; simp
  rcases eq_or_lt_of_le ht1 with h1 | h1
  · subst h1; simp
  have h1' : 0 < 1 - t := by linarith
  set F := qcvar lam N (fun n => t * x n + (1 - t) * y n) with hF
  have hall : ∀ w v, F ≤ t * qobj lam N x w + (1 - t) * qobj lam N y v := by
    intro w v
    have a := ciInf_le (qobj_bddBelow hl hN (fun n => t * x n + (1 - t) * y n)) (t * w + (1 - t) * v)
    have b := qobj_convex hl.le hN x y w v t ht0 ht1
    exact le_trans a b
  have step1 : ∀ v, F ≤ t * qcvar lam N x + (1 - t) * qobj lam N y v := by
    intro v
    have : (F - (1 - t) * qobj lam N y v) / t ≤ qcvar lam N x := by
      apply le_ciInf
      intro w
      rw [div_le_iff₀ h0]
      have := hall w v
      linarith
    rw [div_le_iff₀ h0] at this
    linarith
  have : (F - t * qcvar lam N x) / (1 - t) ≤ qcvar lam N y := by
    apply le_ciInf
    intro v
    rw [div_le_iff₀ h1']
    have := step1 v
    linarith
  rw [div_le_iff₀ h1'] at this
  linarith

/-- bounds lowered by 1/(4 lam):  -max - 1/(4 lam) ≤ Q ≤ -min - 1/(4 lam) -/
theorem qcvar_bounds {lam : ℝ} (hl : 0 < lam) {N : ℕ} (hN : 1 ≤ N) (x : ℕ → ℝ) (lo hi : ℝ)
    (hlo : ∀ n < N, lo ≤ x n) (hhi : ∀ n < N, x n ≤ hi) :
    -hi - 1 / (4 * lam) ≤ qcvar lam N x ∧ qcvar lam N x ≤ -lo - 1 / (4 * lam) := by
  constructor
  · exact le_ciInf (fun w => qobj_lower hl hN x hi hhi w)
  · have hNpos : (0:ℝ) < (N:ℝ) := by exact_mod_cast hN
    have hpos : 0 < 1 / (2 * lam) := by positivity
    refine le_trans (ciInf_le (qobj_bddBelow hl hN x) (-lo - 1 / (2 * lam))) ?_
    unfold qobj
    have hsum : ∑ n ∈ range N, (max (-(-lo - 1 / (2 * lam)) - x n) 0)^2 ≤ (N:ℝ) * (1 / (2 * lam))^2 := by
      have hc : ∑ _n ∈ range N, (1 / (2 * lam))^2 = (N:ℝ) * (1 / (2 * lam))^2 := by
        rw [Finset.sum_const, Finset.card_range, nsmul_eq_mul]
      rw [← hc]
      apply Finset.sum_le_sum
      intro n hn
      have hx := hlo n (Finset.mem_range.mp hn)
      have h0 : 0 ≤ max (-(-lo - 1 / (2 * lam)) - x n) 0 := le_max_right _ _
      have h1 : max (-(-lo - 1 / (2 * lam)) - x n) 0 ≤ 1 / (2 * lam) :=
        max_le (by linarith) hpos.le
      exact pow_le_pow_left₀ h0 h1 2
    have hdiv : (∑ n ∈ range N, (max (-(-lo - 1 / (2 * lam)) - x n) 0)^2) / (N:ℝ) ≤ (1 / (2 * lam))^2 := by
      rw [div_le_iff₀ hNpos]; linarith
    have h3 := mul_le_mul_of_nonneg_left hdiv hl.le
    have e : lam * (1 / (2 * lam))^2 = 1 / (2 * lam) - 1 / (4 * lam) := by
      field_simp; ring
    linarith

end PfRisk
