"""T -> z3 translation, axiom instantiation for special functions and big operators, and the
query driver (z3 Python API first, cvc5 binary on `unknown`).

Semantics assumed (stated in every evidence file): machine floats are mathematical reals;
`/` is total in the solver (x/0 uninterpreted) and definedness is a separate obligation;
integer `//` and `%` are SMT-LIB div/mod, equal to Python's for positive divisors.
"""
import subprocess
import tempfile
import time
import os

import z3

from . import terms as tm
from .terms import T

UNARY_SPECIAL = ('exp', 'log', 'sqrt', 'ncdf', 'npdf', 'cos', 'sin', 'cbrt')



def _cancel_mul_div(t):
    """mul(.., c, .., div(u, c)) -> (mul(.., u), c): the syntactic cancellation c * (u / c) = u (valid for c != 0)"""
    if t.op != 'mul':
        return None
    args = list(t.args)
    for i, x in enumerate(args):
        if x.op == 'div':
            u, c = x.args
            for j, y in enumerate(args):
                if j != i and y is c:
                    rest = [args[k] for k in range(len(args)) if k not in (i, j)]
                    return (tm.mul(*(rest + [u])) if rest else u), c
    return None


class Translator:
    def __init__(self):
        self.cache = {}
        self.funcs = {}
        self.big_ids = {}        # canonical (op, bv, body) -> (id, free var list)
        self.big_terms = []      # (T, z3 expr) of bmax/bmin/sum seen
        self.apps = {}           # fname -> list of (arg T, z3 arg, z3 app)
        self.axioms = []
        self.z3vars = {}
        self.ext_axioms = False  # extended exp instances: exp(-y) exp(y) = 1, exp(c (u / c)) = exp(u)
        self.ext_possible = 0
        self.big_axioms = True   # False: big operators are pure uninterpreted functions (congruence only) - a weaker, still sound theory

    # -- helpers
    def fn(self, name, dom, rng):
        key = (name, tuple(str(d) for d in dom), str(rng))
        f = self.funcs.get(key)
        if f is None:
            f = z3.Function(name, *dom, rng)
            self.funcs[key] = f
        return f

    @staticmethod
    def zsort(s):
        return {'R': z3.RealSort(), 'I': z3.IntSort(), 'B': z3.BoolSort()}[s]

    def var(self, t):
        name = t.args[0]
        v = self.z3vars.get((name, t.sort))
        if v is None:
            v = {'R': z3.Real, 'I': z3.Int, 'B': z3.Bool}[t.sort](name)
            self.z3vars[(name, t.sort)] = v
        return v

    def tr(self, t):
        r = self.cache.get(t)
        if r is not None:
            return r
        r = self._tr(t)
        self.cache[t] = r
        return r

    def _tr(self, t):
        op = t.op
        a = t.args
        if op == 'const':
            v = a[0]
            if t.sort == 'B':
                return z3.BoolVal(v)
            if t.sort == 'I':
                return z3.IntVal(v)
            return z3.RealVal(str(v))
        if op == 'var':
            return self.var(t)
        if op == 'add':
            xs = [self.tr(x) for x in a]
            r = xs[0]
            for x in xs[1:]:
                r = r + x
            return r
        if op == 'mul':
            xs = [self.tr(x) for x in a]
            r = xs[0]
            for x in xs[1:]:
                r = r * x
            return r
        if op == 'neg':
            return -self.tr(a[0])
        if op == 'div':
            return self.tr(a[0]) / self.tr(a[1])
        if op == 'pow':
            base, e = a
            if e.op == 'const' and e.sort == 'I':
                b = self.tr(base)
                r = b
                for _ in range(e.args[0] - 1):
                    r = r * b
                return r
            f = self.fn('powr', [z3.RealSort(), z3.RealSort()], z3.RealSort())
            zb, ze = self.tr(base), self.tr(e)
            r = f(zb, ze)
            self.axioms.append(z3.Implies(zb > 0, r > 0))
            return r
        if op == 'ite':
            return z3.If(self.tr(a[0]), self.tr(a[1]), self.tr(a[2]))
        if op == 'lt':
            return self.tr(a[0]) < self.tr(a[1])
        if op == 'le':
            return self.tr(a[0]) <= self.tr(a[1])
        if op == 'eq':
            return self.tr(a[0]) == self.tr(a[1])
        if op == 'and':
            return z3.And(*[self.tr(x) for x in a])
        if op == 'or':
            return z3.Or(*[self.tr(x) for x in a])
        if op == 'not':
            return z3.Not(self.tr(a[0]))
        if op == 'abs':
            x = self.tr(a[0])
            return z3.If(x >= 0, x, -x)
        if op == 'max':
            x, y = self.tr(a[0]), self.tr(a[1])
            return z3.If(x >= y, x, y)
        if op == 'min':
            x, y = self.tr(a[0]), self.tr(a[1])
            return z3.If(x <= y, x, y)
        if op == 'floor':
            return z3.ToInt(self.tr(a[0]))
        if op == 'toreal':
            return z3.ToReal(self.tr(a[0]))
        if op == 'mod':
            return self.tr(a[0]) % self.tr(a[1])
        if op == 'idiv':
            return self.tr(a[0]) / self.tr(a[1])
        if op == 'sel':
            idx = [self.tr(x) for x in a[1:]]
            f = self.fn('sel_' + a[0], [x.sort() for x in idx], self.zsort(t.sort))
            return f(*idx) if idx else z3.Const('sel_' + a[0], self.zsort(t.sort))
        if op == 'app':
            fname = a[0]
            if fname == 'stopgrad':
                return self.tr(a[1])        # identity on values
            zargs = [self.tr(x) for x in a[1:]]
            f = self.fn('f_' + fname, [x.sort() for x in zargs], self.zsort(t.sort))
            r = f(*zargs) if zargs else z3.Const('f_' + fname, self.zsort(t.sort))
            if fname in UNARY_SPECIAL and len(zargs) == 1:
                self._special(fname, a[1], zargs[0], r)
            return r
        if op in ('sum', 'bmax', 'bmin', 'bag', 'prod'):
            return self._big(t)
        if op == 'forall':
            bv, lo, hi, body = a
            self._nq = getattr(self, '_nq', 0) + 1
            k = z3.Int('fa!%d' % self._nq)
            zb = self.tr(tm.subst(body, {bv: _IntTerm(k, self)}))
            return z3.ForAll([k], z3.Implies(z3.And(self.tr(lo) <= k, k < self.tr(hi)), zb))
        raise ValueError('cannot translate op %r' % op)

    # -- special functions: per-occurrence and pairwise axioms (assumption register A2)
    def _special(self, fname, targ, zarg, zapp):
        occ = self.apps.setdefault(fname, [])
        for (_, _, za0) in occ:
            if za0 is zapp:
                return
        ax = self.axioms
        if fname == 'exp':
            if targ.op == 'add' and len(targ.args) <= 4:
                prod = None
                for x_ in targ.args:
                    e_ = self.tr(tm.app('exp', x_))
                    prod = e_ if prod is None else prod * e_
                ax.append(zapp == prod)         # exp(a + b) = exp(a) exp(b)
            # extended instances (second attempt only, see check_sat): they add nonlinear terms that slow unrelated proofs
            red = _cancel_mul_div(targ)
            if targ.op == 'neg' or red is not None:
                self.ext_possible += 1
            if self.ext_axioms and targ.op == 'neg':
                ax.append(zapp * self.tr(tm.app('exp', targ.args[0])) == 1)       # exp(-y) exp(y) = 1
            if self.ext_axioms and red is not None:
                u_, c_ = red
                ax.append(z3.Implies(self.tr(c_) != 0, zapp == self.tr(tm.app('exp', u_))))   # exp(c * (u / c)) = exp(u)
            ax.append(zapp > 0)
            ax.append(z3.Implies(zarg == 0, zapp == 1))
            ax.append(zapp >= 1 + zarg)          # exp(x) >= 1 + x
            ax.append(z3.Implies(zarg < 0, zapp < 1))
            ax.append(z3.Implies(zarg > 0, zapp > 1))
        elif fname == 'log':
            ax.append(z3.Implies(zarg == 1, zapp == 0))
            # structural: log of a product / quotient / power of positives
            if targ.op == 'mul' and len(targ.args) <= 4:
                parts = [(self.tr(x_), self.tr(tm.app('log', x_))) for x_ in targ.args]
                ax.append(z3.Implies(z3.And(*[pz > 0 for pz, _ in parts]), zapp == sum(lz for _, lz in parts)))
            elif targ.op == 'div':
                a_, b_ = targ.args
                za_, zb_ = self.tr(a_), self.tr(b_)
                ax.append(z3.Implies(z3.And(za_ > 0, zb_ > 0), zapp == self.tr(tm.app('log', a_)) - self.tr(tm.app('log', b_))))
            ax.append(z3.Implies(zarg > 0, zapp <= zarg - 1))   # log x <= x - 1
            ax.append(z3.Implies(zarg > 1, zapp > 0))
            ax.append(z3.Implies(z3.And(zarg > 0, zarg < 1), zapp < 0))
        elif fname == 'sqrt':
            ax.append(z3.Implies(zarg >= 0, z3.And(zapp >= 0, zapp * zapp == zarg)))
        elif fname == 'cbrt':
            ax.append(zapp * zapp * zapp == zarg)
            ax.append(z3.Implies(zarg >= 0, zapp >= 0))
            ax.append(z3.Implies(zarg <= 0, zapp <= 0))
        elif fname == 'ncdf':
            ax.append(z3.And(zapp > 0, zapp < 1))
            ax.append(z3.Implies(zarg == 0, zapp * 2 == 1))
        elif fname == 'npdf':
            ax.append(zapp > 0)
        elif fname in ('cos', 'sin'):
            ax.append(z3.And(zapp >= -1, zapp <= 1))
        # pairwise: strict monotonicity (exp, log on positives, sqrt on non-negatives, ncdf, cbrt)
        if fname in ('exp', 'ncdf', 'cbrt'):
            for (_, zb, zb_app) in occ:
                ax.append(z3.Implies(zarg < zb, zapp < zb_app))
                ax.append(z3.Implies(zb < zarg, zb_app < zapp))
        elif fname == 'log':
            for (_, zb, zb_app) in occ:
                ax.append(z3.Implies(z3.And(zarg > 0, zarg < zb), zapp < zb_app))
                ax.append(z3.Implies(z3.And(zb > 0, zb < zarg), zb_app < zapp))
        elif fname == 'sqrt':
            for (_, zb, zb_app) in occ:
                ax.append(z3.Implies(z3.And(zarg >= 0, zarg < zb), zapp < zb_app))
                ax.append(z3.Implies(z3.And(zb >= 0, zb < zarg), zb_app < zapp))
        if fname == 'ncdf':
            # symmetry between occurrences: ncdf(-x) = 1 - ncdf(x)
            for (_, zb, zb_app) in occ:
                ax.append(z3.Implies(zarg == -zb, zapp + zb_app == 1))
        if fname in ('npdf', 'ncdf'):
            # u*ncdf(u) + npdf(u) > 0  (it is the integral of ncdf up to u)
            other = 'ncdf' if fname == 'npdf' else 'npdf'
            for (_, zb, zb_app) in self.apps.get(other, []):
                n_, p_ = (zb_app, zapp) if fname == 'npdf' else (zapp, zb_app)
                ax.append(z3.Implies(zarg == zb, zarg * n_ + p_ > 0))
        if fname == 'npdf':
            for (_, zb, zb_app) in occ:
                ax.append(z3.Implies(zarg == -zb, zapp == zb_app))
                ax.append(z3.Implies(zarg * zarg < zb * zb, zapp > zb_app))
        # cross: exp/log inverse on occurrences
        if fname == 'exp':
            for (tb, zb, zb_app) in self.apps.get('log', []):
                ax.append(z3.Implies(z3.And(zb > 0, zarg == zb_app), zapp == zb))   # exp(log b) = b
                ax.append(z3.Implies(zb == zapp, zb_app == zarg))                   # log(exp a) = a
        if fname == 'log':
            for (tb, zb, zb_app) in self.apps.get('exp', []):
                ax.append(z3.Implies(z3.And(zarg > 0, zb == zapp), zb_app == zarg))
                ax.append(z3.Implies(zarg == zb_app, zapp == zb))
        occ.append((targ, zarg, zapp))

    # -- big operators
    def _big(self, t):
        op = t.op
        bv, lo, hi, body = t.args
        fvs = sorted(tm.free_vars(body) - {bv}, key=lambda v: v.uid)
        key = (op, body)
        bid = self.big_ids.get(key)
        if bid is None:
            bid = len(self.big_ids)
            self.big_ids[key] = bid
        zlo, zhi = self.tr(lo), self.tr(hi)
        zfv = [self.tr(v) for v in fvs]
        dom = [z3.IntSort(), z3.IntSort()] + [x.sort() for x in zfv]
        f = self.fn('%s_%d' % (op, bid), dom, self.zsort(t.sort))
        r = f(zlo, zhi, *zfv)
        if op == 'sum':
            self.axioms.append(z3.Implies(zhi <= zlo, r == 0))
            if _nonneg(body):
                self.axioms.append(r >= 0)      # a finite sum of non-negative terms
            if _pos(body):
                self.axioms.append(z3.Implies(zhi > zlo, r > 0))
        elif op == 'bag':
            pass
        elif op == 'prod':
            self.axioms.append(z3.Implies(zhi <= zlo, r == 1))
            if _pos(body):
                self.axioms.append(r > 0)
        elif self.big_axioms:
            # witness and bound axioms; the quantified bound is instantiated by z3 (MBQI/e-matching)
            w = self.fn('wit_%s_%d' % (op, bid), dom, z3.IntSort())(zlo, zhi, *zfv)
            zb_w = self.tr(tm.subst(body, {bv: _IntTerm(w, self)}))
            k = z3.Int('kq!%d_%d' % (bid, len(self.big_terms)))
            zb_k = self.tr(tm.subst(body, {bv: _IntTerm(k, self)}))
            rel = (zb_k <= r) if op == 'bmax' else (zb_k >= r)
            self.axioms.append(z3.Implies(zhi > zlo, z3.And(zlo <= w, w < zhi, zb_w == r)))
            self.axioms.append(z3.ForAll([k], z3.Implies(z3.And(zlo <= k, k < zhi), rel)))
            # ground instances at the ends of the range (helps when quantifier instantiation is weak)
            for inst in (lo, tm.sub(hi, tm.IONE)):
                zi = self.tr(inst)
                zb_i = self.tr(tm.subst(body, {bv: inst}))
                reli = (zb_i <= r) if op == 'bmax' else (zb_i >= r)
                self.axioms.append(z3.Implies(z3.And(zlo <= zi, zi < zhi), reli))
        self.big_terms.append((t, r))
        return r


_int_terms = {}


def _pos(b):
    """syntactic sufficient condition for b > 0"""
    op = b.op
    if op == 'const':
        return b.sort != 'B' and b.args[0] > 0
    if op == 'app':
        return b.args[0] in ('exp', 'npdf', 'ncdf')
    if op == 'mul':
        return all(_pos(a) for a in b.args)
    if op == 'add':
        return all(_nonneg(a) for a in b.args) and any(_pos(a) for a in b.args)
    if op == 'div':
        return _pos(b.args[0]) and _pos(b.args[1])
    if op == 'toreal':
        return _pos(b.args[0])
    if op == 'ite':
        return _pos(b.args[1]) and _pos(b.args[2])
    if op == 'prod':
        return _pos(b.args[3])
    if op == 'max':
        return _pos(b.args[0]) or _pos(b.args[1])
    return False


def _nonneg(b):
    """syntactic sufficient condition for b >= 0"""
    op = b.op
    if op == 'const':
        return b.sort != 'B' and b.args[0] >= 0
    if op == 'abs':
        return True
    if op == 'pow':
        e = b.args[1]
        return (e.op == 'const' and e.sort == 'I' and e.args[0] % 2 == 0) or _nonneg(b.args[0])
    if op == 'app':
        return b.args[0] in ('exp', 'sqrt', 'npdf', 'ncdf')
    if op in ('add', 'mul'):
        if op == 'mul' and len(b.args) == 2 and b.args[0] is b.args[1]:
            return True
        return all(_nonneg(a) for a in b.args)
    if op == 'max':
        return _nonneg(b.args[0]) or _nonneg(b.args[1])
    if op == 'min':
        return _nonneg(b.args[0]) and _nonneg(b.args[1])
    if op == 'ite':
        return _nonneg(b.args[1]) and _nonneg(b.args[2])
    if op == 'toreal':
        return _nonneg(b.args[0])
    if op == 'sum':
        return _nonneg(b.args[3])
    if op == 'div':
        return _nonneg(b.args[0]) and _nonneg(b.args[1])
    return False


def _IntTerm(zexpr, tr):
    """Wrap a z3 Int expression as an opaque T variable so that it can be substituted into a body."""
    name = 'z3!' + str(zexpr.get_id())
    v = tm.var(name, 'I')
    tr.z3vars[(name, 'I')] = zexpr
    return v


# ------------------------------------------------------------------ query driver

class Result:
    def __init__(self, status, model=None, backend='z3', time_s=0.0, reason=''):
        self.status = status      # 'unsat' | 'sat' | 'unknown'
        self.model = model        # dict name -> python value (for sat)
        self.backend = backend
        self.time_s = time_s
        self.reason = reason
        self.smt2_head = ''

    def __repr__(self):
        return 'Result(%s, %s, %.3fs)' % (self.status, self.backend, self.time_s)


def _model_to_dict(model, tr):
    out = {}
    for (name, sort), zv in tr.z3vars.items():
        if name.startswith('z3!') or name.startswith('kq!'):
            continue
        try:
            val = model.eval(zv, model_completion=True)
            out[name] = _zval(val)
        except Exception:
            pass
    # function interpretations for sel_* (input tensors): sample through model.eval on demand
    out['__model__'] = model
    out['__tr__'] = tr
    return out


def _zval(val):
    from fractions import Fraction
    if z3.is_int_value(val):
        return val.as_long()
    if z3.is_rational_value(val):
        return Fraction(val.numerator_as_long(), val.denominator_as_long())
    if z3.is_algebraic_value(val):
        return Fraction(str(val.approx(20).as_fraction()))
    if z3.is_true(val):
        return True
    if z3.is_false(val):
        return False
    return None


def model_eval(model_dict, t):
    """Evaluate a T under a sat model (used to read input-tensor elements at concrete indices)."""
    model, tr = model_dict['__model__'], model_dict['__tr__']
    return _zval(model.eval(tr.tr(t), model_completion=True))


def check_sat(formulas, timeout_ms=20000, want_model=False, use_cvc5=True, tactic=None, big_axioms=True):
    """Satisfiability of the conjunction of T formulas (with axioms of everything mentioned).
    Not-unsat answers are retried once with the extended exp instances when the problem has any."""
    res = _check_sat(formulas, timeout_ms, want_model, use_cvc5, tactic, big_axioms, False)
    if res.status != 'unsat' and getattr(res, 'ext_possible', 0):
        res2 = _check_sat(formulas, timeout_ms, want_model, use_cvc5, tactic, big_axioms, True)
        res2.time_s += res.time_s
        if res2.status == 'unsat' or res.status != 'sat' or res2.status == 'sat':
            return res2
    return res


def _check_sat(formulas, timeout_ms, want_model, use_cvc5, tactic, big_axioms, ext_axioms):
    t0 = time.time()
    tr = Translator()
    tr.big_axioms = big_axioms
    tr.ext_axioms = ext_axioms
    zs = [tr.tr(f) for f in formulas]
    s = z3.Solver() if tactic is None else z3.Tactic(tactic).solver()
    s.set('timeout', int(timeout_ms))
    for z in zs:
        s.add(z)
    # translating axioms may create new axioms (bodies of big operators): iterate to a fixpoint
    n = 0
    while n < len(tr.axioms):
        s.add(tr.axioms[n])
        n += 1
    r = s.check()
    dt = time.time() - t0
    if r == z3.unsat:
        res = Result('unsat', None, 'z3', dt)
    elif r == z3.sat:
        res = Result('sat', _model_to_dict(s.model(), tr) if want_model else None, 'z3', dt)
    else:
        res = Result('unknown', None, 'z3', dt, reason=s.reason_unknown())
        if use_cvc5:
            r2 = _cvc5(s, timeout_ms)
            if r2 is not None:
                res = Result(r2, None, 'cvc5', time.time() - t0)
    res.ext_possible = tr.ext_possible
    try:
        head = s.to_smt2()
        res.smt2_head = head[:1500]
    except Exception:
        pass
    return res


def _cvc5(solver, timeout_ms):
    try:
        smt2 = solver.to_smt2()
    except Exception:
        return None
    smt2 = '(set-logic ALL)\n' + smt2
    with tempfile.NamedTemporaryFile('w', suffix='.smt2', delete=False) as f:
        f.write(smt2)
        path = f.name
    try:
        out = subprocess.run(['/usr/bin/cvc5', '--tlimit=%d' % int(timeout_ms), path],
                             capture_output=True, text=True, timeout=timeout_ms / 1000 + 5)
        first = out.stdout.strip().splitlines()[0] if out.stdout.strip() else ''
        if first == 'unsat':
            return 'unsat'
        # a cvc5 `sat` on a quantified / nonlinear problem is not used as a refutation here
        return None
    except Exception:
        return None
    finally:
        os.unlink(path)


def prove(hyps, goal, timeout_ms=20000, want_model=True, big_axioms=True):
    """Validity of  /\\ hyps => goal.  Returns Result with status 'unsat' (= proved), 'sat'
    (= refuted, with model) or 'unknown'."""
    return check_sat(list(hyps) + [tm.not_(goal)], timeout_ms=timeout_ms, want_model=want_model, big_axioms=big_axioms)


def prove_weak_first(hyps, goal, timeout_ms=20000):
    """First in the weaker theory where max/min binders are plain uninterpreted functions (their quantified
    witness/bound axioms make quantified loop invariants time out); a proof there is a proof.  Only `unsat` is
    taken from the weak theory - its `sat` models may be spurious - then the full theory is tried."""
    r = check_sat(list(hyps) + [tm.not_(goal)], timeout_ms=min(timeout_ms, 10000), want_model=False, big_axioms=False, use_cvc5=False)
    if r.status == 'unsat':
        r.backend = 'z3 (binders as UF)'
        return r
    return check_sat(list(hyps) + [tm.not_(goal)], timeout_ms=timeout_ms, want_model=True)
