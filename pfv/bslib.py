"""Shared machinery for the Black-Scholes closed-form contracts (C07, C08, C09, C18, C19):
running the real bs_* functions on rank-0 symbolic tensors, the open-domain hypotheses, identity
obligations (zero test + numeric witness search + replay on the real code)."""
import random
import time
from fractions import Fraction

import mpmath as mp

from . import terms as tm
from . import diff as D
from . import sym
from . import evalc
from . import smt
from .framework import Obligation, Verdict, real_exec
from .proxies import explore, SReal, Unsupported

x, t, v, K, m = [tm.var(n) for n in ('x', 't', 'v', 'K', 'm')]
OPEN = [tm.gt(t, tm.ZERO), tm.gt(v, tm.ZERO), tm.gt(K, tm.ZERO)]
VARMAP = {'x': ('real',), 't': ('square_of', 'r'), 'v': ('pos',), 'K': ('pos',), 'm': ('real',)}
S = tm.mul(K, tm.app('exp', x))

_cache = {}


def _torch():
    import torch
    return torch


def run_real(fn, kwargs_builder, hyps, allow_paths=1):
    """Run a real function on fresh symbolic inputs; returns list of paths."""
    def run(c):
        return fn(**kwargs_builder())
    return explore(run, hyps)


def std_inputs(with_m=False, strike=True, call=None, extra=None):
    from .torchlib.tensor import Tensor
    torch = _torch()

    def build():
        kw = dict(log_moneyness=Tensor.input('x', (), torch.float64),
                  time_to_maturity=Tensor.input('t', (), torch.float64),
                  volatility=Tensor.input('v', (), torch.float64))
        if with_m:
            kw['max_log_moneyness'] = Tensor.input('m', (), torch.float64)
        if strike:
            kw['strike'] = SReal(K)
        if call is not None:
            kw['call'] = call
        if extra:
            kw.update(extra)
        return kw
    return build


def bs_term(fname, hyps, with_m=False, strike=True, call=None):
    """Element term of pfhedge.nn.functional.<fname> on the symbols (x, t, v, K, m) under hyps.
    Requires a single returning path; returns (term, path)."""
    key = (fname, tuple(h.uid for h in hyps), with_m, strike, call, tm.KEEP_ZERO_FACTOR)
    if key in _cache:
        return _cache[key]
    import pfhedge.nn.functional as F
    fn = getattr(F, fname)
    paths = run_real(fn, std_inputs(with_m, strike, call), hyps)
    rets = [p for p in paths if p.outcome() == 'returns']
    if len(paths) != 1 or len(rets) != 1:
        raise Unsupported('%s: expected one returning path under the hypotheses, got %s' % (
            fname, [(p.outcome(), str(p.exception)[:100]) for p in paths]))
    from .torchlib.tensor import inline_leaves
    term = inline_leaves(rets[0].result.at(()), rets[0].ctx)
    _cache[key] = (term, rets[0])
    return term, rets[0]


# ------------------------------------------------------------------ numeric domain sampling

def sample_points(n, seed, with_m=False, m_sign=None, box=None):
    rnd = random.Random(seed)
    pts = []
    for _ in range(n):
        p = {'x': Fraction(rnd.randint(-1000, 1000), 1000), 't': Fraction(rnd.randint(1, 5000), 1000),
             'v': Fraction(rnd.randint(1, 2000), 1000), 'K': Fraction(rnd.randint(101, 10000), 1000)}
        if box == 'small':
            p['x'] = Fraction(rnd.randint(-300, 300), 1000)
            p['t'] = Fraction(rnd.randint(50, 2000), 1000)
            p['v'] = Fraction(rnd.randint(50, 800), 1000)
        if with_m:
            if m_sign == 'neg':
                # x <= m < 0
                p['x'] = -abs(p['x']) - Fraction(1, 1000)
                p['m'] = p['x'] * Fraction(rnd.randint(0, 999), 1000)
                if p['m'] >= 0:
                    p['m'] = p['x'] / 2
            elif m_sign == 'pos':
                p['m'] = max(p['x'], Fraction(0)) + Fraction(rnd.randint(0, 500), 1000)
            else:
                p['m'] = p['x'] + Fraction(rnd.randint(0, 500), 1000)
        pts.append(p)
    return pts


def eval_at(term, pt, funcs=None):
    return evalc.evaluate(term, {k: val for k, val in pt.items()}, funcs)


def find_witness(lhs, rhs, pts, rel=1e-7):
    """first point at which lhs and rhs disagree beyond tolerance (50-digit arithmetic)."""
    best = None
    for p in pts:
        try:
            a, b = eval_at(lhs, p), eval_at(rhs, p)
        except evalc.Undefined:
            continue
        err = abs(a - b)
        scale = max(abs(a), abs(b), mp.mpf(1e-12))
        if err > rel * max(scale, 1e-6):
            r = float(err / scale)
            if best is None or r > best[0]:
                best = (r, p, float(a), float(b))
    return best


def pt_json(p):
    return {k: float(val) for k, val in p.items()}


# ------------------------------------------------------------------ identity obligations

def _points_for(hyps, n, seed, with_m, m_sign):
    """domain points satisfying hyps: random candidates filtered by the hypotheses, with variables
    pinned by equality hypotheses (`m == 0`) set exactly."""
    pins = {}
    for h in hyps:
        if h.op == 'eq' and h.args[0].op == 'var' and h.args[1].op == 'const':
            pins[h.args[0].args[0]] = Fraction(h.args[1].args[0])
        if h.op == 'eq' and h.args[1].op == 'var' and h.args[0].op == 'const':
            pins[h.args[1].args[0]] = Fraction(h.args[0].args[0])
    out = []
    for sgn in ([m_sign] if m_sign else [None, 'neg', 'pos']):
        for p in sample_points(n * 3, seed, with_m, sgn):
            p.update(pins)
            try:
                if all(evalc.evaluate(h, p) for h in hyps):
                    out.append(p)
            except (evalc.Undefined, KeyError):
                continue
            if len(out) >= n:
                return out
    if out:
        return out
    # measure-zero regions (e.g. m >= 0 and not m > 0): pin variables to the constants they are compared with
    cands = set()
    for h in hyps:
        for u in tm.subterms(h):
            if u.op in ('lt', 'le', 'eq'):
                a, b = u.args
                if a.op == 'var' and b.op == 'const':
                    cands.add((a.args[0], Fraction(b.args[0])))
                if b.op == 'var' and a.op == 'const':
                    cands.add((b.args[0], Fraction(a.args[0])))
    for (vn, cv) in sorted(cands):
        for sgn in (None, 'neg', 'pos'):
            for p in sample_points(n * 2, seed + 5, with_m, sgn):
                p.update(pins)
                p[vn] = cv
                try:
                    if all(evalc.evaluate(h, p) for h in hyps):
                        out.append(p)
                except (evalc.Undefined, KeyError):
                    continue
                if len(out) >= n:
                    return out
    if out:
        return out
    # measure-zero surfaces inside the domain (e.g. d2 == 0): pin t, v, K to exact values with a rational sqrt and let the solver find x (, m)
    from . import smt
    for t0 in (Fraction(1), Fraction(1, 4), Fraction(4)):
        for v0 in (Fraction(1, 2), Fraction(1, 5), Fraction(1)):
            for K0 in (Fraction(1), Fraction(13, 10)):
                pin = [tm.eq(t, tm.const(t0)), tm.eq(v, tm.const(v0)), tm.eq(K, tm.const(K0))]
                try:
                    r = smt.check_sat(list(hyps) + pin, timeout_ms=5000, want_model=True, use_cvc5=False)
                except Exception:
                    continue
                if r.status != 'sat' or not r.model:
                    continue
                p = {'t': t0, 'v': v0, 'K': K0}
                ok = True
                for nm_ in (('x', 'm') if with_m else ('x',)):
                    val = r.model.get(nm_)
                    if not isinstance(val, Fraction) and not isinstance(val, int):
                        ok = False
                        break
                    p[nm_] = Fraction(val)
                p.update(pins)
                try:
                    if ok and all(evalc.evaluate(h, p) for h in hyps):
                        out.append(p)
                except (evalc.Undefined, KeyError):
                    pass
                if len(out) >= n:
                    return out
    return out


def identity_ob(oid, function, props, lhs_fn, rhs_fn, hyps, clause, seed=0, with_m=False, m_sign=None,
                replay_snippet=None, kind='post', deciding=True, n_points=48):
    """lhs_fn/rhs_fn: () -> T (built lazily inside the worker).  Proves lhs == rhs on the domain
    described by hyps via the exp/ncdf zero test (splitting on conditions the hypotheses leave open);
    on failure searches a numeric witness and replays it."""

    def decide(lhs, rhs, hy, depth, trail):
        res = sym.zero_test(tm.sub(lhs, rhs), hy, VARMAP)
        if res['status'] == 'unknown' and res.get('split_on') is not None and depth < 4:
            c = res['split_on']
            outs = []
            for br in (c, tm.not_(c)):
                if smt.check_sat(hy + [br], timeout_ms=3000, use_cvc5=False).status == 'unsat':
                    continue     # infeasible branch
                outs.append(decide(lhs, rhs, hy + [br], depth + 1, trail + [tm.show(br)]))
            for o in outs:
                if o[0] != 'proved':
                    return o
            return ('proved', hy, {'status': 'proved', 'groups': sum([o[2].get('groups', []) for o in outs], []), 'z3': 'unsat',
                                   'n_atoms': max([o[2].get('n_atoms', 0) for o in outs] + [0]), 'case_split': trail + ['both branches']})
        return (res['status'], hy, res)

    def check():
        t0 = time.time()
        lhs, rhs = lhs_fn(), rhs_fn()
        status, hy, res = decide(lhs, rhs, list(hyps), 0, [])
        sample = {'claim': clause, 'hypotheses': [tm.show(h) for h in hy],
                  'lhs_from_code': tm.show(sym.simplify_under(lhs, hy))[:600], 'zero_test': {k: res[k] for k in res if k in ('status', 'z3', 'n_atoms', 'case_split')},
                  'exponent_groups': res.get('groups', [])[:4]}
        if status == 'proved':
            # numeric re-validation of generator (sympy/diff) at domain points: guards against a wrong rewrite
            pts = _points_for(hyps, 8, seed + 17, with_m, m_sign)
            bad = find_witness(lhs, rhs, pts, rel=1e-20)
            if bad is not None:
                return Verdict('unknown', 'sympy+z3', time.time() - t0, 'zero test passed but numeric re-validation failed at %s' % (pt_json(bad[1]),), sample=sample)
            return Verdict('proved', 'sympy+z3(QF_NRA)', time.time() - t0, 'identically zero: %d exponent group(s)' % len(res.get('groups', [])), sample=sample)
        pts = _points_for(hy, n_points, seed, with_m, m_sign)
        w = find_witness(lhs, rhs, pts)
        if w is None:
            return Verdict('unknown', 'sympy+z3', time.time() - t0, 'zero test: %s (%s); no numeric witness among %d points' % (res['status'], res.get('detail', ''), len(pts)), sample=sample)
        relerr, p, a, b = w
        witness = {'point': pt_json(p), 'code_value': a, 'spec_value': b, 'rel_err': relerr}
        replay = None
        if replay_snippet:
            r = real_exec(replay_snippet, pt_json(p))
            replay = {'real': r}
            if r.get('ok') and isinstance(r['result'], dict):
                got, ref = r['result'].get('got'), r['result'].get('ref')
                try:
                    bad = (got != got) or abs(got - ref) > 1e-6 * max(abs(got), abs(ref), 1e-6)
                except TypeError:
                    bad = True
                replay['confirmed'] = bool(bad)
            else:
                replay['confirmed'] = False
        return Verdict('refuted', 'sympy+mpmath', time.time() - t0,
                       'non-zero residual; e.g. at %s code=%.10g spec=%.10g' % (pt_json(p), a, b),
                       witness=witness, sample=sample, replay=replay)
    return Obligation(oid, kind, function, check, props, deciding=deciding, clause=clause)


def smt_ob(oid, function, props, hyps_fn, goal_fn, clause, kind='lemma', deciding=True, timeout_ms=20000,
           witness_vars=None, replay=None):
    """Obligation  /\\ hyps => goal  discharged by z3 (cvc5 on unknown)."""

    def check():
        hyps, goal = hyps_fn(), goal_fn()
        r = smt.prove(hyps, goal, timeout_ms=timeout_ms)
        sample = {'claim': clause, 'hypotheses': [tm.show(h)[:200] for h in hyps][:8], 'goal': tm.show(goal)[:600], 'smt2_head': r.smt2_head[:600]}
        if r.status == 'unsat':
            return Verdict('proved', r.backend, r.time_s, '', sample=sample)
        if r.status == 'sat':
            wit = {}
            if r.model:
                for k, val in r.model.items():
                    if k.startswith('__'):
                        continue
                    wit[k] = str(val)
            rp = replay(r.model) if replay else None
            return Verdict('refuted', r.backend, r.time_s, 'counter-model', witness=wit, sample=sample, replay=rp)
        return Verdict('unknown', r.backend, r.time_s, r.reason, sample=sample)
    return Obligation(oid, kind, function, check, props, deciding=deciding, clause=clause)
