"""Term language of the pfv verifier.

Scalar terms over mathematical reals / integers / booleans, hash-consed.  A term is produced
by running the real pfhedge code on symbolic proxies (see proxies.py / torchlib); it is then
translated to z3 (smt.py), to sympy (sym.py) or evaluated concretely (evalc.py).

Sorts: 'R' real, 'I' integer, 'B' boolean.

Ops
  const(v)                 v: Fraction | int | bool
  var(name)                free variable
  add(a, b, ...) mul(a, b, ...) neg(a) div(a, b) pow(a, e)   (e: term; integer constants fold)
  ite(c, a, b) lt(a,b) le(a,b) eq(a,b) and(..) or(..) not(a)
  abs(a) max(a,b) min(a,b) floor(a) ceil(a) toreal(a) mod(a,b) idiv(a,b)
  app(fname, args...)      special / uninterpreted function (exp log sqrt ncdf npdf cos sin cbrt ...)
  sel(name, idx...)        element of a named input tensor (uninterpreted array read)
  sum(bv, lo, hi, body)    Sigma_{lo <= bv < hi} body   (bv: a var term of sort I)
  bmax(bv, lo, hi, body) / bmin(...)   max / min over lo <= bv < hi (range assumed non-empty: obligation)
  bag(bv, lo, hi, body)    the multiset { body : lo <= bv < hi } (argument of order statistics `ostat_*`)
  forall(bv, lo, hi, body) for all lo <= bv < hi: body   (sort B)
"""
from fractions import Fraction
import itertools

_TABLE = {}
BINDERS = ('sum', 'bmax', 'bmin', 'bag', 'forall', 'prod')
_COUNTER = itertools.count()


class T:
    __slots__ = ('op', 'args', 'sort', '_hash', 'uid')

    def __new__(cls, op, args, sort):
        key = (op, args, sort)
        t = _TABLE.get(key)
        if t is None:
            t = object.__new__(cls)
            t.op = op
            t.args = args
            t.sort = sort
            t._hash = hash(key)
            t.uid = next(_COUNTER)
            _TABLE[key] = t
        return t

    def __hash__(self):
        return self._hash

    def __eq__(self, other):
        return self is other

    def __ne__(self, other):
        return self is not other

    def __repr__(self):
        return show(self)

    def __bool__(self):
        raise TypeError('raw term used as a Python bool; wrap it in a proxy')

    def is_const(self):
        return self.op == 'const'

    @property
    def value(self):
        assert self.op == 'const'
        return self.args[0]


def show(t, depth=0):
    if depth > 12:
        return '...'
    if t.op == 'const':
        v = t.args[0]
        return str(v)
    if t.op == 'var':
        return t.args[0]
    if t.op in ('sel', 'app'):
        return t.args[0] + '(' + ', '.join(show(a, depth + 1) for a in t.args[1:]) + ')'
    if t.op in BINDERS:
        bv, lo, hi, body = t.args
        return '%s[%s in %s..%s](%s)' % (t.op, show(bv), show(lo, depth + 1), show(hi, depth + 1), show(body, depth + 1))
    sym = {'add': ' + ', 'mul': '*', 'lt': ' < ', 'le': ' <= ', 'eq': ' == ', 'and': ' & ', 'or': ' | ', 'div': '/', 'pow': '**'}
    if t.op in sym:
        return '(' + sym[t.op].join(show(a, depth + 1) for a in t.args) + ')'
    return t.op + '(' + ', '.join(show(a, depth + 1) for a in t.args) + ')'


# ------------------------------------------------------------------ constructors

def const(v, sort=None):
    if hasattr(v, '_term'):          # a symbolic proxy (SInt subclasses int): never a constant
        return v._term
    if isinstance(v, bool):
        return T('const', (v,), 'B')
    if isinstance(v, int):
        return T('const', (v,), sort or 'I') if (sort or 'I') == 'I' else T('const', (Fraction(v),), 'R')
    if isinstance(v, float):
        if v != v or v in (float('inf'), float('-inf')):
            raise ValueError('non-finite constant in a real-valued term: %r' % v)
        return T('const', (Fraction(v),), 'R')
    if isinstance(v, Fraction):
        if sort == 'I':
            assert v.denominator == 1
            return T('const', (int(v),), 'I')
        return T('const', (v,), 'R')
    raise TypeError(v)


TRUE = T('const', (True,), 'B')
FALSE = T('const', (False,), 'B')
ZERO = const(0, 'R')
ONE = const(1, 'R')
IZERO = const(0, 'I')
IONE = const(1, 'I')


def _uid(t):
    return t.uid


def var(name, sort='R'):
    return T('var', (name,), sort)


_fresh = itertools.count()


def fresh(prefix, sort='R'):
    return var('%s!%d' % (prefix, next(_fresh)), sort)


def as_term(x, sort=None):
    """Lift python numbers; pass terms through."""
    if isinstance(x, T):
        return x
    if hasattr(x, '_term'):
        return x._term
    if isinstance(x, bool):
        return const(x)
    if isinstance(x, int):
        return const(x, sort or 'I')
    if isinstance(x, (float, Fraction)):
        return const(x, 'R')
    raise TypeError('cannot lift %r to a term' % (x,))


def toreal(a):
    if a.sort == 'R':
        return a
    assert a.sort == 'I', a
    if a.op == 'const':
        return T('const', (Fraction(a.args[0]),), 'R')
    return T('toreal', (a,), 'R')


def _unify(a, b):
    """Numeric sort unification: I op I -> I, otherwise R."""
    if a.sort == b.sort:
        return a, b
    if a.sort == 'B' or b.sort == 'B':
        raise TypeError('boolean in arithmetic: %s %s' % (a, b))
    return toreal(a), toreal(b)


def add(*xs):
    xs = [as_term(x) for x in xs]
    sort = 'R' if any(x.sort == 'R' for x in xs) else 'I'
    flat = []
    c = Fraction(0)
    for x in xs:
        if sort == 'R':
            x = toreal(x)
        if x.op == 'add':
            ys = x.args
        else:
            ys = (x,)
        for y in ys:
            if y.op == 'const':
                c += y.args[0]
            else:
                flat.append(y)
    # cancel syntactic x + (-x)
    out = []
    negs = {}
    for y in flat:
        out.append(y)
    out.sort(key=_uid)              # commutative: canonical argument order
    if c != 0 or not out:
        out.append(const(c, sort) if sort == 'R' else const(int(c), 'I'))
    if len(out) == 1:
        return out[0]
    return T('add', tuple(out), sort)


def neg(a):
    a = as_term(a)
    if a.op == 'const':
        return const(-a.args[0], a.sort)
    if a.op == 'neg':
        return a.args[0]
    if a.op == 'add':
        return add(*[neg(x) for x in a.args])
    if a.op == 'mul' and any(f.op == 'add' for f in a.args):
        fl = list(a.args)
        for k_, f in enumerate(fl):
            if f.op == 'add':
                fl[k_] = neg(f)
                break
        return mul(*fl)
    if a.op == 'div' and a.args[0].op == 'neg':
        return div(a.args[0].args[0], a.args[1])
    return T('neg', (a,), a.sort)


def sub(a, b):
    return add(a, neg(as_term(b)))


KEEP_ZERO_FACTOR = False      # see mul(): set only while building terms for an extended-real (totality) analysis


def mul(*xs):
    xs = [as_term(x) for x in xs]
    sort = 'R' if any(x.sort == 'R' for x in xs) else 'I'
    flat = []
    c = Fraction(1)
    sign = 1
    for x in xs:
        if sort == 'R':
            x = toreal(x)
        ys = x.args if x.op == 'mul' else (x,)
        for y in ys:
            if y.op == 'neg':
                sign = -sign
                y = y.args[0]
                if y.op == 'mul':
                    for z in y.args:
                        if z.op == 'const':
                            c *= z.args[0]
                        else:
                            flat.append(z)
                    continue
            if y.op == 'const':
                c *= y.args[0]
            else:
                flat.append(y)
    c *= sign
    if c == 0:
        if KEEP_ZERO_FACTOR and flat and sort == 'R':
            # extended-real analyses (C18): 0 * x is NOT 0 when x may be infinite (IEEE: 0 * inf = nan); keep the product
            flat.sort(key=_uid)
            return T('mul', (const(0, sort),) + tuple(flat), sort)
        return const(0, sort)
    if c < 0:
        # canonical sign: a negative coefficient is pushed into the first sum factor, -a*(x - y) == a*(y - x)
        for k_, y in enumerate(flat):
            if y.op == 'add':
                flat[k_] = neg(y)
                c = -c
                break
    out = []
    if c != 1:
        if c == -1 and flat:
            flat.sort(key=_uid)
            inner = flat[0] if len(flat) == 1 else T('mul', tuple(flat), sort)
            return T('neg', (inner,), sort)
        out.append(const(c, sort) if sort == 'R' else const(int(c), 'I'))
    # x*x -> x**2 (canonical form shared with Tensor.square())
    if len(flat) > 1:
        cnt = {}
        order = []
        for y in flat:
            if y not in cnt:
                cnt[y] = 0
                order.append(y)
            cnt[y] += 1
        if any(n > 1 for n in cnt.values()):
            flat = [y if cnt[y] == 1 else powt(y, const(cnt[y], 'I')) for y in order]
    flat.sort(key=_uid)
    out.extend(flat)
    if not out:
        return const(1, sort)
    if len(out) == 1:
        return out[0]
    return T('mul', tuple(out), sort)


def div(a, b):
    a, b = toreal(as_term(a)), toreal(as_term(b))
    if b.op == 'const' and b.args[0] != 0:
        return mul(a, const(1 / b.args[0], 'R'))
    if a.op == 'neg':
        return neg(div(a.args[0], b))
    return T('div', (a, b), 'R')


def powt(a, e):
    a, e = as_term(a), as_term(e)
    if e.op == 'const':
        ev = e.args[0]
        if ev == int(ev):
            n = int(ev)
            if n == 0:
                return const(1, a.sort)
            if n == 1:
                return a
            if a.op == 'const':
                if n > 0:
                    return const(a.args[0] ** n, a.sort)
                if a.args[0] != 0:
                    return const(Fraction(1) / (Fraction(a.args[0]) ** (-n)), 'R')
            if 0 < n <= 8:
                return T('pow', (a, const(n, 'I')), a.sort)
            if -8 <= n < 0:
                return div(ONE, T('pow', (toreal(a), const(-n, 'I')), 'R'))
        # A1: the float literals 0.5 and 1/3 denote the reals 1/2 and 1/3
        if ev == Fraction(1, 2):
            return app('sqrt', toreal(a))
        if ev == Fraction(1, 3) or ev == Fraction(1 / 3):
            return app('cbrt', toreal(a))
    return T('pow', (toreal(a), toreal(e)), 'R')


def app(fname, *args, sort='R'):
    args = tuple(as_term(a) for a in args)
    if fname in ('ostat_bot', 'ostat_top') and len(args) == 2 and args[1].op == 'bag' and args[1].args[0] not in free_vars(args[1].args[3]):
        return args[1].args[3]      # order statistics of a constant multiset
    if fname == 'stopgrad':
        a0 = args[0]
        if a0.op == 'const' or (a0.op == 'app' and a0.args[0] == 'stopgrad'):
            return a0
        return T('app', ('stopgrad', a0), a0.sort)
    if fname == 'exp' and len(args) == 1 and args[0].op == 'app' and args[0].args[0] == 'log' and args[0].args[1].op == 'app' and args[0].args[1].args[0] in ('npdf', 'exp'):
        return args[0].args[1]          # exp(log(npdf(u))) = npdf(u): the argument is positive
    if fname in ('exp', 'log', 'sqrt', 'ncdf', 'npdf', 'cos', 'sin', 'cbrt') and len(args) == 1:
        a = toreal(args[0])
        if a.op == 'const':
            v = a.args[0]
            if fname == 'exp' and v == 0:
                return ONE
            if fname == 'log' and v == 1:
                return ZERO
            if fname in ('sqrt', 'cbrt') and v in (0, 1):
                return a
            if fname == 'cos' and v == 0:
                return ONE
            if fname == 'sin' and v == 0:
                return ZERO
            if fname == 'ncdf' and v == 0:
                return const(Fraction(1, 2))
        args = (a,)
    return T('app', (fname,) + args, sort)


def sel(name, *idx, sort='R'):
    return T('sel', (name,) + tuple(as_term(i) for i in idx), sort)


def ite(c, a, b):
    c = as_term(c)
    a, b = as_term(a), as_term(b)
    if a.sort != b.sort:
        if a.sort == 'B' or b.sort == 'B':
            raise TypeError('ite branch sorts')
        a, b = toreal(a), toreal(b)
    if c is TRUE:
        return a
    if c is FALSE:
        return b
    if a is b:
        return a
    if a.sort == 'B':
        return or_(and_(c, a), and_(not_(c), b))
    return T('ite', (c, a, b), a.sort)


def _cmp(op, a, b):
    a, b = _unify(as_term(a), as_term(b))
    if a.op == 'const' and b.op == 'const':
        x, y = a.args[0], b.args[0]
        return const({'lt': x < y, 'le': x <= y, 'eq': x == y}[op])
    if a is b:
        return const(op != 'lt')
    return T(op, (a, b), 'B')


def lt(a, b):
    return _cmp('lt', a, b)


def le(a, b):
    return _cmp('le', a, b)


def gt(a, b):
    return _cmp('lt', b, a)


def ge(a, b):
    return _cmp('le', b, a)


def eq(a, b):
    a, b = as_term(a), as_term(b)
    if a.sort == 'B' and b.sort == 'B':
        if a is b:
            return TRUE
        return or_(and_(a, b), and_(not_(a), not_(b)))
    return _cmp('eq', a, b)


def ne(a, b):
    return not_(eq(a, b))


def and_(*xs):
    out = []
    for x in xs:
        x = as_term(x)
        assert x.sort == 'B', x
        if x is FALSE:
            return FALSE
        if x is TRUE:
            continue
        if x.op == 'and':
            out.extend(x.args)
        else:
            out.append(x)
    seen = []
    for x in out:
        if x not in seen:
            seen.append(x)
    if not seen:
        return TRUE
    if len(seen) == 1:
        return seen[0]
    return T('and', tuple(seen), 'B')


def or_(*xs):
    out = []
    for x in xs:
        x = as_term(x)
        assert x.sort == 'B', x
        if x is TRUE:
            return TRUE
        if x is FALSE:
            continue
        if x.op == 'or':
            out.extend(x.args)
        else:
            out.append(x)
    seen = []
    for x in out:
        if x not in seen:
            seen.append(x)
    if not seen:
        return FALSE
    if len(seen) == 1:
        return seen[0]
    return T('or', tuple(seen), 'B')


def not_(a):
    a = as_term(a)
    assert a.sort == 'B', a
    if a is TRUE:
        return FALSE
    if a is FALSE:
        return TRUE
    if a.op == 'not':
        return a.args[0]
    return T('not', (a,), 'B')


def implies(a, b):
    return or_(not_(a), b)


def tabs(a):
    a = as_term(a)
    if a.op == 'const':
        return const(abs(a.args[0]), a.sort)
    if a.op == 'abs':
        return a
    return T('abs', (a,), a.sort)


def tmax(a, b):
    a, b = _unify(as_term(a), as_term(b))
    if a.op == 'const' and b.op == 'const':
        return a if a.args[0] >= b.args[0] else b
    if a is b:
        return a
    return T('max', (a, b), a.sort)


def tmin(a, b):
    a, b = _unify(as_term(a), as_term(b))
    if a.op == 'const' and b.op == 'const':
        return a if a.args[0] <= b.args[0] else b
    if a is b:
        return a
    return T('min', (a, b), a.sort)


def floor(a):
    a = as_term(a)
    if a.sort == 'I':
        return a
    if a.op == 'const':
        v = a.args[0]
        return const(v.numerator // v.denominator, 'I')
    if a.op == 'toreal':
        return a.args[0]
    return T('floor', (a,), 'I')


def ceil(a):
    a = as_term(a)
    if a.sort == 'I':
        return a
    if a.op == 'const':
        v = a.args[0]
        return const(-((-v.numerator) // v.denominator), 'I')
    if a.op == 'toreal':
        return a.args[0]
    return neg(floor(neg(a)))


def mod(a, b):
    a, b = as_term(a), as_term(b)
    assert a.sort == 'I' and b.sort == 'I'
    if a.op == 'const' and b.op == 'const' and b.args[0] != 0:
        return const(a.args[0] % b.args[0], 'I')
    return T('mod', (a, b), 'I')


def idiv(a, b):
    a, b = as_term(a), as_term(b)
    assert a.sort == 'I' and b.sort == 'I'
    if a.op == 'const' and b.op == 'const' and b.args[0] != 0:
        return const(a.args[0] // b.args[0], 'I')
    return T('idiv', (a, b), 'I')


def big(op, bv, lo, hi, body):
    """sum / bmax / bmin with bound variable bv (a var term of sort I) over lo <= bv < hi."""
    lo, hi, body = as_term(lo), as_term(hi), as_term(body)
    assert bv.op == 'var' and bv.sort == 'I'
    assert lo.sort == 'I' and hi.sort == 'I'
    if op == 'forall':
        if body is TRUE:
            return TRUE
        if lo.op == 'const' and hi.op == 'const' and hi.args[0] - lo.args[0] <= 4:
            return and_(*[subst(body, {bv: const(lo.args[0] + k, 'I')}) for k in range(_max0(hi.args[0] - lo.args[0]))])
    if op == 'prod':
        if body.op == 'const' and body.args[0] == 1:
            return body
        if lo.op == 'const' and hi.op == 'const' and 0 <= hi.args[0] - lo.args[0] <= 4:
            items = [subst(body, {bv: const(lo.args[0] + k, 'I')}) for k in range(hi.args[0] - lo.args[0])]
            return mul(*items) if items else const(1, body.sort)
    if lo.op == 'const' and hi.op == 'const' and op in ('sum', 'bmax', 'bmin'):
        n = hi.args[0] - lo.args[0]
        if 0 <= n <= 4:
            items = [subst(body, {bv: const(lo.args[0] + k, 'I')}) for k in range(n)]
            if op == 'sum':
                return add(*items) if items else const(0, body.sort)
            if items:
                acc = items[0]
                for it in items[1:]:
                    acc = tmax(acc, it) if op == 'bmax' else tmin(acc, it)
                return acc
    if hi is add(lo, IONE) and op in ('sum', 'bmax', 'bmin', 'forall', 'prod'):
        return subst(body, {bv: lo})
    if op == 'sum' and body.op == 'const' and body.args[0] == 0:
        return body
    if op == 'sum' and body.op == 'neg':
        return neg(big('sum', bv, lo, hi, body.args[0]))          # linearity
    if op == 'sum' and body.op == 'mul' and body.args[0].op == 'const':
        return mul(body.args[0], big('sum', bv, lo, hi, mul(*body.args[1:])))
    if op == 'sum' and bv not in free_vars(body):
        # a constant summand: (number of terms) * body
        cnt = tmax(sub(hi, lo), IZERO)
        return mul(toreal(cnt), body) if body.sort == 'R' else mul(cnt, body)
    if op in ('bmax', 'bmin') and bv not in free_vars(body):
        return body          # (range non-empty: a separate obligation)
    # canonical bound-variable name: depends on the body so alpha-equivalent terms coincide
    canon = var('k#%d' % _depth(body), 'I')
    if canon is not bv:
        body = subst(body, {bv: canon})
        bv = canon
    return T(op, (bv, lo, hi, body), 'B' if op == 'forall' else body.sort)


def _max0(n):
    return n if n > 0 else 0


def forall(bv, lo, hi, body):
    return big('forall', bv, lo, hi, body)


def _depth(t):
    """Nesting depth of big operators in t (for canonical bound-variable names)."""
    d = _depth_cache.get(t)
    if d is not None:
        return d
    if t.op in BINDERS:
        d = max(_depth(t.args[1]), _depth(t.args[2]), _depth(t.args[3]) + 1)
    elif t.op in ('const', 'var'):
        d = 0
    else:
        d = 0
        for a in t.args:
            if isinstance(a, T):
                d = max(d, _depth(a))
    _depth_cache[t] = d
    return d


_depth_cache = {}


def tsum(bv, lo, hi, body):
    return big('sum', bv, lo, hi, body)


# ------------------------------------------------------------------ traversal

def subst(t, m):
    """Capture-avoiding enough for our use: bound variables are canonical 'k#d' names and the
    substituted terms never contain a bound variable of an inner binder of t (callers substitute
    free index variables only, or instantiate a binder's own variable)."""
    if not m:
        return t
    cache = {}

    def go(u):
        r = cache.get(u)
        if r is not None:
            return r
        if u in m:
            r = m[u]
        elif u.op in ('const', 'var'):
            r = u
        elif u.op in BINDERS:
            bv, lo, hi, body = u.args
            m2 = m
            if bv in m:
                m2 = {k: v for k, v in m.items() if k is not bv}
            # rename to avoid capture if a substituted value mentions bv
            clash = any(bv in free_vars(v) for v in m2.values())
            if clash:
                nb = fresh('kb', 'I')
                body = subst(body, {bv: nb})
                bv = nb
            nb_body = subst(body, m2) if m2 is not m else go(body)
            r = big(u.op, bv, go(lo), go(hi), nb_body)
        else:
            r = rebuild(u, [go(a) if isinstance(a, T) else a for a in u.args])
        cache[u] = r
        return r
    return go(t)


def rebuild(u, args):
    op = u.op
    if op == 'add':
        return add(*args)
    if op == 'mul':
        return mul(*args)
    if op == 'neg':
        return neg(args[0])
    if op == 'div':
        return div(*args)
    if op == 'pow':
        return powt(*args)
    if op == 'ite':
        return ite(*args)
    if op == 'lt':
        return lt(*args)
    if op == 'le':
        return le(*args)
    if op == 'eq':
        return eq(*args)
    if op == 'and':
        return and_(*args)
    if op == 'or':
        return or_(*args)
    if op == 'not':
        return not_(args[0])
    if op == 'abs':
        return tabs(args[0])
    if op == 'max':
        return tmax(*args)
    if op == 'min':
        return tmin(*args)
    if op == 'floor':
        return floor(args[0])
    if op == 'toreal':
        return toreal(args[0])
    if op == 'mod':
        return mod(*args)
    if op == 'idiv':
        return idiv(*args)
    if op == 'app':
        return app(args[0], *args[1:], sort=u.sort)
    if op == 'sel':
        return sel(args[0], *args[1:], sort=u.sort)
    raise ValueError(op)


_fv_cache = {}


def free_vars(t):
    r = _fv_cache.get(t)
    if r is not None:
        return r
    if t.op == 'var':
        r = frozenset([t])
    elif t.op == 'const':
        r = frozenset()
    elif t.op in BINDERS:
        bv, lo, hi, body = t.args
        r = free_vars(lo) | free_vars(hi) | (free_vars(body) - {bv})
    else:
        r = frozenset()
        for a in t.args:
            if isinstance(a, T):
                r = r | free_vars(a)
    _fv_cache[t] = r
    return r


def subterms(t, into_binders=True):
    seen = set()
    stack = [t]
    while stack:
        u = stack.pop()
        if u in seen:
            continue
        seen.add(u)
        yield u
        if u.op in BINDERS and not into_binders:
            stack.extend([u.args[1], u.args[2]])
            continue
        for a in u.args:
            if isinstance(a, T):
                stack.append(a)


def accesses(t, guard=TRUE):
    """Guard-aware collection of input accesses: yields (guard, sel-term).  Accesses inside a
    big operator carry the binder range as guard; inside an ite branch the branch condition."""
    out = []

    def go(u, g):
        if u.op == 'sel':
            out.append((g, u))
            for a in u.args[1:]:
                go(a, g)
        elif u.op == 'ite':
            c, a, b = u.args
            go(c, g)
            go(a, and_(g, c))
            go(b, and_(g, not_(c)))
        elif u.op in BINDERS:
            bv, lo, hi, body = u.args
            go(lo, g)
            go(hi, g)
            nb = fresh('q', 'I')
            go(subst(body, {bv: nb}), and_(g, le(lo, nb), lt(nb, hi)))
        elif u.op in ('const', 'var'):
            return
        elif u.op == 'and':
            # short-circuit is not semantic for total terms; treat all conjuncts under g
            for a in u.args:
                go(a, g)
        else:
            for a in u.args:
                if isinstance(a, T):
                    go(a, g)
    go(t, guard)
    return out


def size(t):
    return sum(1 for _ in subterms(t))


def partial_ops(t, guard=TRUE):
    """Guard-aware collection of the definedness conditions of the partial operations in t:
    yields (guard, kind, condition).  A condition inside an ite branch carries the branch condition,
    inside a binder the range - so the unselected branch of a `where` may be undefined."""
    out = []
    seen = set()

    def go(u, g):
        key = (u, g)
        if key in seen:
            return
        seen.add(key)
        op = u.op
        if op in ('const', 'var'):
            return
        if op == 'ite':
            c, a, b = u.args
            go(c, g)
            go(a, and_(g, c))
            go(b, and_(g, not_(c)))
            return
        if op in BINDERS:
            bv, lo, hi, body = u.args
            go(lo, g)
            go(hi, g)
            nb = fresh('q', 'I')
            go(subst(body, {bv: nb}), and_(g, le(lo, nb), lt(nb, hi)))
            return
        if op == 'div':
            out.append((g, 'division', ne(u.args[1], const(0, u.args[1].sort))))
        elif op == 'app' and u.args[0] == 'sqrt':
            out.append((g, 'sqrt', ge(u.args[1], ZERO)))
        elif op == 'app' and u.args[0] == 'log':
            out.append((g, 'log', gt(u.args[1], ZERO)))
        elif op == 'pow' and not (u.args[1].op == 'const' and u.args[1].sort == 'I'):
            out.append((g, 'power', ge(toreal(u.args[0]), ZERO)))
        for a in u.args:
            if isinstance(a, T):
                go(a, g)
    go(t, guard)
    return out
