"""./check entry point."""
import importlib
import json
import os
import sys
import time


def main(argv):
    if not argv:
        print('usage: check <Cxx> [quick|thorough] | check --replay <file>')
        return 3
    if argv[0] == '--replay':
        from . import replay
        return replay.main(argv[1])
    prop = argv[0]
    tier = argv[1] if len(argv) > 1 else os.environ.get('VERIF_TIER', 'quick')
    if tier not in ('quick', 'thorough'):
        tier = 'quick'
    seed = int(os.environ.get('VERIF_SEED', '0') or 0)
    from . import framework
    sys.path.insert(0, framework.REPO)
    try:
        module = importlib.import_module('contracts.' + prop.lower())
    except ModuleNotFoundError as e:
        print('no contract module for %s: %s' % (prop, e))
        return 3
    try:
        code, lines, summary = framework.run_check(prop, module, tier, seed)
    except Exception:
        import traceback
        traceback.print_exc()
        print('ENGINE-ERROR property=%s (internal error; nothing is claimed)' % prop)
        return 3
    for ln in lines:
        print(ln)
    print(summary)
    return code


if __name__ == '__main__':
    sys.exit(main(sys.argv[1:]))
