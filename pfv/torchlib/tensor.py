"""The torch *contract shim*: assumed contracts of the PyTorch primitives pfhedge uses, in
executable form over lambda tensors (shape = tuple of python ints / symbolic ints, element =
function from an index tuple to a scalar term).  Every function here is an ASSUMED contract
(assumption register A3); it is cross-checked against real torch on concrete inputs by
pfv/crosscheck.py on every run.
"""
import builtins
import itertools
import math
from fractions import Fraction

from .. import terms as tm
from ..terms import T
from ..proxies import (Ctx, ctx, SInt, SReal, SBool, lift, wrap, is_symbolic, Unsupported)

_max, _min, _sum, _abs, _all, _any = builtins.max, builtins.min, builtins.sum, builtins.abs, builtins.all, builtins.any


class TorchRuntimeError(RuntimeError):
    """An error real torch would raise (shape mismatch, ...), raised deliberately by the shim."""
    _pfv_deliberate = True


# ------------------------------------------------------------------ dtypes / devices

class dtype:
    def __init__(self, name, cat, bits):
        self.name, self.cat, self.bits = name, cat, bits   # cat: 0 bool, 1 int, 2 float
        self.is_floating_point = cat == 2
        self.is_complex = False

    def __repr__(self):
        return 'torch.' + self.name

    def __reduce__(self):
        return (_dtype_by_name, (self.name,))


def _dtype_by_name(n):
    return DTYPES[n]


float16 = half = dtype('float16', 2, 16)
bfloat16 = dtype('bfloat16', 2, 15)
float32 = float = dtype('float32', 2, 32)   # noqa: A001  (torch.float)
float64 = double = dtype('float64', 2, 64)
int32 = dtype('int32', 1, 32)
int64 = long = dtype('int64', 1, 64)
bool_ = dtype('bool', 0, 1)
DTYPES = {d.name: d for d in (float16, bfloat16, float32, float64, int32, int64, bool_)}
_pyfloat = builtins.float

_default_dtype = [float32]


def get_default_dtype():
    return _default_dtype[0]


def set_default_dtype(d):
    _default_dtype[0] = d


def promote_types(a, b):
    if a is b:
        return a
    if a.cat != b.cat:
        return a if a.cat > b.cat else b
    if {a, b} == {float16, bfloat16}:
        return float32
    return a if a.bits >= b.bits else b


class device:
    def __init__(self, type='cpu', index=None):
        if isinstance(type, device):
            type, index = type.type, type.index
        if isinstance(type, str) and ':' in type:
            type, i = type.split(':')
            index = int(i)
        self.type, self.index = type, index

    def __eq__(self, o):
        return isinstance(o, device) and (self.type, self.index) == (o.type, o.index)

    def __hash__(self):
        return hash((self.type, self.index))

    def __repr__(self):
        return "device(type='%s')" % self.type

    def __str__(self):
        return self.type if self.index is None else '%s:%d' % (self.type, self.index)


CPU = device('cpu')


class memory_format:
    pass


class finfo:
    _tiny = {'float16': 2.0 ** -14, 'bfloat16': 2.0 ** -126, 'float32': 2.0 ** -126, 'float64': 2.0 ** -1022}
    _eps = {'float16': 2.0 ** -10, 'bfloat16': 2.0 ** -7, 'float32': 2.0 ** -23, 'float64': 2.0 ** -52}

    def __init__(self, d=None):
        d = d or get_default_dtype()
        self.tiny = self._tiny[d.name]
        self.eps = self._eps[d.name]
        self.dtype = d


class Size(tuple):
    def numel(self):
        n = 1
        for s in self:
            n = n * s
        return n

    def __getitem__(self, k):
        r = tuple.__getitem__(self, k)
        return Size(r) if isinstance(k, slice) else r

    def __add__(self, o):
        return Size(tuple.__add__(self, tuple(o)))

    def __eq__(self, o):
        if not isinstance(o, tuple) or len(self) != len(o):
            return False
        for a, b in zip(self, o):
            if not (a == b):     # SBool.__bool__ decides symbolic comparisons
                return False
        return True

    def __ne__(self, o):
        return not self.__eq__(o)

    __hash__ = tuple.__hash__


# ------------------------------------------------------------------ integer helpers (python int or T)

def _cint(x):
    return isinstance(x, int) and not hasattr(x, '_term')


def ti(x):
    """shape entry -> T (sort I)"""
    if isinstance(x, T):
        return x
    if isinstance(x, SInt):
        return x._term
    if isinstance(x, bool):
        raise TypeError('bool as size')
    if isinstance(x, int):
        return tm.const(x, 'I')
    if isinstance(x, Tensor):
        return x._as_scalar_term('I')
    raise TypeError('bad integer %r' % (x,))


def norm_int(x):
    """T/SInt/int -> python int if constant else T"""
    if isinstance(x, SInt):
        x = x._term
    if isinstance(x, T):
        if x.op == 'const':
            return int(x.args[0])
        return x
    if isinstance(x, Tensor):
        return norm_int(x._as_scalar_term('I'))
    return int(x)


def out_int(x):
    """shape entry -> what user code sees (python int or SInt)"""
    x = norm_int(x)
    return x if isinstance(x, int) else SInt(x)


def same_int(a, b):
    """Decide a == b for shape entries (forks on undetermined symbolic comparisons)."""
    a, b = norm_int(a), norm_int(b)
    if isinstance(a, int) and isinstance(b, int):
        return a == b
    ta, tb = ti(a), ti(b)
    if ta is tb:
        return True
    return ctx().decide(tm.eq(ta, tb))


def is_one(a):
    a = norm_int(a)
    return isinstance(a, int) and a == 1


# ------------------------------------------------------------------ storage / tensor

def _memo(fn):
    """element functions are pure: memoise per index tuple (terms are hash-consed), otherwise the
    re-evaluation of shared sub-tensors is exponential in the depth of a recursion"""
    cache = {}

    def g(idx):
        r = cache.get(idx)
        if r is None:
            r = fn(idx)
            cache[idx] = r
        return r
    g._pfv_memo = True
    return g


class Storage:
    _ids = itertools.count()

    def __init__(self, fn, shape, origin='fresh'):
        self.id = next(Storage._ids)
        self.fn = _memo(fn)        # base index tuple (of T) -> T ; replaced on in-place writes
        self.shape = tuple(shape)
        self.origin = origin       # 'fresh' | 'input:<name>' | 'param:<name>' | 'random:<name>'
        self.nwrites = 0
        c = Ctx.current
        if c is not None:
            c.storages.append(self)

    def write(self, newfn, what):
        self.fn = _memo(newfn)
        self.nwrites += 1
        c = Ctx.current
        if c is not None:
            c.writes.append((self, what))


def _bcast_shapes(shapes):
    n = _max(len(s) for s in shapes) if shapes else 0
    out = []
    for d in range(n):
        cur = 1
        for s in shapes:
            k = d - (n - len(s))
            if k < 0:
                continue
            e = s[k]
            if is_one(e):
                continue
            if is_one(cur):
                cur = e
            elif not same_int(cur, e):
                raise TorchRuntimeError('The size of tensor a (%s) must match the size of tensor b (%s) at non-singleton dimension %d' % (cur, e, d))
        out.append(norm_int(cur))
    return tuple(out)


def _bcast_reader(t, shape):
    """reader of tensor t as if broadcast to `shape`"""
    rd = t.reader()
    n, m = len(shape), len(t.shape)
    ones = [is_one(e) for e in t.shape]
    sizes = list(shape[n - m:]) if m else []
    exp = [o and not is_one(s) for o, s in zip(ones, sizes)]

    def f(idx):
        sub = idx[n - m:] if m else ()
        sub = tuple(tm.IZERO if o else i for o, i in zip(ones, sub))
        return rd(sub)
    return f


class Tensor:
    """Lambda tensor.  `storage` + view maps give aliasing; `deps` is the ghost set of
    parameters the value is graph-connected to (autograd connectivity, C14)."""
    __array_priority__ = 1000

    def __init__(self, storage, shape, dtype, fwd=None, inv=None, deps=frozenset(), requires_grad=False, leaf=None):
        self.storage = storage
        self._shape = tuple(norm_int(s) for s in shape)
        self.dtype = dtype
        self._fwd = fwd      # view idx -> base idx (None = identity)
        self._inv = inv      # base idx -> (cond, view idx) (None = identity); False = not invertible
        self.deps = deps
        self.requires_grad = requires_grad
        self._leaf = leaf    # leaf variable info for symbolic autograd
        self.grad = None
        self.device = CPU
        self.is_leaf_param = False

    # ---- construction helpers
    @staticmethod
    def fresh(fn, shape, dtype, deps=frozenset(), origin='fresh'):
        shape = tuple(norm_int(s) for s in shape)
        c = Ctx.current
        if c is not None and not c.grad_enabled and deps:
            # computed under no_grad from graph-connected operands: the result carries no graph
            fn0 = fn
            fn = lambda idx: tm.app('stopgrad', fn0(idx))
            deps = frozenset()
        st = Storage(fn, shape, origin)
        return Tensor(st, shape, dtype, deps=deps, requires_grad=bool(deps))

    @staticmethod
    def input(name, shape, dtype=None, sort=None, origin=None):
        dtype = dtype or get_default_dtype()
        sort = sort or {0: 'B', 1: 'I', 2: 'R'}[dtype.cat]
        if len(shape) == 0:
            v = tm.var(name, sort)
            fn = lambda idx: v
        else:
            fn = lambda idx: tm.sel(name, *idx, sort=sort)
        t = Tensor.fresh(fn, shape, dtype, origin=origin or ('input:' + name))
        t.name = name
        return t

    # ---- reading
    def at(self, idx):
        idx = tuple(ti(i) for i in idx)
        if self._fwd is not None:
            idx = self._fwd(idx)
        return self.storage.fn(idx)

    def reader(self):
        """Snapshot reader: later in-place writes to the storage do not affect it."""
        fn = self.storage.fn
        fwd = self._fwd
        if fwd is None:
            return fn
        return lambda idx: fn(fwd(idx))

    @property
    def sort(self):
        return {0: 'B', 1: 'I', 2: 'R'}[self.dtype.cat]

    def _as_scalar_term(self, want=None):
        if self.numel_static() != 1:
            raise TorchRuntimeError('only one element tensors can be converted to Python scalars')
        t = self.at(tuple(tm.IZERO for _ in self._shape))
        return t

    def numel_static(self):
        n = 1
        for s in self._shape:
            if not isinstance(s, int):
                return None
            n *= s
        return n

    # ---- metadata
    @property
    def shape(self):
        return Size(out_int(s) for s in self._shape)

    def size(self, dim=None):
        if dim is None:
            return self.shape
        return out_int(self._shape[self._dim(dim)])

    def dim(self):
        return len(self._shape)

    ndim = property(lambda self: len(self._shape))

    def ndimension(self):
        return len(self._shape)

    def numel(self):
        n = 1
        for s in self._shape:
            n = n * out_int(s)
        return n

    def _dim(self, d, extra=0):
        n = len(self._shape) + extra
        d = norm_int(d)
        if not isinstance(d, int):
            raise Unsupported('symbolic dim argument')
        if d < 0:
            d += n
        if not 0 <= d < _max(n, 1):
            raise IndexError('Dimension out of range (got %d for %d dims)' % (d, n))
        return d

    def __len__(self):
        if not self._shape:
            raise TypeError('len() of a 0-d tensor')
        s = self._shape[0]
        if isinstance(s, int):
            return s
        raise Unsupported('len() of a tensor with symbolic first dimension')

    def is_floating_point(self):
        return self.dtype.is_floating_point

    def element_size(self):
        return self.dtype.bits // 8

    def __repr__(self):
        return 'SymTensor(shape=%s, dtype=%s)' % (self._shape, self.dtype)

    def __hash__(self):
        return id(self)

    # ---- conversion to python
    def __bool__(self):
        t = self._as_scalar_term()
        if t.sort == 'B':
            return ctx().decide(t)
        return ctx().decide(tm.ne(t, tm.const(0, t.sort)))

    def item(self):
        t = self._as_scalar_term()
        return wrap(tm.app('stopgrad', t) if self.deps else t)

    def __float__(self):
        t = self._as_scalar_term()
        if t.op == 'const':
            return _pyfloat(t.args[0])
        raise Unsupported('float() of a symbolic tensor element')

    def __int__(self):
        t = self._as_scalar_term()
        if t.op == 'const':
            return int(t.args[0])
        raise Unsupported('int() of a symbolic tensor element')

    def __index__(self):
        return self.__int__()

    def tolist(self):
        n = self.numel_static()
        if n is None:
            raise Unsupported('tolist() of a symbolic-shape tensor')
        if not self._shape:
            return self.item()
        return [self[i].tolist() for i in range(self._shape[0])]

    def __iter__(self):
        if not self._shape:
            raise TypeError('iteration over a 0-d tensor')
        s = self._shape[0]
        if not isinstance(s, int):
            raise Unsupported('iteration over a symbolic dimension')
        return iter([self[i] for i in range(s)])

    # ---- dtype / device
    def to(self, *args, **kwargs):
        dt = kwargs.get('dtype')
        for a in args:
            if isinstance(a, dtype):
                dt = a
            elif isinstance(a, Tensor):
                dt = a.dtype
            elif a is None or isinstance(a, (device, str)):
                pass
        other = kwargs.get('other')
        if other is not None:
            dt = other.dtype
        if dt is None or dt is self.dtype:
            return self            # torch returns self when nothing changes
        return _cast(self, dt)

    def type(self, dt=None):
        if dt is None:
            return 'torch.' + self.dtype.name
        return self.to(dt)

    def float(self):
        return self.to(float32)

    def double(self):
        return self.to(float64)

    def half(self):
        return self.to(float16)

    def bfloat16(self):
        return self.to(bfloat16)

    def long(self):
        return self.to(int64)

    def int(self):
        return self.to(int32)

    def bool(self):
        return self.to(bool_)

    def cpu(self):
        return self

    def cuda(self, *a, **k):
        raise TorchRuntimeError('no CUDA in the contract shim')

    def contiguous(self):
        return self

    def numpy(self):
        raise Unsupported('numpy()')

    # ---- autograd metadata
    def detach(self):
        """same values, cut from the graph: element terms are wrapped in the identity `stopgrad` whose
        derivative is zero (ghost marker used by the gradient-faithfulness obligations, C14)"""
        if not self.deps:
            t = Tensor(self.storage, self._shape, self.dtype, self._fwd, self._inv, frozenset(), False)
            t._detached_from = self
            return t
        rd = self.reader()
        t = Tensor.fresh(lambda idx: tm.app('stopgrad', rd(idx)), self._shape, self.dtype, frozenset())
        t._detached_from = self
        t._inv = False
        return t

    def requires_grad_(self, flag=True):
        self.requires_grad = flag
        # a tensor that is already part of a graph keeps its graph (torch: no-op on such tensors)
        if flag and self._leaf is None and not self.deps:
            _make_leaf(self)
        return self

    def clone(self):
        rd = self.reader()
        return Tensor.fresh(rd, self._shape, self.dtype, self.deps)

    def backward(self, *a, **k):
        c = ctx()
        c.event('backward', tuple(sorted(self.deps)), c.grad_enabled)

    @property
    def data(self):
        return self.detach()

    @property
    def is_leaf(self):
        return not self.deps or self.is_leaf_param

    @property
    def grad_fn(self):
        return object() if (self.deps and not self.is_leaf_param) else None

    # ---- views
    def _view(self, shape, fwd, inv):
        f0, i0 = self._fwd, self._inv
        if f0 is not None:
            fwd2 = lambda idx: f0(fwd(idx))
        else:
            fwd2 = fwd
        if inv is False or i0 is False:
            inv2 = False
        elif i0 is not None:
            def inv2(b):
                c1, v1 = i0(b)
                c2, v2 = inv(v1)
                return tm.and_(c1, c2), v2
        else:
            inv2 = inv
        t = Tensor(self.storage, shape, self.dtype, fwd2, inv2, self.deps, self.requires_grad)
        t._leaf = None
        t._base = self
        return t

    def unsqueeze(self, d):
        d = self._dim(d, extra=1)
        shape = self._shape[:d] + (1,) + self._shape[d:]
        return self._view(shape, lambda idx: idx[:d] + idx[d + 1:],
                          lambda b: (tm.TRUE, b[:d] + (tm.IZERO,) + b[d:]))

    def squeeze(self, d=None):
        if d is None:
            t = self
            for k in reversed(range(len(self._shape))):
                if is_one(t._shape[k]):
                    t = t.squeeze(k)
            return t
        d = self._dim(d)
        if not is_one(self._shape[d]):
            if isinstance(self._shape[d], int):
                return self
            if ctx().decide(tm.eq(ti(self._shape[d]), tm.IONE)):
                pass
            else:
                return self
        shape = self._shape[:d] + self._shape[d + 1:]
        return self._view(shape, lambda idx: idx[:d] + (tm.IZERO,) + idx[d:],
                          lambda b: (tm.eq(b[d], tm.IZERO), b[:d] + b[d + 1:]))

    def transpose(self, d0, d1):
        d0, d1 = self._dim(d0), self._dim(d1)
        perm = list(range(len(self._shape)))
        perm[d0], perm[d1] = perm[d1], perm[d0]
        return self.permute(*perm)

    def permute(self, *perm):
        if len(perm) == 1 and isinstance(perm[0], (tuple, list)):
            perm = tuple(perm[0])
        perm = [self._dim(p) for p in perm]
        shape = tuple(self._shape[p] for p in perm)
        invp = [perm.index(k) for k in range(len(perm))]

        def fwd(idx):
            return tuple(idx[invp[k]] for k in range(len(perm)))

        def inv(b):
            return tm.TRUE, tuple(b[p] for p in perm)
        return self._view(shape, fwd, inv)

    @property
    def T(self):
        return self.permute(*reversed(range(len(self._shape))))

    def t(self):
        return self.transpose(0, 1) if len(self._shape) == 2 else self

    def expand(self, *sizes):
        if len(sizes) == 1 and isinstance(sizes[0], (tuple, list)):
            sizes = tuple(sizes[0])
        n, m = len(sizes), len(self._shape)
        if n < m:
            raise TorchRuntimeError('expand: fewer sizes than dims')
        shape = []
        ones = []
        for k, s in enumerate(sizes):
            j = k - (n - m)
            s = norm_int(s)
            if j < 0:
                shape.append(s)
                continue
            cur = self._shape[j]
            if isinstance(s, int) and s == -1:
                shape.append(cur)
                ones.append(False)
            elif is_one(cur):
                shape.append(s)
                ones.append(not is_one(s))
            else:
                if not same_int(cur, s):
                    raise TorchRuntimeError('expand: size mismatch at dim %d' % k)
                shape.append(cur)
                ones.append(False)

        if n == m and not _any(ones):
            return self            # nothing to expand: the same view (in-place writes go to the same storage)

        def fwd(idx):
            sub = idx[n - m:] if m else ()
            return tuple(tm.IZERO if o else i for o, i in zip(ones, sub))
        return self._view(tuple(shape), fwd, False)

    def repeat(self, *sizes):
        """torch contract: a NEW tensor (own storage) of shape sizes[k] * shape[k], element idx reads self at idx mod shape"""
        if len(sizes) == 1 and isinstance(sizes[0], (tuple, list)):
            sizes = tuple(sizes[0])
        n, m = len(sizes), len(self._shape)
        if n < m:
            raise TorchRuntimeError('repeat: number of sizes smaller than the number of dims')
        sizes = [norm_int(s) for s in sizes]
        src = (1,) * (n - m) + tuple(self._shape)
        shape = tuple(s if is_one(c) else (c if is_one(s) else _mul_int(s, c)) for s, c in zip(sizes, src))
        rd = self.reader()

        def elem(idx):
            sub = []
            for k in range(n - m, n):
                c = src[k]
                sub.append(tm.IZERO if is_one(c) else (idx[k] if is_one(sizes[k]) else tm.mod(idx[k], ti(c))))
            return rd(tuple(sub))
        return Tensor.fresh(elem, shape, self.dtype, self.deps)

    def expand_as(self, other):
        return self.expand(*other._shape)

    def flatten(self, start_dim=0, end_dim=-1):
        nd = len(self._shape)
        if nd == 0:
            return self.reshape(1)
        s, e = self._dim(start_dim), self._dim(end_dim)
        if s == e:
            return self
        dims = self._shape[s:e + 1]
        total = 1
        for dsz in dims:
            total = _mul_int(total, dsz)
        shape = self._shape[:s] + (total,) + self._shape[e + 1:]

        def fwd(idx):
            k = idx[s]
            parts = []
            for dsz in reversed(dims[1:]):
                parts.append(tm.mod(k, ti(dsz)))
                k = tm.idiv(k, ti(dsz))
            parts.append(k)
            return idx[:s] + tuple(reversed(parts)) + idx[s + 1:]
        return self._view(shape, fwd, False)

    def reshape(self, *shape):
        if len(shape) == 1 and isinstance(shape[0], (tuple, list)):
            shape = tuple(shape[0])
        shape = tuple(norm_int(s) for s in shape)
        return self.view(*shape)

    def view(self, *shape):
        if len(shape) == 1 and isinstance(shape[0], (tuple, list)):
            shape = tuple(shape[0])
        shape = [norm_int(s) for s in shape]
        cur = [s for s in self._shape]
        # supported: insertion / removal of size-1 dims, and -1 inference in those cases; flatten to 1-D
        non1_new = [s for s in shape if not is_one(s)]
        non1_cur = [s for s in cur if not is_one(s)]
        if len(non1_new) <= 1 and len(shape) >= 1 and any(isinstance(s, int) and s == -1 for s in shape) and len(non1_cur) <= 1:
            total = non1_cur[0] if non1_cur else 1
            shape = [total if (isinstance(s, int) and s == -1) else s for s in shape]
            non1_new = [s for s in shape if not is_one(s)]
        if len(non1_new) == len(non1_cur) and _all(same_int(a, b) for a, b in zip(non1_new, non1_cur)):
            # pure reshuffle of unit dims
            t = self
            for k in reversed(range(len(cur))):
                if is_one(cur[k]):
                    t = t.squeeze(k)
            for k, s in enumerate(shape):
                if is_one(s):
                    t = t.unsqueeze(k)
            return t
        if len(shape) == 1:
            return self.flatten()
        return self._general_reshape(shape)

    def _general_reshape(self, shape):
        """row-major re-indexing (C-contiguous semantics of reshape on the logical element order).
        Returned as a fresh tensor whose in-place modification is out of reach (alias status unknown)."""
        cur = self._shape
        if any(_cint(s_) and s_ == -1 for s_ in shape):
            # infer the missing size by cancelling the factors of the known sizes against those of the current shape
            def factors(dims):
                fs, k = [], 1
                for d_ in dims:
                    t_ = ti(d_)
                    for a_ in (t_.args if t_.op == 'mul' else (t_,)):
                        if a_.op == 'const':
                            k *= int(a_.args[0])
                        else:
                            fs.append(a_)
                return fs, k
            have, kh = factors(cur)
            known, kk = factors([s_ for s_ in shape if not (_cint(s_) and s_ == -1)])
            for f_ in known:
                if f_ in have:
                    have.remove(f_)
                else:
                    raise Unsupported('reshape with -1: cannot infer the missing size symbolically')
            if kk == 0 or kh % kk != 0:
                raise Unsupported('reshape with -1: sizes do not divide')
            miss = tm.mul(tm.const(kh // kk, 'I'), *have) if have else tm.const(kh // kk, 'I')
            from ..proxies import SInt as _SInt
            mval = int(miss.args[0]) if miss.op == 'const' else _SInt(miss)
            shape = [mval if (_cint(s_) and s_ == -1) else s_ for s_ in shape]
        c = Ctx.current
        tot_a, tot_b = tm.IONE, tm.IONE
        for s_ in cur:
            tot_a = tm.mul(tot_a, ti(s_))
        for s_ in shape:
            tot_b = tm.mul(tot_b, ti(s_))
        if c is not None:
            c.oblige('shape', 'reshape preserves the number of elements', tm.eq(tot_a, tot_b))
        rd = self.reader()

        def f(idx):
            flat = tm.IZERO
            for i_, s_ in zip(idx, shape):
                flat = tm.add(tm.mul(flat, ti(s_)), i_)
            out = []
            for s_ in reversed(cur[1:]):
                out.append(tm.mod(flat, ti(s_)))
                flat = tm.idiv(flat, ti(s_))
            out.append(flat)
            return rd(tuple(reversed(out)))
        r = Tensor.fresh(f, shape, self.dtype, self.deps)
        r._inv = False
        return r

    def flip(self, *dims):
        if len(dims) == 1 and isinstance(dims[0], (tuple, list)):
            dims = tuple(dims[0])
        dims = [self._dim(d) for d in dims]
        sh = self._shape

        def fwd(idx):
            return tuple(tm.sub(tm.sub(ti(sh[k]), tm.IONE), i) if k in dims else i for k, i in enumerate(idx))
        rd = self.reader()
        return Tensor.fresh(lambda idx: rd(fwd(idx)), sh, self.dtype, self.deps)

    # ---- indexing
    def __getitem__(self, key):
        return _getitem(self, key)

    def __setitem__(self, key, value):
        _setitem(self, key, value)

    # ---- in-place whole-tensor update
    def _assign_all(self, src, what):
        """self[...] = src (broadcast), through this view into the storage."""
        src = as_tensor_like(src, self)
        shape = _bcast_shapes([self._shape, src._shape])
        # torch: an in-place operation cannot enlarge its output ("output with shape [...] doesn't match the broadcast shape [...]")
        if len(shape) != len(self._shape) or not _all(same_int(a_, b_) for a_, b_ in zip(shape, self._shape)):
            raise TorchRuntimeError("output with shape %s doesn't match the broadcast shape %s" % (list(self._shape), list(shape)))
        rd = _bcast_reader(src, self._shape)
        if self.dtype is not src.dtype:
            rd0 = rd
            conv = _conv(src.dtype, self.dtype)
            rd = lambda idx: conv(rd0(idx))
        st = self.storage
        old = st.fn
        inv = self._inv
        if inv is False:
            raise TorchRuntimeError('in-place write through an expanded view is not supported')
        if inv is None:
            st.write(lambda b: rd(b), what)
        else:
            def newfn(b):
                cond, v = inv(b)
                return tm.ite(cond, rd(v), old(b))
            st.write(newfn, what)
        c = Ctx.current
        if c is None or c.grad_enabled:
            self.deps = self.deps | src.deps
            base = self
            while getattr(base, '_base', None) is not None:
                base = base._base
                base.deps = base.deps | src.deps
        return self

    def copy_(self, src):
        return self._assign_all(src, 'copy_')

    def fill_(self, v):
        return self._assign_all(v, 'fill_')

    def zero_(self):
        return self._assign_all(0.0, 'zero_')

    def resize_(self, *shape):
        if len(shape) == 1 and isinstance(shape[0], (tuple, list)):
            shape = tuple(shape[0])
        r = self.view(*shape)
        self._shape, self._fwd, self._inv = r._shape, r._fwd, r._inv
        return self

    # ---- arithmetic
    def __add__(self, o):
        return _ew2(tm.add, self, o)

    def __radd__(self, o):
        return _ew2(tm.add, o, self)

    def __sub__(self, o):
        return _ew2(tm.sub, self, o)

    def __rsub__(self, o):
        return _ew2(tm.sub, o, self)

    def __mul__(self, o):
        return _ew2(tm.mul, self, o)

    def __rmul__(self, o):
        return _ew2(tm.mul, o, self)

    def __truediv__(self, o):
        return _ew2(_divop, self, o, true_div=True, defined=_def_div)

    def __rtruediv__(self, o):
        return _ew2(_divop, o, self, true_div=True, defined=_def_div)

    def __floordiv__(self, o):
        return _ew2(lambda a, b: tm.idiv(a, b) if a.sort == 'I' and b.sort == 'I' else tm.toreal(tm.floor(tm.div(a, b))), self, o)

    def __mod__(self, o):
        return _ew2(tm.mod, self, o)

    def __pow__(self, o):
        return _ew2(_powop, self, o, defined=_def_pow)

    def __rpow__(self, o):
        return _ew2(_powop, o, self, defined=_def_pow)

    def __neg__(self):
        return _ew1(tm.neg, self)

    def __pos__(self):
        return self

    def __abs__(self):
        return _ew1(tm.tabs, self)

    def __matmul__(self, o):
        return matmul(self, o)

    def __iadd__(self, o):
        return self._assign_all(self + o, 'iadd')

    def __isub__(self, o):
        return self._assign_all(self - o, 'isub')

    def __imul__(self, o):
        return self._assign_all(self * o, 'imul')

    def __itruediv__(self, o):
        return self._assign_all(self / o, 'idiv')

    add = __add__
    sub = __sub__
    mul = __mul__
    div = __truediv__
    true_divide = __truediv__
    pow = __pow__
    neg = __neg__
    abs = __abs__

    def add_(self, o):
        return self.__iadd__(o)

    def sub_(self, o):
        return self.__isub__(o)

    def mul_(self, o):
        return self.__imul__(o)

    def div_(self, o):
        return self.__itruediv__(o)

    def masked_fill(self, mask, value):
        return where(mask, as_tensor_like(value, self), self)

    def masked_fill_(self, mask, value):
        return self._assign_all(self.masked_fill(mask, value), 'masked_fill_')

    def lerp_(self, end, weight):
        return self._assign_all(self.lerp(end, weight), 'lerp_')

    def cumsum_(self, dim):
        return self._assign_all(self.cumsum(dim), 'cumsum_')

    def exp_(self):
        return self._assign_all(self.exp(), 'exp_')

    def sqrt_(self):
        return self._assign_all(self.sqrt(), 'sqrt_')

    def neg_(self):
        return self._assign_all(-self, 'neg_')

    def abs_(self):
        return self._assign_all(self.abs(), 'abs_')

    def square_(self):
        return self._assign_all(self * self, 'square_')

    def clamp_(self, min=None, max=None):
        return self._assign_all(self.clamp(min=min, max=max), 'clamp_')

    def pow_(self, e):
        return self._assign_all(self ** e, 'pow_')

    # ---- comparisons
    def __lt__(self, o):
        return _ew2(tm.lt, self, o, out=bool_)

    def __le__(self, o):
        return _ew2(tm.le, self, o, out=bool_)

    def __gt__(self, o):
        return _ew2(tm.gt, self, o, out=bool_)

    def __ge__(self, o):
        return _ew2(tm.ge, self, o, out=bool_)

    def __eq__(self, o):
        if o is None:
            return False
        return _ew2(tm.eq, self, o, out=bool_)

    def __ne__(self, o):
        if o is None:
            return True
        return _ew2(tm.ne, self, o, out=bool_)

    lt, le, gt, ge, eq, ne = __lt__, __le__, __gt__, __ge__, __eq__, __ne__

    def __invert__(self):
        return _ew1(tm.not_, self, out=bool_)

    def __and__(self, o):
        return _ew2(tm.and_, self, o, out=bool_)

    def __or__(self, o):
        return _ew2(tm.or_, self, o, out=bool_)

    def logical_and(self, o):
        return _ew2(lambda a, b: tm.and_(_truth(a), _truth(b)), self, o, out=bool_)

    def logical_or(self, o):
        return _ew2(lambda a, b: tm.or_(_truth(a), _truth(b)), self, o, out=bool_)

    def logical_not(self):
        return _ew1(lambda a: tm.not_(_truth(a)), self, out=bool_)

    # ---- element-wise math
    def exp(self):
        c = Ctx.current
        if c is not None:
            c.event('exp')
        return _ew1(lambda a: tm.app('exp', a), self, floatout=True)

    def log(self):
        return _ew1(lambda a: tm.app('log', a), self, floatout=True, defined=lambda a: ('log', tm.gt(a, tm.ZERO)))

    def sqrt(self):
        return _ew1(lambda a: tm.app('sqrt', a), self, floatout=True, defined=lambda a: ('sqrt', tm.ge(a, tm.ZERO)))

    def cos(self):
        return _ew1(lambda a: tm.app('cos', a), self, floatout=True)

    def sin(self):
        return _ew1(lambda a: tm.app('sin', a), self, floatout=True)

    def square(self):
        return _ew1(lambda a: tm.powt(a, tm.const(2, 'I')), self)

    def relu(self):
        return _ew1(lambda a: tm.tmax(a, tm.const(0, a.sort)), self)

    def sign(self):
        return _ew1(lambda a: tm.ite(tm.gt(a, tm.const(0, a.sort)), tm.const(1, a.sort), tm.ite(tm.lt(a, tm.const(0, a.sort)), tm.const(-1, a.sort), tm.const(0, a.sort))), self)

    def log_(self):
        return self._assign_all(self.log(), 'log_')

    def exp_(self):
        return self._assign_all(self.exp(), 'exp_')

    def sqrt_(self):
        return self._assign_all(self.sqrt(), 'sqrt_')

    def abs_(self):
        return self._assign_all(self.abs(), 'abs_')

    def clamp_(self, min=None, max=None):
        return self._assign_all(self.clamp(min, max), 'clamp_')

    def maximum(self, o):
        return _ew2(tm.tmax, self, o)

    def minimum(self, o):
        return _ew2(tm.tmin, self, o)

    def clamp(self, min=None, max=None):
        r = self
        if min is not None:
            r = _ew2(tm.tmax, r, min)
        if max is not None:
            r = _ew2(tm.tmin, r, max)
        return r

    clip = clamp

    def where(self, cond, other):
        return where(cond, self, other)

    def lerp(self, end, weight):
        return lerp(self, end, weight)

    def isnan(self):
        return _ew1(lambda a: tm.FALSE, self, out=bool_)

    def isfinite(self):
        return _ew1(lambda a: tm.TRUE, self, out=bool_)

    # ---- reductions
    def sum(self, dim=None, keepdim=False, dtype=None):
        return _reduce('sum', self, dim, keepdim)

    def mean(self, dim=None, keepdim=False):
        return _reduce('mean', self, dim, keepdim)

    def prod(self, dim=None, keepdim=False):
        return _reduce('prod', self, dim, keepdim)

    def amax(self, dim=None, keepdim=False):
        return _reduce('bmax', self, dim, keepdim)

    def amin(self, dim=None, keepdim=False):
        return _reduce('bmin', self, dim, keepdim)

    def max(self, dim=None, keepdim=False):
        if isinstance(dim, Tensor):
            return self.maximum(dim)
        if dim is None:
            return _reduce('bmax', self, None, False)
        return _ValuesIndices(_reduce('bmax', self, dim, keepdim), None)

    def min(self, dim=None, keepdim=False):
        if isinstance(dim, Tensor):
            return self.minimum(dim)
        if dim is None:
            return _reduce('bmin', self, None, False)
        return _ValuesIndices(_reduce('bmin', self, dim, keepdim), None)

    def all(self, dim=None):
        return _reduce('all', self, dim, False)

    def any(self, dim=None):
        return _reduce('any', self, dim, False)

    def cumsum(self, dim):
        return _scan('sum', self, dim)

    def cummax(self, dim):
        return _ValuesIndices(_scan('bmax', self, dim), None)

    def cummin(self, dim):
        return _ValuesIndices(_scan('bmin', self, dim), None)

    def cumprod(self, dim):
        return _scan('prod', self, dim)

    def diff(self, n=1, dim=-1, prepend=None, append=None):
        if n != 1:
            raise Unsupported('diff with n != 1')
        if prepend is not None or append is not None:
            parts = ([prepend] if prepend is not None else []) + [self] + ([append] if append is not None else [])
            return cat(parts, dim=dim).diff(dim=dim)
        d = self._dim(dim)
        sh = self._shape
        rd = self.reader()
        newshape = sh[:d] + (_sub_int(sh[d], 1),) + sh[d + 1:]

        def f(idx):
            hi = idx[:d] + (tm.add(idx[d], tm.IONE),) + idx[d + 1:]
            return tm.sub(rd(hi), rd(idx))
        return Tensor.fresh(f, newshape, self.dtype, self.deps)

    def logsumexp(self, dim, keepdim=False):
        return logsumexp(self, dim, keepdim)

    def topk(self, k, dim=-1, largest=True, sorted=True):
        return topk(self, k, dim, largest)

    def quantile(self, q, dim=None, keepdim=False):
        return quantile(self, q, dim, keepdim)

    def kthvalue(self, k, dim=-1, keepdim=False):
        """Assumed contract: the k-th smallest element (1-based) along dim"""
        d = self._dim(dim)
        sh = self._shape
        rd = self.reader()
        c = ctx()
        kt = ti(norm_int(k))
        c.oblige('pre', 'kthvalue: 1 <= k <= size', tm.and_(tm.le(tm.IONE, kt), tm.le(kt, ti(sh[d]))))
        newshape = sh[:d] + ((1,) if keepdim else ()) + sh[d + 1:]

        def f(idx):
            bv = c.fresh('o', 'I')
            full = idx[:d] + (bv,) + (idx[d + 1:] if keepdim else idx[d:])
            return tm.app('ostat_bot', tm.sub(kt, tm.IONE), tm.big('bag', bv, tm.IZERO, ti(sh[d]), rd(full)))
        return _ValuesIndices(Tensor.fresh(f, newshape, self.dtype, self.deps), None)

    def sort(self, dim=-1, descending=False):
        raise Unsupported('sort')

    def var(self, dim=None, unbiased=True, keepdim=False, correction=None):
        """assumed contract of torch.var: mean squared deviation from the mean along dim, times n/(n - correction)"""
        if isinstance(dim, bool):          # var(unbiased) positional form
            dim, unbiased = None, dim
        corr = (1 if unbiased else 0) if correction is None else correction
        mu = self.mean(dim=dim, keepdim=True) if dim is not None else self.mean()
        dev = self - mu
        ms = (dev * dev).mean(dim=dim, keepdim=keepdim) if dim is not None else (dev * dev).mean()
        if corr == 0:
            return ms
        if dim is None:
            n = 1
            for d_ in self._shape:
                n = n * d_
        else:
            n = self._shape[self._dim(dim)]
        return ms * n / (n - corr)

    def std(self, dim=None, unbiased=True, keepdim=False, correction=None):
        return self.var(dim=dim, unbiased=unbiased, keepdim=keepdim, correction=correction).sqrt()

    # ---- constructors relative to self
    def new_zeros(self, size, dtype=None, device=None):
        return full(size, 0.0, dtype=dtype or self.dtype)

    def new_ones(self, size, dtype=None, device=None):
        return full(size, 1.0, dtype=dtype or self.dtype)

    def new_full(self, size, v, dtype=None, device=None):
        return full(size, v, dtype=dtype or self.dtype)

    def new_tensor(self, data, dtype=None, device=None):
        return tensor(data, dtype=dtype or self.dtype)

    def new_empty(self, size, dtype=None, device=None):
        return empty(size, dtype=dtype or self.dtype)


class Parameter(Tensor):
    pass


class _ValuesIndices:
    def __init__(self, values, indices):
        self.values = values
        self._indices = indices

    @property
    def indices(self):
        raise Unsupported('indices of max/min/topk')

    def __iter__(self):
        raise Unsupported('unpacking (values, indices)')

    def __getitem__(self, k):
        if k == 0:
            return self.values
        raise Unsupported('indices of max/min/topk')


def _mul_int(a, b):
    a, b = norm_int(a), norm_int(b)
    if isinstance(a, int) and isinstance(b, int):
        return a * b
    return norm_int(tm.mul(ti(a), ti(b)))


def _sub_int(a, k):
    a = norm_int(a)
    if isinstance(a, int):
        return a - k
    return norm_int(tm.sub(ti(a), tm.const(k, 'I')))


def _add_int(a, b):
    a, b = norm_int(a), norm_int(b)
    if isinstance(a, int) and isinstance(b, int):
        return a + b
    return norm_int(tm.add(ti(a), ti(b)))


def _truth(a):
    if a.sort == 'B':
        return a
    return tm.ne(a, tm.const(0, a.sort))


# ------------------------------------------------------------------ casting

def _conv(src, dst):
    if src.cat == dst.cat:
        return lambda a: a
    if src.cat == 0:
        one, zero = (tm.ONE, tm.ZERO) if dst.cat == 2 else (tm.IONE, tm.IZERO)
        return lambda a: tm.ite(a, one, zero)
    if dst.cat == 0:
        return _truth
    if src.cat == 1 and dst.cat == 2:
        return tm.toreal
    # float -> int: truncation toward zero
    return lambda a: tm.ite(tm.ge(a, tm.ZERO), tm.floor(a), tm.neg(tm.floor(tm.neg(a))))


def _cast(t, dt):
    rd = t.reader()
    conv = _conv(t.dtype, dt)
    deps = t.deps if dt.cat == 2 else frozenset()
    return Tensor.fresh(lambda idx: conv(rd(idx)), t._shape, dt, deps)


# ------------------------------------------------------------------ scalar lifting

def _scalar_tensor(x, like=None):
    """python scalar / proxy -> 0-d tensor; returns (tensor, is_python_scalar)"""
    if isinstance(x, Tensor):
        return x, False
    if isinstance(x, bool):
        t = tm.const(x)
        return Tensor.fresh(lambda idx: t, (), bool_), True
    if isinstance(x, (int, SInt)):
        t = lift(x)
        return Tensor.fresh(lambda idx: t, (), int64), True
    if isinstance(x, (_pyfloat, Fraction, SReal)):
        t = tm.toreal(lift(x))
        return Tensor.fresh(lambda idx: t, (), get_default_dtype()), True
    if isinstance(x, SBool):
        t = x._term
        return Tensor.fresh(lambda idx: t, (), bool_), True
    raise TypeError('unsupported operand %r' % (x,))


def result_dtype(operands):
    """torch.result_type over (tensor, is_python_scalar) pairs."""
    dim_t = [t.dtype for t, s in operands if not s and len(t._shape) > 0]
    zero_t = [t.dtype for t, s in operands if not s and len(t._shape) == 0]
    scal = [t.dtype for t, s in operands if s]

    def fold(ds):
        r = ds[0]
        for d in ds[1:]:
            r = promote_types(r, d)
        return r
    cur = None
    for group in (dim_t, zero_t, scal):
        if not group:
            continue
        g = fold(group)
        if cur is None:
            cur = g
        elif g.cat > cur.cat:
            # higher category from a lower-priority group: take that category
            cur = get_default_dtype() if (group is scal and g.cat == 2) else g
    return cur


def as_tensor_like(x, like):
    if isinstance(x, Tensor):
        return x
    t, _ = _scalar_tensor(x)
    if like is not None and t.dtype.cat <= like.dtype.cat:
        return _cast(t, like.dtype) if t.dtype is not like.dtype else t
    return t


# ------------------------------------------------------------------ element-wise kernels

def _divop(a, b):
    return tm.div(a, b)


def _def_div(a, b):
    return ('division', tm.ne(b, tm.const(0, b.sort)))


def _powop(a, b):
    return tm.powt(a, b)


def _def_pow(a, b):
    if b.op == 'const':
        v = b.args[0]
        if v == int(v):
            if v >= 0:
                return None
            return ('negative power', tm.ne(a, tm.const(0, a.sort)))
        if v > 0:
            return ('fractional power', tm.ge(tm.toreal(a), tm.ZERO))
    return ('power', tm.gt(tm.toreal(a), tm.ZERO))


def _note_defined(shape, idxs_fn, kind_goal):
    """Definedness obligation for an element-wise partial op, universally over the index."""
    c = Ctx.current
    if c is None or kind_goal is None:
        return
    c.oblige('defined', kind_goal[0], kind_goal[1], info=None)


def _ew1(op, a, out=None, floatout=False, defined=None):
    rd = a.reader()
    dt = out or a.dtype
    conv = None
    if floatout and a.dtype.cat != 2:
        dt = get_default_dtype()
        conv = _conv(a.dtype, dt)
    if defined is not None:
        _emit_defined(a._shape, lambda idx: defined(conv(rd(idx)) if conv else rd(idx)))

    def f(idx):
        x = rd(idx)
        if conv:
            x = conv(x)
        return op(x)
    deps = a.deps if dt.cat == 2 else frozenset()
    return Tensor.fresh(f, a._shape, dt, deps)


def _emit_defined(shape, goal_at):
    """Record `for all idx in shape: goal` as a definedness side obligation with fresh index vars."""
    c = Ctx.current
    if c is None or getattr(c, 'lazy_defined', False):
        return          # lazy mode: definedness is checked post hoc, guard-aware, on the result term (terms.partial_ops)
    idx = tuple(c.fresh('d', 'I') for _ in shape)
    rng = tm.and_(*[tm.and_(tm.le(tm.IZERO, i), tm.lt(i, ti(s))) for i, s in zip(idx, shape)])
    kg = goal_at(idx)
    if kg is None:
        return
    kind, goal = kg
    if goal is tm.TRUE:
        return
    c.oblige('defined', kind, tm.implies(rng, goal), info={'index_vars': [i.args[0] for i in idx]})


def _ew2(op, a, b, out=None, true_div=False, defined=None):
    ta, sa = _scalar_tensor(a)
    tb, sb = _scalar_tensor(b)
    shape = _bcast_shapes([ta._shape, tb._shape])
    dt = result_dtype([(ta, sa), (tb, sb)])
    if true_div and dt.cat != 2:
        dt = get_default_dtype()
    # operands are converted to a common kind before the op: real if any float (or true division),
    # else integer if any integer, else boolean
    cat = 2 if true_div else _max(ta.dtype.cat, tb.dtype.cat)
    if cat == 0 and out is not bool_:
        cat = 1
    tgt = {0: bool_, 1: int64, 2: float64}[cat]
    conv_a, conv_b = _conv(ta.dtype, tgt), _conv(tb.dtype, tgt)
    ra, rb = _bcast_reader(ta, shape), _bcast_reader(tb, shape)
    if defined is not None:
        _emit_defined(shape, lambda idx: defined(conv_a(ra(idx)), conv_b(rb(idx))))

    def f(idx):
        return op(conv_a(ra(idx)), conv_b(rb(idx)))
    rdt = out or dt
    deps = (ta.deps | tb.deps) if rdt.cat == 2 else frozenset()
    return Tensor.fresh(f, shape, rdt, deps)


def where(cond, a, b):
    tc, _ = _scalar_tensor(cond)
    ta, sa = _scalar_tensor(a)
    tb, sb = _scalar_tensor(b)
    shape = _bcast_shapes([tc._shape, ta._shape, tb._shape])
    dt = result_dtype([(ta, sa), (tb, sb)])
    ca, cb = _conv(ta.dtype, dt), _conv(tb.dtype, dt)
    rc, ra, rb = _bcast_reader(tc, shape), _bcast_reader(ta, shape), _bcast_reader(tb, shape)

    def f(idx):
        return tm.ite(_truth(rc(idx)), ca(ra(idx)), cb(rb(idx)))
    return Tensor.fresh(f, shape, dt, ta.deps | tb.deps)


def lerp(a, b, w):
    return a + w * (b - a)


def maximum(a, b):
    return _ew2(tm.tmax, a, b)


def minimum(a, b):
    return _ew2(tm.tmin, a, b)


def clamp(x, min=None, max=None):
    return x.clamp(min, max)


def matmul(a, b):
    raise Unsupported('matmul')


# ------------------------------------------------------------------ reductions and scans

def _norm_dims(t, dim):
    if dim is None:
        return list(range(len(t._shape)))
    if isinstance(dim, (tuple, list)):
        return sorted(set(t._dim(d) for d in dim))
    return [t._dim(dim)]


def _reduce(kind, t, dim, keepdim):
    dims = _norm_dims(t, dim)
    sh = t._shape
    rd = t.reader()
    c = ctx()
    if kind in ('all', 'any'):
        conv = _truth
    elif kind in ('sum', 'mean') and t.dtype.cat == 0:
        conv = (lambda b_: tm.ite(b_, tm.IONE, tm.IZERO)) if kind == 'sum' else (lambda b_: tm.ite(b_, tm.ONE, tm.ZERO))
    else:
        conv = None
    out_shape = tuple((1 if k in dims else s) for k, s in enumerate(sh)) if keepdim else tuple(s for k, s in enumerate(sh) if k not in dims)
    if kind in ('bmax', 'bmin') and dims:
        for k in dims:
            c.oblige('defined', 'max/min over a non-empty range', tm.gt(ti(sh[k]), tm.IZERO))

    def f(idx):
        # rebuild the full index with bound variables at the reduced positions
        bvs = {k: c.fresh('r', 'I') for k in dims}
        full = []
        j = 0
        for k in range(len(sh)):
            if k in dims:
                full.append(bvs[k])
                if keepdim:
                    j += 1
            else:
                full.append(idx[j])
                j += 1
        body = rd(tuple(full))
        if conv:
            body = conv(body)
        if kind in ('sum', 'mean'):
            acc = body
            for k in reversed(dims):
                acc = tm.tsum(bvs[k], tm.IZERO, ti(sh[k]), acc)
            if kind == 'mean':
                n = tm.ONE
                for k in dims:
                    n = tm.mul(n, tm.toreal(ti(sh[k])))
                acc = tm.div(tm.toreal(acc), n)
            return acc
        if kind in ('bmax', 'bmin', 'prod'):
            acc = body
            for k in reversed(dims):
                acc = tm.big(kind, bvs[k], tm.IZERO, ti(sh[k]), acc)
            return acc
        if kind in ('all', 'any'):
            acc = body if kind == 'all' else tm.not_(body)
            for k in reversed(dims):
                acc = tm.forall(bvs[k], tm.IZERO, ti(sh[k]), acc)
            return acc if kind == 'all' else tm.not_(acc)
        raise ValueError(kind)
    if kind == 'mean':
        for k in dims:
            c.oblige('defined', 'mean over a non-empty range', tm.gt(ti(sh[k]), tm.IZERO))
    dt = bool_ if kind in ('all', 'any') else (t.dtype if (kind != 'mean' or t.dtype.cat == 2) else get_default_dtype())
    if kind == 'sum' and t.dtype.cat == 0:
        dt = int64
    deps = t.deps if dt.cat == 2 else frozenset()
    if kind in ('all', 'any') and not dims:
        body0 = _truth(rd(()))
        return Tensor.fresh(lambda idx: body0, (), bool_)
    return Tensor.fresh(f, out_shape, dt, deps)


def _scan(kind, t, dim):
    d = t._dim(dim)
    rd = t.reader()
    c = ctx()

    def f(idx):
        bv = c.fresh('s', 'I')
        body = rd(idx[:d] + (bv,) + idx[d + 1:])
        return tm.big(kind, bv, tm.IZERO, tm.add(idx[d], tm.IONE), body)
    return Tensor.fresh(f, t._shape, t.dtype, t.deps)


def logsumexp(t, dim, keepdim=False):
    """Assumed contract: logsumexp(y, dim) = log(sum exp(y)) and is finite for finite y (stable)."""
    c = ctx()
    c.event('logsumexp')
    e = _ew1(lambda a: tm.app('exp', a), t, floatout=True)
    s = _reduce('sum', e, dim, keepdim)
    return _ew1(lambda a: tm.app('log', a), s)


def topk(t, k, dim=-1, largest=True):
    """Assumed contract: values along `dim` are the k extreme order statistics.  Elements are
    uninterpreted order-statistic terms  ostat_<dir>(j; slice)  tied to the input by the axiom
    that their sum over j<k is the min (max) over k-subsets - only the SUM/MEAN of the values is
    given a meaning (see _reduce on OrderStat tensors)."""
    d = t._dim(dim)
    k = norm_int(k)
    rd = t.reader()
    sh = t._shape
    c = ctx()
    c.oblige('pre', 'topk: 1 <= k <= size', tm.and_(tm.le(tm.IONE, ti(k)), tm.le(ti(k), ti(sh[d]))))
    newshape = sh[:d] + (k,) + sh[d + 1:]
    tag = 'top' if largest else 'bot'

    def f(idx):
        bv = c.fresh('o', 'I')
        body = rd(idx[:d] + (bv,) + idx[d + 1:])
        # order statistic number idx[d] (0 = most extreme) of the multiset { body(bv) : 0 <= bv < n }
        return tm.app('ostat_' + tag, idx[d], tm.big('bag', bv, tm.IZERO, ti(sh[d]), body))
    r = Tensor.fresh(f, newshape, t.dtype, t.deps)
    return _ValuesIndices(r, None)


def quantile(t, q, dim=None, keepdim=False):
    """Assumed contract: linear interpolation between order statistics floor(q(n-1)), ceil(q(n-1))."""
    if dim is None:
        t = t.flatten()
        dim = 0
    d = t._dim(dim)
    sh = t._shape
    rd = t.reader()
    c = ctx()
    qt = tm.toreal(lift(q))
    n = ti(sh[d])
    pos = tm.mul(qt, tm.toreal(tm.sub(n, tm.IONE)))
    lo = tm.floor(pos)
    frac = tm.sub(pos, tm.toreal(lo))
    newshape = sh[:d] + sh[d + 1:] if not keepdim else sh[:d] + (1,) + sh[d + 1:]

    def f(idx):
        bv = c.fresh('o', 'I')
        full = idx[:d] + (bv,) + (idx[d + 1:] if keepdim else idx[d:])
        body = rd(full)
        lam = tm.big('bag', bv, tm.IZERO, n, body)
        a = tm.app('ostat_bot', lo, lam)
        b = tm.app('ostat_bot', tm.tmin(tm.add(lo, tm.IONE), tm.sub(n, tm.IONE)), lam)
        return tm.add(a, tm.mul(frac, tm.sub(b, a)))
    return Tensor.fresh(f, newshape, t.dtype, t.deps)


# ------------------------------------------------------------------ indexing

class _MaskedSelection:
    """`src[mask]` with a boolean mask: the selected elements in row-major order.  Its length depends on the data, so it is not
    a tensor of the shim; the only supported use is the idiom `dst[mask] = src[mask]` (element-wise conditional copy)."""
    def __init__(self, src, mask):
        self.src, self.mask = src, mask

    def __getattr__(self, name):
        raise Unsupported('boolean-mask selection used outside `dst[mask] = src[mask]` (%s)' % name)


def _same_mask(a, b):
    if a is b:
        return True
    if len(a._shape) != len(b._shape) or not _all(same_int(x_, y_) for x_, y_ in zip(a._shape, b._shape)):
        return False
    idx = tuple(tm.var('mi%d' % k_, 'I') for k_ in range(len(a._shape)))
    return a.at(idx) is b.at(idx)


def _getitem(t, key):
    if isinstance(key, Tensor) and key.dtype.cat == 0 and len(key._shape) == len(t._shape):
        return _MaskedSelection(t, key)
    if not isinstance(key, tuple):
        key = (key,)
    # boolean-mask indexing is out of reach
    nd = len(t._shape)
    n_specified = _sum(1 for k in key if k is not None and k is not Ellipsis)
    n_ell = _sum(1 for k in key if k is Ellipsis)
    # torch accepts several Ellipsis only if they denote zero dims beyond the first; pfhedge uses x[..., ...]
    out = t
    d = 0            # current dim in `out`
    seen_ell = False
    adv = []         # (dim, list-of-int terms) advanced indices -> copy
    for k in key:
        if k is Ellipsis:
            if not seen_ell:
                d += len(out._shape) - d - _count_after(key, k, seen_first=True)
                seen_ell = True
            continue
        if k is None:
            out = out.unsqueeze(d)
            d += 1
            continue
        if isinstance(k, slice):
            out = _slice(out, d, k)
            d += 1
            continue
        if isinstance(k, (int, SInt)) and not isinstance(k, bool):
            out = _select(out, d, k)
            continue
        if isinstance(k, Tensor) and len(k._shape) == 0 and k.dtype.cat == 1:
            out = _select(out, d, wrap(k._as_scalar_term()))
            continue
        if isinstance(k, (list, tuple)) or (isinstance(k, Tensor) and k.dtype.cat == 1):
            adv.append((d, k))
            d += 1
            continue
        if isinstance(k, Tensor) and k.dtype.cat == 0:
            raise Unsupported('boolean mask indexing')
        raise Unsupported('index %r' % (k,))
    if adv:
        out = _advanced(out, adv)
    return out


def _count_after(key, k, seen_first):
    """number of real dims consumed by entries after the first Ellipsis"""
    first = None
    for i, x in enumerate(key):
        if x is Ellipsis:
            first = i
            break
    n = 0
    for x in key[first + 1:]:
        if x is None or x is Ellipsis:
            continue
        n += 1
    return n


def _norm_index(i, size):
    """python/SInt index -> T in [0,size); negative constants wrap; symbolic indices are required
    to be in range (obligation)."""
    i = norm_int(i)
    if isinstance(i, int):
        if i < 0:
            return tm.add(ti(size), tm.const(i, 'I'))
        c = Ctx.current
        if isinstance(norm_int(size), int):
            if i >= norm_int(size):
                raise IndexError('index %d is out of bounds for dimension with size %s' % (i, size))
        elif c is not None:
            c.oblige('bounds', 'index in range', tm.lt(tm.const(i, 'I'), ti(size)))
        return tm.const(i, 'I')
    c = Ctx.current
    if c is not None:
        c.oblige('bounds', 'index in range', tm.and_(tm.le(tm.IZERO, i), tm.lt(i, ti(size))), info='index %s size %s' % (tm.show(i), size))
    return i


def _select(t, d, i):
    size = t._shape[d]
    it = _norm_index(i, size)
    shape = t._shape[:d] + t._shape[d + 1:]
    return t._view(shape, lambda idx: idx[:d] + (it,) + idx[d:],
                   lambda b: (tm.eq(b[d], it), b[:d] + b[d + 1:]))


def _slice(t, d, s):
    size = t._shape[d]
    if s.step not in (None, 1):
        raise Unsupported('slice step')
    if s.start is None and s.stop is None:
        return t

    def bound(v, default):
        if v is None:
            return default
        v = norm_int(v)
        if isinstance(v, int):
            if v < 0:
                return norm_int(tm.add(ti(size), tm.const(v, 'I')))
            return v
        return v
    start = bound(s.start, 0)
    stop = bound(s.stop, size)
    c = Ctx.current
    # constants: clip like Python when the size is concrete; otherwise require 0 <= start <= stop <= size
    if isinstance(start, int) and isinstance(stop, int) and isinstance(norm_int(size), int):
        n = norm_int(size)
        start = _min(_max(start, 0), n)
        stop = _min(_max(stop, start), n)
    elif c is not None:
        c.oblige('bounds', 'slice within range',
                 tm.and_(tm.le(tm.IZERO, ti(start)), tm.le(ti(start), ti(stop)), tm.le(ti(stop), ti(size))),
                 info='slice %s:%s of %s' % (start, stop, size))
    length = norm_int(tm.sub(ti(stop), ti(start)))
    shape = t._shape[:d] + (length,) + t._shape[d + 1:]
    st, sp = ti(start), ti(stop)
    return t._view(shape, lambda idx: idx[:d] + (tm.add(idx[d], st),) + idx[d + 1:],
                   lambda b: (tm.and_(tm.le(st, b[d]), tm.lt(b[d], sp)), b[:d] + (tm.sub(b[d], st),) + b[d + 1:]))


def _advanced(t, adv):
    """Advanced (list / integer tensor) indexing -> fresh copy.  Supports one or several index
    lists of equal (concrete) length acting on distinct dims (numpy semantics for adjacent dims)."""
    if len(adv) != 1:
        raise Unsupported('several advanced indices')
    d, k = adv[0]
    if isinstance(k, Tensor):
        if len(k._shape) != 1:
            raise Unsupported('advanced index tensor of rank != 1')
        n = k._shape[0]
        krd = k.reader()
        pick = lambda j: krd((j,))
    else:
        items = [_norm_index(x, t._shape[d]) for x in k]
        n = len(items)

        def pick(j):
            if j.op == 'const':
                return items[int(j.args[0])]
            r = items[-1]
            for m in reversed(range(len(items) - 1)):
                r = tm.ite(tm.eq(j, tm.const(m, 'I')), items[m], r)
            return r
    rd = t.reader()
    shape = t._shape[:d] + (n,) + t._shape[d + 1:]
    return Tensor.fresh(lambda idx: rd(idx[:d] + (pick(idx[d]),) + idx[d + 1:]), shape, t.dtype, t.deps)


def _setitem(t, key, value):
    if not isinstance(key, tuple):
        key = (key,)
    if len(key) == 1 and isinstance(key[0], Tensor) and key[0].dtype.cat == 0:
        mask = key[0]
        shape = _bcast_shapes([t._shape, mask._shape])
        if len(shape) != len(t._shape) or not _all(same_int(a_, b_) for a_, b_ in zip(shape, t._shape)):
            raise Unsupported('boolean mask assignment with a mask larger than the tensor')
        if isinstance(value, _MaskedSelection):
            # dst[mask] = src[mask]: element-wise conditional copy, in place
            if not _same_mask(mask, value.mask):
                raise Unsupported('boolean mask assignment from a selection under a different mask')
            if not _all(same_int(a_, b_) for a_, b_ in zip(value.src._shape, t._shape)) or len(value.src._shape) != len(t._shape):
                raise Unsupported('boolean mask assignment between different shapes')
            t._assign_all(where(mask, value.src, t), 'masked setitem')
            return
        val = as_tensor_like(value, t)
        if val.numel_static() != 1:
            raise Unsupported('boolean mask assignment of a non-scalar')
        vt = _conv(val.dtype, t.dtype)(val._as_scalar_term())
        rm = _bcast_reader(mask, t._shape)
        if t._inv is False:
            raise TorchRuntimeError('in-place write through an expanded view')
        st = t.storage
        old = st.fn
        inv = t._inv
        if inv is None:
            st.write(lambda b: tm.ite(_truth(rm(b)), vt, old(b)), 'masked setitem')
        else:
            def newfn(b):
                cnd, v_ = inv(b)
                return tm.ite(tm.and_(cnd, _truth(rm(v_))), vt, old(b))
            st.write(newfn, 'masked setitem')
        return
    if _any(isinstance(k, Tensor) and k.dtype.cat == 0 for k in key):
        raise Unsupported('boolean mask assignment')
    if _any(isinstance(k, (list,)) or (isinstance(k, Tensor) and len(k._shape) > 0) for k in key):
        raise Unsupported('advanced-index assignment')
    sub = _getitem(t, key)
    sub._assign_all(value, 'setitem')
    if isinstance(value, Tensor):
        c = Ctx.current
        if c is None or c.grad_enabled:
            t.deps = t.deps | value.deps


# ------------------------------------------------------------------ factories

def broadcast_shapes(*shapes):
    return Size(_bcast_shapes([tuple(sh) for sh in shapes]))


def _shape_arg(size):
    if len(size) == 1 and isinstance(size[0], (tuple, list)):
        size = tuple(size[0])
    return tuple(norm_int(s) for s in size)


def full(size, v, dtype=None, device=None, requires_grad=False):
    if not isinstance(size, (tuple, list)):
        size = (size,)
    shape = _shape_arg(tuple(size))
    if isinstance(v, Tensor):
        t = v._as_scalar_term()
        dt = dtype or v.dtype
    else:
        t = lift(v)
        dt = dtype or (get_default_dtype() if t.sort == 'R' else (int64 if t.sort == 'I' else bool_))
    if dt.cat == 2:
        t = tm.toreal(t) if t.sort != 'B' else tm.ite(t, tm.ONE, tm.ZERO)
    elif dt.cat == 1 and t.sort == 'R':
        t = tm.floor(t)
    return Tensor.fresh(lambda idx: t, shape, dt)


def zeros(*size, dtype=None, device=None, requires_grad=False):
    return full(_shape_arg(size), 0.0 if (dtype or get_default_dtype()).cat == 2 else 0, dtype=dtype or get_default_dtype())


def ones(*size, dtype=None, device=None, requires_grad=False):
    return full(_shape_arg(size), 1.0 if (dtype or get_default_dtype()).cat == 2 else 1, dtype=dtype or get_default_dtype())


def empty(*size, dtype=None, device=None, requires_grad=False):
    """Assumed contract: arbitrary (unspecified) contents - a fresh uninterpreted input."""
    shape = _shape_arg(size)
    c = ctx()
    name = 'uninit%d' % next(c.fresh_counter)
    return Tensor.input(name, shape, dtype or get_default_dtype(), origin='fresh')


def zeros_like(t, dtype=None, device=None):
    return full(t._shape, 0.0 if (dtype or t.dtype).cat == 2 else (False if (dtype or t.dtype).cat == 0 else 0), dtype=dtype or t.dtype)


def ones_like(t, dtype=None, device=None):
    return full(t._shape, 1.0 if (dtype or t.dtype).cat == 2 else (True if (dtype or t.dtype).cat == 0 else 1), dtype=dtype or t.dtype)


def full_like(t, v, dtype=None, device=None):
    return full(t._shape, v, dtype=dtype or t.dtype)


def empty_like(t, dtype=None, device=None):
    return empty(*t._shape, dtype=dtype or t.dtype)


def _infer(data):
    """nested python data -> (shape, flat list of terms, category)"""
    if isinstance(data, Tensor):
        if len(data._shape) == 0:
            return (), [data._as_scalar_term()], data.dtype.cat
        raise Unsupported('tensor inside torch.tensor data')
    if isinstance(data, (list, tuple)):
        parts = [_infer(x) for x in data]
        if not parts:
            return (0,), [], 2
        sh = parts[0][0]
        if _any(p[0] != sh for p in parts):
            raise ValueError('ragged data')
        flat = []
        for p in parts:
            flat.extend(p[1])
        return (len(parts),) + sh, flat, _max(p[2] for p in parts)
    t = lift(data)
    return (), [t], {'B': 0, 'I': 1, 'R': 2}[t.sort]


def tensor(data, dtype=None, device=None, requires_grad=False):
    if hasattr(data, '_as_tensor'):
        r = data._as_tensor()
        return r.to(dtype) if dtype else r
    if isinstance(data, Tensor):
        r = data.detach().clone()
        return r.to(dtype) if dtype else r
    shape, flat, cat = _infer(data)
    dt = dtype or {0: bool_, 1: int64, 2: get_default_dtype()}[cat]
    conv = _conv({0: bool_, 1: int64, 2: float64}[cat], dt)
    flat2 = []
    for x in flat:
        srccat = {'B': 0, 'I': 1, 'R': 2}[x.sort]
        flat2.append(_conv({0: bool_, 1: int64, 2: float64}[srccat], dt)(x))
    strides = []
    acc = 1
    for s in reversed(shape):
        strides.append(acc)
        acc *= s
    strides = list(reversed(strides))

    def f(idx):
        if not shape:
            return flat2[0]
        if _all(i.op == 'const' for i in idx):
            k = _sum(int(i.args[0]) * s for i, s in zip(idx, strides))
            return flat2[k]
        # symbolic index into literal data: ite chain
        lin = tm.add(*[tm.mul(i, tm.const(s, 'I')) for i, s in zip(idx, strides)]) if len(idx) > 1 else idx[0]
        r = flat2[-1]
        for k in reversed(range(len(flat2) - 1)):
            r = tm.ite(tm.eq(lin, tm.const(k, 'I')), flat2[k], r)
        return r
    r = Tensor.fresh(f, shape, dt)
    if requires_grad:
        r.requires_grad_()
    return r


def as_tensor(data, dtype=None, device=None):
    if isinstance(data, Tensor):
        return data.to(dtype) if dtype is not None else data
    return tensor(data, dtype=dtype)


def arange(*args, dtype=None, device=None):
    if len(args) == 1:
        start, end = 0, args[0]
    elif len(args) == 2:
        start, end = args
    else:
        raise Unsupported('arange with step')
    start, end = norm_int(start), norm_int(end)
    n = norm_int(tm.sub(ti(end), ti(start)))
    c = Ctx.current
    if isinstance(n, int):
        if n < 0:
            raise TorchRuntimeError('upper bound and larger bound inconsistent with step sign')
    elif c is not None:
        c.oblige('pre', 'arange: end >= start', tm.ge(ti(end), ti(start)))
    dt = dtype or int64
    st = ti(start)
    if dt.cat == 2:
        f = lambda idx: tm.toreal(tm.add(idx[0], st))
    else:
        f = lambda idx: tm.add(idx[0], st)
    return Tensor.fresh(f, (n,), dt)


def cat(tensors, dim=0):
    tensors = list(tensors)
    if not tensors:
        raise TorchRuntimeError('cat of an empty list')
    nd = len(tensors[0]._shape)
    d = tensors[0]._dim(dim)
    for t in tensors[1:]:
        if len(t._shape) != nd:
            raise TorchRuntimeError('cat: ranks differ')
        for k in range(nd):
            if k != d and not same_int(t._shape[k], tensors[0]._shape[k]):
                raise TorchRuntimeError('Sizes of tensors must match except in dimension %d' % d)
    dt = result_dtype([(t, False) for t in tensors])
    offs = [0]
    for t in tensors:
        offs.append(_add_int(offs[-1], t._shape[d]))
    shape = tensors[0]._shape[:d] + (offs[-1],) + tensors[0]._shape[d + 1:]
    rds = [t.reader() for t in tensors]
    convs = [_conv(t.dtype, dt) for t in tensors]

    def f(idx):
        i = idx[d]
        if i.op == 'const' and _all(isinstance(o, int) for o in offs):
            for k in range(len(tensors)):
                if offs[k] <= i.args[0] < offs[k + 1]:
                    return convs[k](rds[k](idx[:d] + (tm.const(int(i.args[0]) - offs[k], 'I'),) + idx[d + 1:]))
        r = None
        for k in reversed(range(len(tensors))):
            val = convs[k](rds[k](idx[:d] + (tm.sub(i, ti(offs[k])),) + idx[d + 1:]))
            r = val if r is None else tm.ite(tm.lt(i, ti(offs[k + 1])), val, r)
        return r
    deps = frozenset().union(*[t.deps for t in tensors])
    return Tensor.fresh(f, shape, dt, deps)


def stack(tensors, dim=0):
    if getattr(tensors, 'pfv_stack', False):
        # a list of symbolic length havocked by a cut loop (cutloops.SymStack): rows 0..L-1 are one tensor already
        if dim != 0:
            raise Unsupported('stack of a list of symbolic length along dim %r' % (dim,))
        phys = list(tensors)
        return cat([phys[0]] + [t.unsqueeze(0) for t in phys[1:]], dim=0)
    tensors = list(tensors)
    d = tensors[0]._dim(dim, extra=1)
    return cat([t.unsqueeze(d) for t in tensors], dim=d)


def broadcast_tensors(*ts):
    shape = _bcast_shapes([t._shape for t in ts])
    return tuple(t.expand(*shape) for t in ts)


def broadcast_all(*values):
    """torch.distributions.utils.broadcast_all"""
    if not _any(isinstance(v, Tensor) for v in values):
        values = [tensor(_pyfloat(v) if isinstance(v, (int, _pyfloat)) else v, dtype=get_default_dtype()) for v in values]
    else:
        like = next(v for v in values if isinstance(v, Tensor))
        values = [v if isinstance(v, Tensor) else tensor(v if is_symbolic(v) else _pyfloat(v), dtype=like.dtype) for v in values]
    return broadcast_tensors(*values)


# ------------------------------------------------------------------ random sources (assumed i.i.d.)

def _random(kind, shape, dtype):
    c = ctx()
    k = _sum(1 for e in c.events if e[0] == 'random')
    name = '%s%d' % (kind, k)
    c.event('random', kind, name, tuple(shape), (dtype or get_default_dtype()).name)
    return Tensor.input(name, shape, dtype or get_default_dtype(), origin='fresh')


def randn(*size, dtype=None, device=None, generator=None, requires_grad=False):
    return _random('Z', _shape_arg(size), dtype)


def rand(*size, dtype=None, device=None, generator=None):
    return _random('U', _shape_arg(size), dtype)


def randn_like(t, dtype=None, device=None):
    return _random('Z', t._shape, dtype or t.dtype)


def rand_like(t, dtype=None, device=None):
    return _random('U', t._shape, dtype or t.dtype)


def poisson(input, generator=None):
    """assumed contract of torch.poisson: element-wise Poisson(input) draws, same shape AND dtype as `input`"""
    r = input.at(tuple(tm.IZERO for _ in input._shape))
    if r.op == 'const' and r.args[0] == 0:
        return zeros(*input._shape, dtype=input.dtype)          # Poisson(0) is identically 0
    t = _random('Pois', input._shape, input.dtype)
    ctx().event('poisson_rate', t.name, r)
    return t


def randperm(n, **k):
    raise Unsupported('randperm')


def manual_seed(s):
    return None


# ------------------------------------------------------------------ symbolic autograd

def _make_leaf(t):
    """requires_grad_() on a tensor: its elements become the differentiation variable.  Supported
    for tensors whose element term does not depend on the index in a way that matters: we create
    a leaf variable L(idx) and remember its definition."""
    c = ctx()
    n = _sum(1 for e in c.events if e[0] == 'leaf')
    name = 'L%d' % n
    rd = t.reader()
    shape = t._shape
    if len(shape) == 0:
        v = tm.var(name, 'R')
        t.storage = Storage(lambda idx: v, shape, 'leaf:' + name)
        defs = {v: rd(())}
    else:
        t.storage = Storage(lambda idx: tm.sel(name, *idx), shape, 'leaf:' + name)
        defs = None
    t._fwd = None
    t._inv = None
    t._leaf = {'name': name, 'def': rd, 'defs0': defs}
    c.leafdefs[name] = (len(shape), rd)
    # the leaf's value is the value it was created from
    if len(shape) == 0:
        c.assume(tm.eq(tm.var(name, 'R'), rd(())))
    else:
        idx = tuple(c.fresh('li', 'I') for _ in shape)
        body = tm.eq(tm.sel(name, *idx), rd(idx))
        for i, sdim in reversed(list(zip(idx, shape))):
            body = tm.forall(i, tm.IZERO, ti(sdim), body)
        c.assume(body)
    t.deps = t.deps | frozenset(['leaf:' + name])
    c.event('leaf', name)


def autograd_grad(outputs, inputs, grad_outputs=None, create_graph=False, retain_graph=None, allow_unused=False):
    """Assumed contract: returns d(sum_j grad_outputs_j * outputs_j)/d inputs for the recorded graph,
    the graph computing true derivatives.  Executable form: symbolic differentiation of the element
    term w.r.t. the leaf variable, under the precondition that outputs[idx] depends on inputs only
    through inputs[idx] (element-wise pricer), which is checked on the term."""
    from .. import diff as D
    single = isinstance(inputs, Tensor)
    ins = [inputs] if single else list(inputs)
    out = outputs[0] if isinstance(outputs, (tuple, list)) else outputs
    go = grad_outputs[0] if isinstance(grad_outputs, (tuple, list)) else grad_outputs
    res = []
    for x in ins:
        if x._leaf is None:
            if x.deps:
                raise Unsupported('autograd.grad with respect to a non-leaf tensor')
            raise TorchRuntimeError('One of the differentiated Tensors does not require grad')
        name = x._leaf['name']
        if ('leaf:' + name) not in out.deps:
            if allow_unused:
                res.append(None)
                continue
            raise TorchRuntimeError('One of the differentiated Tensors appears to not have been used in the graph')
        shape = _bcast_shapes([out._shape, x._shape])
        ro = _bcast_reader(out, shape)
        rg = _bcast_reader(go, shape) if go is not None else (lambda idx: tm.ONE)
        xs = x._shape
        if len(shape) != len(xs) or not _all(same_int(a, b) for a, b in zip(shape, xs)):
            raise Unsupported('autograd.grad through a broadcast of the input')

        def f(idx, ro=ro, rg=rg, name=name, xs=xs):
            leaf = tm.var(name, 'R') if not xs else tm.sel(name, *idx)
            term = ro(idx)
            if xs:
                for (_, acc) in tm.accesses(term):
                    if acc.args[0] == name and tuple(acc.args[1:]) != tuple(idx):
                        raise Unsupported('autograd.grad of a non element-wise function of the leaf')
            return tm.mul(rg(idx), D.diff(term, leaf))
        deps = out.deps if create_graph else frozenset()
        r = Tensor.fresh(f, xs, x.dtype, deps)
        r._grad_of = name
        res.append(r)
    return tuple(res)


def inline_leaves(term, c):
    """Replace leaf variables / leaf reads by the values the leaves were created from."""
    defs = getattr(c, 'leafdefs', {})
    if not defs:
        return term
    for _ in range(6):
        m = {}
        for u in tm.subterms(term):
            if u.op == 'var' and u.args[0] in defs and defs[u.args[0]][0] == 0:
                m[u] = defs[u.args[0]][1](())
            elif u.op == 'sel' and u.args[0] in defs:
                m[u] = defs[u.args[0]][1](tuple(u.args[1:]))
        if not m:
            return term
        term = tm.subst(term, m)
    return term
