"""install(): put the contract shim into sys.modules as `torch` (and `tqdm`) BEFORE pfhedge is
imported, so that the real pfhedge package from /repo runs on symbolic lambda tensors."""
import sys
import types

from . import tensor as tt
from . import nn as tn
from ..proxies import symmath, Unsupported

_installed = [False]


def _mod(name, **attrs):
    m = types.ModuleType(name)
    m.__dict__.update(attrs)
    sys.modules[name] = m
    return m


def _guard_c_level_int_conversions():
    """operator.index() (CPython >= 3.10) copies the C-level value of an int SUBCLASS instead of calling __index__: for a symbolic
    integer that value is a meaningless 0.  A symbolic integer is returned as it is (the index of an integer is that integer); other symbolic values refuse."""
    import operator
    if getattr(operator.index, '_pfv_guard', False):
        return
    orig = operator.index

    def index(a):
        if hasattr(a, '_term'):
            if isinstance(a, int):
                return a                    # the index of an integer is that integer: stays symbolic
            return a.__index__()
        return orig(a)
    index._pfv_guard = True
    operator.index = index


def install():
    if _installed[0]:
        return sys.modules['torch']
    _guard_c_level_int_conversions()
    if 'torch' in sys.modules and not getattr(sys.modules['torch'], '_pfv_shim', False):
        raise RuntimeError('real torch already imported; the verifier must run without it')
    T = tt
    torch = _mod('torch', _pfv_shim=True, __version__='2.0.0+pfvshim', __path__=[])
    names = ['Tensor', 'Size', 'dtype', 'device', 'memory_format', 'finfo', 'float16', 'half', 'bfloat16', 'float32',
             'float64', 'double', 'int32', 'int64', 'long', 'get_default_dtype', 'set_default_dtype',
             'promote_types', 'where', 'lerp', 'maximum', 'minimum', 'clamp', 'full', 'zeros', 'ones', 'empty',
             'zeros_like', 'ones_like', 'full_like', 'empty_like', 'tensor', 'as_tensor', 'arange', 'cat', 'stack',
             'broadcast_tensors', 'broadcast_shapes', 'randn', 'rand', 'randn_like', 'rand_like', 'randperm', 'poisson', 'manual_seed',
             'logsumexp', 'topk', 'quantile', 'matmul']
    for n in names:
        setattr(torch, n, getattr(T, n))
    torch.float = T.float32
    torch.bool = T.bool_
    torch.int = T.int32
    torch.concat = T.cat
    torch.concatenate = T.cat

    def _m(name):
        def f(x, *a, **k):
            if not isinstance(x, T.Tensor):
                x = T.as_tensor(x)
            return getattr(x, name)(*a, **k)
        f.__name__ = name
        return f
    for n in ['exp', 'log', 'sqrt', 'abs', 'square', 'cos', 'sin', 'sum', 'mean', 'amax', 'amin', 'cumsum', 'cumprod',
              'prod', 'diff', 'flatten', 'unsqueeze', 'squeeze', 'transpose', 'flip', 'relu', 'neg', 'sign',
              'isnan', 'isfinite', 'logical_and', 'logical_or', 'logical_not', 'all', 'any', 'clone', 'detach',
              'cummax', 'cummin', 'numel', 'pow', 'mul', 'add', 'sub', 'div']:
        setattr(torch, n, _m(n))

    def tmax(x, *a, **k):
        return x.max(*a, **k)

    def tmin(x, *a, **k):
        return x.min(*a, **k)
    torch.max, torch.min = tmax, tmin

    def allclose(a, b, rtol=1e-05, atol=1e-08, equal_nan=False):
        # documented contract of torch.allclose: every element satisfies |a - b| <= atol + rtol * |b|
        return ((a - b).abs() <= atol + rtol * b.abs()).all()

    def isclose(a, b, rtol=1e-05, atol=1e-08, equal_nan=False):
        return (a - b).abs() <= atol + rtol * b.abs()
    torch.allclose, torch.isclose = allclose, isclose
    torch.is_tensor = lambda x: isinstance(x, T.Tensor)
    torch.Size = T.Size
    torch.is_floating_point = lambda x: x.is_floating_point()
    torch.typename = lambda o: type(o).__name__
    torch.set_grad_enabled = tn.set_grad_enabled
    torch.enable_grad = tn.enable_grad
    torch.no_grad = tn.no_grad
    torch.is_grad_enabled = tn.is_grad_enabled
    torch.get_default_device = lambda: T.CPU

    # torch._C
    def _parse_to(*args, **kwargs):
        dev = kwargs.get('device')
        dt = kwargs.get('dtype')
        for a in args:
            if isinstance(a, T.dtype):
                dt = a
            elif isinstance(a, (T.device, str)):
                dev = T.device(a)
            elif isinstance(a, T.Tensor):
                dt, dev = a.dtype, a.device
            elif a is None:
                pass
            else:
                raise TypeError('to() received an invalid combination of arguments')
        if isinstance(dev, str):
            dev = T.device(dev)
        return dev, dt, False, None
    _nn = _mod('torch._C._nn', _parse_to=_parse_to)
    _C = _mod('torch._C', _nn=_nn, _get_default_device=lambda: 'cpu')
    torch._C = _C
    torch.cuda = _mod('torch.cuda', is_available=lambda: False, current_device=lambda: 0, device_count=lambda: 0)

    class _Formatter:
        def __init__(self, t):
            pass

        def format(self, v):
            return repr(v)
    torch._tensor_str = _mod('torch._tensor_str', _Formatter=_Formatter)

    # autograd
    torch.autograd = _mod('torch.autograd', grad=T.autograd_grad)

    # nn
    nn = _mod('torch.nn', Module=tn.Module, Identity=tn.Identity, ReLU=tn.ReLU, Linear=tn.Linear,
              LazyLinear=tn.LazyLinear, Sequential=tn.Sequential, MSELoss=tn.MSELoss, Parameter=tn.ParameterType,
              __path__=[])
    nn.functional = _mod('torch.nn.functional', relu=tn.relu, conv1d=tn.conv1d, softplus=tn.softplus)
    nn.parameter = _mod('torch.nn.parameter', Parameter=tn.ParameterType, is_lazy=tn.is_lazy)
    torch.nn = nn
    # optim
    torch.optim = _mod('torch.optim', Optimizer=tn.Optimizer, Adam=tn.Adam, SGD=tn.SGD)
    # distributions
    dist = _mod('torch.distributions', __path__=[])
    dist.normal = _mod('torch.distributions.normal', Normal=tn.Normal)
    dist.utils = _mod('torch.distributions.utils', broadcast_all=T.broadcast_all)
    dist.poisson = _mod('torch.distributions.poisson', Poisson=tn.Poisson)
    dist.exponential = _mod('torch.distributions.exponential', Exponential=tn.Exponential)
    dist.uniform = _mod('torch.distributions.uniform', Uniform=tn.Uniform)
    dist.multivariate_normal = _mod('torch.distributions.multivariate_normal', MultivariateNormal=tn.MultivariateNormal)
    dist.Normal = tn.Normal
    torch.distributions = dist
    torch.quasirandom = _mod('torch.quasirandom', SobolEngine=tn.SobolEngine)

    def assert_close(*a, **k):
        raise Unsupported('torch.testing.assert_close')
    torch.testing = _mod('torch.testing', assert_close=assert_close)

    # tqdm: assumed contract - iterates exactly its iterable
    class tqdm:
        def __init__(self, iterable=None, **kw):
            self.iterable = iterable
            self.desc = ''

        def __iter__(self):
            return iter(self.iterable)
    _mod('tqdm', tqdm=tqdm)
    _installed[0] = True
    return torch


def _guarded_range(*args):
    import builtins
    from ..proxies import Unsupported
    if any(hasattr(a, '_term') for a in args):
        raise Unsupported('range() over a symbolic integer outside a declared loop')
    return builtins.range(*args)


def import_pfhedge(repo=None):
    """Import the real package from `repo` against the shim, with the names its modules bind from
    `math` (`ceil`, `floor`, `math.exp` ...) rebound to proxies-aware versions."""
    import os
    repo = repo or os.environ.get('PFV_REPO', '/repo')
    install()
    sys.path[:] = [p for p in sys.path if p != repo]
    sys.path.insert(0, repo)
    import importlib
    pf = importlib.import_module('pfhedge')
    if not os.path.abspath(pf.__file__).startswith(os.path.abspath(repo) + os.sep):
        raise RuntimeError('pfhedge imported from %s, expected %s' % (pf.__file__, repo))
    import pfhedge.nn, pfhedge.instruments, pfhedge.features, pfhedge.stochastic, pfhedge.autogreek  # noqa
    import math as _math
    for name, mod in list(sys.modules.items()):
        if not name.startswith('pfhedge') or mod is None:
            continue
        d = mod.__dict__
        if d.get('math') is _math:
            d['math'] = symmath
        if d.get('ceil') is _math.ceil:
            d['ceil'] = symmath.ceil
        if d.get('floor') is _math.floor:
            d['floor'] = symmath.floor
        # `int(...)` / `float(...)` applied to symbolic values (quadratic_cvar's precision, fit's loss.item())
        from ..proxies import symint, symfloat
        d.setdefault('int', symint)
        d.setdefault('float', symfloat)
        # builtin range() reads the C-level value of an int subclass (0 for a symbolic integer) instead of calling __index__: a loop or
        # comprehension over range(<symbolic>) outside a declared (cut) loop would silently run zero times.  Refuse instead.
        d.setdefault('range', _guarded_range)
    return pf
