"""torch.nn contract shim: Module (attribute plumbing, buffers, hooks, train/eval as ghost
events), Parameter, Linear/ReLU/Identity/Sequential/LazyLinear, Optimizer/Adam, distributions."""
from collections import OrderedDict
import itertools

from .. import terms as tm
from ..proxies import Ctx, ctx, Unsupported, lift
from . import tensor as tt
from .tensor import Tensor, Parameter, TorchRuntimeError


def make_parameter(name, shape, dtype=None):
    p = Tensor.input(name, shape, dtype or tt.get_default_dtype(), origin='param:' + name)
    p.__class__ = Parameter
    p.deps = frozenset([name])
    p.requires_grad = True
    p.is_leaf_param = True
    p.pname = name
    p.lazy = False
    return p


def ParameterCtor(data=None, requires_grad=True):
    """torch.nn.parameter.Parameter(tensor): a leaf connected to itself."""
    c = ctx()
    n = sum(1 for e in c.events if e[0] == 'param')
    name = 'P%d' % n
    c.event('param', name)
    rd = data.reader()
    p = Tensor.fresh(rd, data._shape, data.dtype, origin='param:' + name)
    p.__class__ = Parameter
    p.deps = frozenset([name]) if requires_grad else frozenset()
    p.requires_grad = requires_grad
    p.is_leaf_param = True
    p.pname = name
    p.lazy = False
    return p


class _ParameterMeta(type):
    def __instancecheck__(cls, obj):
        return isinstance(obj, Tensor) and getattr(obj, 'is_leaf_param', False)

    def __call__(cls, data=None, requires_grad=True):
        return ParameterCtor(data, requires_grad)


class ParameterType(metaclass=_ParameterMeta):
    pass


def is_lazy(p):
    return bool(getattr(p, 'lazy', False))


class Module:
    training = True

    def __init__(self, *args, **kwargs):
        object.__setattr__(self, 'training', True)
        object.__setattr__(self, '_parameters', OrderedDict())
        object.__setattr__(self, '_buffers', OrderedDict())
        object.__setattr__(self, '_modules', OrderedDict())
        object.__setattr__(self, '_forward_hooks', OrderedDict())
        object.__setattr__(self, '_non_persistent_buffers_set', set())

    def forward(self, *a, **k):
        raise NotImplementedError

    def __call__(self, *args, **kwargs):
        c = Ctx.current
        result = self.forward(*args, **kwargs)
        for hook in list(self._forward_hooks.values()):
            r = hook(self, args, result)
            if r is not None:
                result = r
        return result

    def __setattr__(self, name, value):
        d = self.__dict__
        if isinstance(value, Tensor) and getattr(value, 'is_leaf_param', False):
            if '_parameters' not in d:
                raise AttributeError('cannot assign parameters before Module.__init__() call')
            d.pop(name, None)
            self._parameters[name] = value
        elif isinstance(value, Module):
            if '_modules' not in d:
                raise AttributeError('cannot assign module before Module.__init__() call')
            d.pop(name, None)
            self._modules[name] = value
        elif '_buffers' in d and name in d['_buffers']:
            if value is not None and not isinstance(value, Tensor):
                raise TypeError('cannot assign non-tensor to buffer')
            self._buffers[name] = value
        elif '_parameters' in d and name in d['_parameters']:
            if value is not None:
                raise TypeError('cannot assign non-parameter to parameter')
            self._parameters[name] = value
        else:
            object.__setattr__(self, name, value)

    def __getattr__(self, name):
        d = self.__dict__
        for tab in ('_parameters', '_buffers', '_modules'):
            if tab in d and name in d[tab]:
                return d[tab][name]
        raise AttributeError("'%s' object has no attribute '%s'" % (type(self).__name__, name))

    def __delattr__(self, name):
        for tab in ('_parameters', '_buffers', '_modules'):
            if name in self.__dict__.get(tab, {}):
                del self.__dict__[tab][name]
                return
        object.__delattr__(self, name)

    def register_buffer(self, name, tensor, persistent=True):
        if '_buffers' not in self.__dict__:
            raise AttributeError('cannot assign buffer before Module.__init__() call')
        if not isinstance(name, str):
            raise TypeError('buffer name should be a string')
        if '.' in name:
            raise KeyError('buffer name can\'t contain "."')
        if name == '':
            raise KeyError('buffer name can\'t be empty string ""')
        if hasattr(self, name) and name not in self._buffers:
            raise KeyError("attribute '%s' already exists" % name)
        if tensor is not None and not isinstance(tensor, Tensor):
            raise TypeError('cannot assign non-tensor object to buffer')
        self._buffers[name] = tensor
        c = Ctx.current
        if c is not None:
            c.event('register_buffer', id(self), name)

    def get_buffer(self, name):
        if name in self._buffers:
            return self._buffers[name]
        raise AttributeError(type(self).__name__ + ' has no buffer named ' + name)

    def register_parameter(self, name, p):
        self._parameters[name] = p

    def add_module(self, name, module):
        self._modules[name] = module

    register_module = add_module

    def register_forward_hook(self, hook):
        k = len(self._forward_hooks)
        self._forward_hooks[k] = hook
        return k

    def named_parameters(self, prefix='', recurse=True):
        for n, p in self._parameters.items():
            if p is not None:
                yield (prefix + n, p)
        if recurse:
            for mn, m in self._modules.items():
                if m is not None:
                    yield from m.named_parameters(prefix + mn + '.', True)

    def parameters(self, recurse=True):
        for _, p in self.named_parameters(recurse=recurse):
            yield p

    def named_buffers(self, prefix='', recurse=True):
        for n, b in self._buffers.items():
            if b is not None:
                yield (prefix + n, b)
        if recurse:
            for mn, m in self._modules.items():
                if m is not None:
                    yield from m.named_buffers(prefix + mn + '.', True)

    def buffers(self, recurse=True):
        for _, b in self.named_buffers(recurse=recurse):
            yield b

    def children(self):
        return iter([m for m in self._modules.values() if m is not None])

    def named_children(self):
        return iter([(n, m) for n, m in self._modules.items() if m is not None])

    def modules(self):
        yield self
        for m in self._modules.values():
            if m is not None:
                yield from m.modules()

    def train(self, mode=True):
        c = Ctx.current
        if c is not None:
            c.event('train' if mode else 'eval', id(self))
        for m in self.modules():
            object.__setattr__(m, 'training', mode)
        return self

    def eval(self):
        return self.train(False)

    def to(self, *a, **k):
        return self

    def float(self):
        return self

    def double(self):
        return self

    def cpu(self):
        return self

    def apply(self, fn):
        for m in self.children():
            m.apply(fn)
        fn(self)
        return self

    def zero_grad(self, set_to_none=True):
        c = Ctx.current
        if c is not None:
            c.event('module.zero_grad', id(self))

    def extra_repr(self):
        return ''

    def _get_name(self):
        return type(self).__name__

    def __repr__(self):
        return type(self).__name__ + '(' + self.extra_repr() + ')'

    def state_dict(self):
        raise Unsupported('state_dict')


class Identity(Module):
    def __init__(self, *a, **k):
        super().__init__()

    def forward(self, input):
        return input


class ReLU(Module):
    def __init__(self, inplace=False):
        super().__init__()

    def forward(self, input):
        return input.relu()


_lin_counter = itertools.count()


class Linear(Module):
    """y[*, o] = sum_f W[o, f] x[*, f] + b[o]: acts on the last dimension only."""

    def __init__(self, in_features, out_features, bias=True, device=None, dtype=None):
        super().__init__()
        self.in_features, self.out_features = in_features, out_features
        self._k = None
        self._bias = bias
        if in_features:
            self._materialize(in_features, dtype)
        else:
            self._lazy = True

    def _materialize(self, in_features, dtype=None):
        c = ctx()
        k = sum(1 for e in c.events if e[0] == 'linear')
        c.event('linear', k)
        self.in_features = in_features
        self.weight = make_parameter('W%d' % k, (self.out_features, in_features), dtype)
        if self._bias:
            self.bias = make_parameter('b%d' % k, (self.out_features,), dtype)
        self._lazy = False

    def forward(self, x):
        F = x._shape[-1]
        if not isinstance(F, int):
            raise Unsupported('Linear over a symbolic feature dimension')
        if getattr(self, '_lazy', False):
            self._materialize(F, x.dtype)
        if F != self.in_features:
            raise TorchRuntimeError('mat1 and mat2 shapes cannot be multiplied')
        rx, rw = x.reader(), self.weight.reader()
        rb = self.bias.reader() if self._bias else None
        O = self.out_features

        def f(idx):
            o = idx[-1]
            acc = [tm.mul(rw((o, tm.const(j, 'I'))), rx(idx[:-1] + (tm.const(j, 'I'),))) for j in range(F)]
            if rb:
                acc.append(rb((o,)))
            return tm.add(*acc)
        deps = x.deps | self.weight.deps | (self.bias.deps if self._bias else frozenset())
        return Tensor.fresh(f, x._shape[:-1] + (O,), x.dtype, deps)


class LazyLinear(Linear):
    def __init__(self, out_features, bias=True, device=None, dtype=None):
        Module.__init__(self)
        self.in_features, self.out_features = 0, out_features
        self._bias = bias
        self._lazy = True
        c = ctx()
        k = sum(1 for e in c.events if e[0] == 'lazy')
        c.event('lazy', k)
        w = make_parameter('LW%d' % k, (out_features, 0), dtype)
        w.lazy = True
        self.weight = w

    def _materialize(self, in_features, dtype=None):
        del self._parameters['weight']
        Linear._materialize(self, in_features, dtype)


class Sequential(Module):
    def __init__(self, *mods):
        super().__init__()
        if len(mods) == 1 and isinstance(mods[0], OrderedDict):
            for n, m in mods[0].items():
                self.add_module(n, m)
        else:
            for i, m in enumerate(mods):
                self.add_module(str(i), m)

    def forward(self, x):
        for m in self._modules.values():
            x = m(x)
        return x

    def __len__(self):
        return len(self._modules)

    def __iter__(self):
        return iter(self._modules.values())

    def __getitem__(self, i):
        return list(self._modules.values())[i]


class MSELoss(Module):
    def __init__(self, *a, **k):
        super().__init__()

    def forward(self, x, y):
        return (x - y).square().mean()


# ------------------------------------------------------------------ functional

def relu(x, inplace=False):
    return x.relu()


def conv1d(*a, **k):
    raise Unsupported('conv1d')


def softplus(x, *a, **k):
    raise Unsupported('softplus')


# ------------------------------------------------------------------ optimisers (ghost events only)

class Optimizer:
    def __init__(self, params=None, defaults=None, **kw):
        self.param_groups = [{'params': list(params) if params is not None else []}]
        c = Ctx.current
        if c is not None:
            c.event('optimizer.init', type(self).__name__, tuple(getattr(p, 'pname', '?') for p in self.param_groups[0]['params']))

    def zero_grad(self, set_to_none=True):
        ctx().event('zero_grad', id(self))

    def step(self, closure=None):
        ctx().event('step', id(self))


class Adam(Optimizer):
    pass


class SGD(Optimizer):
    pass


# ------------------------------------------------------------------ distributions

class Normal:
    def __init__(self, loc, scale, validate_args=None):
        self.loc, self.scale = loc, scale
        if not (_is0(loc) and _is1(scale)):
            raise Unsupported('Normal with non-standard parameters')

    def cdf(self, x):
        return tt._ew1(lambda a: tm.app('ncdf', a), x, floatout=True)

    def log_prob(self, x):
        r = tt._ew1(lambda a: tm.app('log', tm.app('npdf', a)), x, floatout=True)
        r._logprob_of = x
        return r

    def sample(self, shape=()):
        return tt.randn(*shape)


def _is0(v):
    return (isinstance(v, (int, float)) and v == 0) or (isinstance(v, Tensor) and v._as_scalar_term() is tm.ZERO)


def _is1(v):
    return (isinstance(v, (int, float)) and v == 1) or (isinstance(v, Tensor) and v._as_scalar_term() is tm.ONE)


class Poisson:
    """Assumed contract: i.i.d. Poisson(rate) integers >= 0 as floats; identically 0 for rate 0."""

    def __init__(self, rate, validate_args=None):
        self.rate = rate

    def sample(self, shape=()):
        r = lift(self.rate) if not isinstance(self.rate, Tensor) else self.rate._as_scalar_term()
        shape = tuple(shape)
        if r.op == 'const' and r.args[0] == 0:
            return tt.zeros(*shape)
        t = tt._random('Pois', shape, None)
        c = ctx()
        c.event('poisson_rate', t.name, r)
        return t


class Exponential:
    def __init__(self, rate, validate_args=None):
        self.rate = rate

    def sample(self, shape=()):
        t = tt._random('Expo', tuple(shape), None)
        ctx().event('exponential_rate', t.name, lift(self.rate))
        return t


class Uniform:
    def __init__(self, low, high, validate_args=None):
        self.low, self.high = low, high

    def sample(self, shape=()):
        return tt._random('U', tuple(shape), None)


class MultivariateNormal:
    def __init__(self, loc, covariance_matrix=None, **k):
        self.loc, self.cov = loc, covariance_matrix

    def sample(self, shape=()):
        shape = tuple(shape) + (self.loc._shape[0],)
        t = tt._random('MVN', shape, self.loc.dtype)
        ctx().event('mvn_cov', t.name, self.cov)
        return t


class SobolEngine:
    def __init__(self, dimension, scramble=False, seed=None):
        self.dimension = dimension

    def draw(self, n, dtype=None):
        t = tt._random('Sobol', (tt.norm_int(n), self.dimension), dtype)
        return t


# ------------------------------------------------------------------ grad mode

class set_grad_enabled:
    def __init__(self, mode):
        self.mode = bool(mode)
        c = Ctx.current
        self.prev = c.grad_enabled if c is not None else True
        if c is not None:
            c.grad_enabled = self.mode
            c.event('grad_mode', self.mode)

    def __enter__(self):
        return self

    def __exit__(self, *a):
        c = Ctx.current
        if c is not None:
            c.grad_enabled = self.prev
            c.event('grad_mode', self.prev)
        return False

    def __call__(self, fn):
        mode = self.mode
        # used as decorator factory instance: restore what __init__ changed, apply per call
        c = Ctx.current
        if c is not None:
            c.grad_enabled = self.prev

        def wrapped(*a, **k):
            with set_grad_enabled(mode):
                return fn(*a, **k)
        wrapped.__wrapped__ = fn
        wrapped.__name__ = getattr(fn, '__name__', 'wrapped')
        wrapped.__doc__ = getattr(fn, '__doc__', None)
        return wrapped


def enable_grad():
    return set_grad_enabled(True)


def no_grad():
    return set_grad_enabled(False)


def is_grad_enabled():
    c = Ctx.current
    return c.grad_enabled if c is not None else True
