"""Lean 4 / Mathlib as the back end for spec-level lemmas.

* `to_lean(term)`  prints a pfv term (the spec side of a contract postcondition) as a Lean expression, so that
  the definitions the Lean theorems talk about are tied to the contract terms by a GLUE theorem that Lean itself
  checks on every run (`glue_theorem`): the text is generated, never transcribed.
* `LeanJob`  compiles one Lean file (plus generated glue and `#print axioms` for every theorem) in a
  subprocess started before the obligation pool forks; obligations poll its result.

Sorts: pfv 'I' variables are printed as naturals (sizes, indices, counts), 'R' as reals; `toreal n` is the cast.
"""
import os
import re
import subprocess
import tempfile
import time
from fractions import Fraction

from . import terms as tm

ALLOWED_AXIOMS = {'propext', 'Classical.choice', 'Quot.sound'}


class NotPrintable(Exception):
    pass


def _par(s):
    return '(' + s + ')'


def to_lean(t, fun_names=None):
    """fun_names: {array name -> Lean function name}; bags are printed as `PfRisk.ostat N (fun k => body) j`."""
    fun_names = fun_names or {}

    def nm(v):
        return v.args[0].replace('#', '_').replace('.', '_')

    def go(u):
        op = u.op
        if op == 'const':
            v = u.args[0]
            if isinstance(v, bool):
                return 'True' if v else 'False'
            if u.sort == 'I':
                return str(v) if v >= 0 else _par('-' + str(-v))
            fr = Fraction(v)
            if fr.denominator == 1:
                body = str(abs(fr.numerator))
            else:
                body = '%d / %d' % (abs(fr.numerator), fr.denominator)
            s = '(%s : ℝ)' % body
            return s if fr >= 0 else _par('-' + s)
        if op == 'var':
            return nm(u)
        if op == 'toreal':
            return '(%s : ℝ)' % go(u.args[0])
        if op == 'sel':
            f = fun_names.get(u.args[0], u.args[0])
            return _par(f + ' ' + ' '.join(go(a) for a in u.args[1:]))
        if op == 'app':
            f = u.args[0]
            if f == 'ostat_bot':
                j, bag = u.args[1], u.args[2]
                if bag.op != 'bag':
                    raise NotPrintable('ostat of a non-bag')
                bv, lo, hi, body = bag.args
                if not (lo.op == 'const' and lo.args[0] == 0):
                    raise NotPrintable('bag with a non-zero lower bound')
                return _par('PfRisk.ostat %s (fun %s => %s) %s' % (go(hi), nm(bv), go(body), go(j)))
            table = {'exp': 'Real.exp', 'log': 'Real.log', 'sqrt': 'Real.sqrt'}
            if f in table and len(u.args) == 2:
                return _par('%s %s' % (table[f], go(u.args[1])))
            raise NotPrintable('function %s' % f)
        if op == 'add':
            return _par(' + '.join(go(a) for a in u.args))
        if op == 'mul':
            return _par(' * '.join(go(a) for a in u.args))
        if op == 'neg':
            # integer ceil is stored as -floor(-x)
            a = u.args[0]
            if a.op == 'floor' and a.args[0].op == 'neg':
                return '⌈%s⌉₊' % go(a.args[0].args[0])
            return _par('-' + go(a))
        if op == 'div':
            return _par('%s / %s' % (go(u.args[0]), go(u.args[1])))
        if op == 'pow':
            b, e = u.args
            if e.op == 'const' and e.sort == 'I' and e.args[0] >= 0:
                return _par('%s ^ %d' % (go(b), e.args[0]))
            return _par('%s ^ %s' % (go(b), go(e)))
        if op == 'max':
            return _par('max %s %s' % (go(u.args[0]), go(u.args[1])))
        if op == 'min':
            return _par('min %s %s' % (go(u.args[0]), go(u.args[1])))
        if op == 'sum':
            bv, lo, hi, body = u.args
            if lo.op == 'const' and lo.args[0] == 0:
                return _par('∑ %s ∈ Finset.range %s, %s' % (nm(bv), go(hi), go(body)))
            return _par('∑ %s ∈ Finset.Ico %s %s, %s' % (nm(bv), go(lo), go(hi), go(body)))
        raise NotPrintable('operator %s' % op)
    return go(t)


GLUE_TACTIC = ('  first\n  | rfl\n' + ''.join('  | (congr! %d <;> (first | ring1 | (norm_num; done)))\n' % d for d in range(1, 10))).rstrip('\n')


def glue_theorem(name, binders, lhs, rhs_term, unfold, fun_names=None, simp_extra=()):
    """theorem <name> <binders> : <lhs> = <printed contract term>, closed by unfolding + congruence + ring"""
    rhs = to_lean(rhs_term, fun_names)
    simp = ', '.join(list(unfold) + list(simp_extra))
    return 'theorem %s %s :\n    %s = %s := by\n  try simp only [%s]\n%s\n' % (name, binders, lhs, rhs, simp, GLUE_TACTIC)


def theorem_names(text):
    return re.findall(r'^theorem\s+([A-Za-z_][A-Za-z0-9_\']*)', text, flags=re.M)


def scan_forbidden(text):
    """mechanical scan for proof holes / added axioms outside comments"""
    code = re.sub(r'/-.*?-/', '', text, flags=re.S)
    code = re.sub(r'--.*', '', code)
    return sorted(set(re.findall(r'\b(sorry|admit|axiom|native_decide|unsafe|implemented_by|extern)\b', code)))


class LeanJob:
    """compile <file> + glue + `#print axioms` in the background; results parsed per theorem"""

    def __init__(self, path, glue_text='', namespace='PfRisk', timeout=1500):
        self.path = path
        self.src = open(path).read()
        self.names = theorem_names(self.src)
        self.glue_names = theorem_names(glue_text)
        self.forbidden = scan_forbidden(self.src)
        self.dir = tempfile.mkdtemp(prefix='pfv-lean-')
        body = self.src
        if glue_text:
            body += '\n\nset_option linter.unusedTactic false\nset_option linter.unreachableTactic false\nset_option linter.unnecessarySeqFocus false\n'
            body += '\nnamespace PfGlue\nopen Finset BigOperators\n\n' + glue_text + '\nend PfGlue\n'
        body += '\n' + '\n'.join('#print axioms %s.%s' % (namespace, n) for n in self.names)
        body += '\n' + '\n'.join('#print axioms PfGlue.%s' % n for n in self.glue_names) + '\n'
        self.file = os.path.join(self.dir, os.path.basename(path))
        open(self.file, 'w').write(body)
        self.out = self.file + '.out'
        self.rc = self.file + '.rc'
        self.t0 = time.time()
        self.timeout = timeout
        cmd = 'cd %s && (timeout %d lean %s > %s 2>&1; echo $? > %s.tmp; mv %s.tmp %s)' % (self.dir, timeout, os.path.basename(self.file), self.out, self.rc, self.rc, self.rc)
        self.proc = subprocess.Popen(['bash', '-c', cmd], stdout=subprocess.DEVNULL, stderr=subprocess.DEVNULL)
        self._res = None
        self._pid = os.getpid()
        import atexit
        atexit.register(self.cleanup)

    def cleanup(self):
        if os.getpid() != self._pid:
            return
        try:
            self.proc.wait(timeout=5)
        except Exception:
            try:
                self.proc.kill()
            except Exception:
                pass
        import shutil
        shutil.rmtree(self.dir, ignore_errors=True)

    def result(self):
        """blocks (polling: usable from forked children) until the compiler is done"""
        if self._res is not None:
            return self._res
        while not os.path.exists(self.rc):
            if time.time() - self.t0 > self.timeout + 60:
                self._res = {'rc': None, 'wall': time.time() - self.t0, 'axioms': {}, 'errors': ['lean did not finish'], 'output': ''}
                return self._res
            time.sleep(0.3)
        rc = int(open(self.rc).read().strip() or 1)
        out = open(self.out).read()
        axioms = {}
        for m in re.finditer(r"'([A-Za-z_.0-9']+)' depends on axioms: \[([^\]]*)\]", out):
            axioms[m.group(1)] = [a.strip() for a in m.group(2).replace('\n', ' ').split(',') if a.strip()]
        for m in re.finditer(r"'([A-Za-z_.0-9']+)' does not depend on any axioms", out):
            axioms[m.group(1)] = []
        errors = [l for l in out.splitlines() if ': error' in l]
        self._res = {'rc': rc, 'wall': os.path.getmtime(self.rc) - self.t0, 'axioms': axioms, 'errors': errors, 'output': out[-3000:]}
        return self._res

    def status(self, qualified):
        r = self.result()
        ax = r['axioms'].get(qualified)
        if ax is None:
            return 'unknown', 'not established by lean (rc=%s): %s' % (r['rc'], '; '.join(r['errors'][:3])[:400])
        bad = [a for a in ax if a not in ALLOWED_AXIOMS]
        if bad:
            return 'unknown', 'depends on %s' % bad
        return 'proved', 'axioms: %s' % ax
