"""Extended-real (IEEE-754 style) evaluation of terms, for properties about x/0, 0/0, 0*inf
(C18).  A value is ('fin', T) | ('pinf',) | ('ninf',) | ('nan',).  Signs of finite sub-values are
decided by z3 under the hypotheses; an undetermined sign raises Split(cond) and the driver
explores both cases.  Zero is treated as +0 (stated assumption; validated by the concrete replay
on real torch at every evaluated case)."""
from . import terms as tm
from . import smt
from .terms import T


class Split(Exception):
    def __init__(self, cond):
        self.cond = cond


PINF, NINF, NAN = ('pinf',), ('ninf',), ('nan',)


def fin(t):
    return ('fin', t)


class Eval:
    def __init__(self, hyps, timeout_ms=3000):
        self.hyps = list(hyps)
        self.timeout_ms = timeout_ms
        self._dec = {}

    def holds(self, cond):
        """True / False if decided by hyps, else Split."""
        if cond is tm.TRUE:
            return True
        if cond is tm.FALSE:
            return False
        r = self._dec.get(cond)
        if r is None:
            if smt.check_sat(self.hyps + [tm.not_(cond)], timeout_ms=self.timeout_ms, use_cvc5=False).status == 'unsat':
                r = True
            elif smt.check_sat(self.hyps + [cond], timeout_ms=self.timeout_ms, use_cvc5=False).status == 'unsat':
                r = False
            else:
                r = 'split'
            self._dec[cond] = r
        if r == 'split':
            raise Split(cond)
        return r

    def sign(self, t):
        """-1, 0, +1 of a finite term"""
        z = tm.const(0, t.sort)
        if self.holds(tm.eq(t, z)):
            return 0
        return 1 if self.holds(tm.gt(t, z)) else -1

    # ---- arithmetic on extended values
    def add(self, a, b):
        if a == NAN or b == NAN:
            return NAN
        if a[0] == 'fin' and b[0] == 'fin':
            return fin(tm.add(a[1], b[1]))
        if a[0] == 'fin':
            return b
        if b[0] == 'fin':
            return a
        return a if a == b else NAN

    def neg(self, a):
        if a == NAN:
            return NAN
        if a[0] == 'fin':
            return fin(tm.neg(a[1]))
        return NINF if a == PINF else PINF

    def _sgn(self, a):
        if a[0] == 'fin':
            return self.sign(a[1])
        return 1 if a == PINF else -1

    def mul(self, a, b):
        if a == NAN or b == NAN:
            return NAN
        if a[0] == 'fin' and b[0] == 'fin':
            return fin(tm.mul(a[1], b[1]))
        sa, sb = self._sgn(a), self._sgn(b)
        if sa == 0 or sb == 0:
            return NAN                       # 0 * inf
        return PINF if sa * sb > 0 else NINF

    def div(self, a, b):
        if a == NAN or b == NAN:
            return NAN
        if b[0] == 'fin':
            sb = self.sign(b[1])
            if sb != 0:
                if a[0] == 'fin':
                    return fin(tm.div(a[1], b[1]))
                return a if sb > 0 else self.neg(a)
            # division by (+)0
            sa = self._sgn(a)
            if sa == 0:
                return NAN
            return PINF if sa > 0 else NINF
        # b infinite
        if a[0] == 'fin':
            return fin(tm.ZERO)
        return NAN

    def cmp(self, op, a, b):
        """comparison -> python bool (IEEE: anything with nan is False, != is True)"""
        if a == NAN or b == NAN:
            return op == 'ne'
        if a[0] == 'fin' and b[0] == 'fin':
            c = {'lt': tm.lt, 'le': tm.le, 'eq': tm.eq, 'ne': tm.ne}[op](a[1], b[1])
            return self.holds(c)
        rank = lambda v: {'ninf': -1, 'fin': 0, 'pinf': 1}[v[0]]
        ra, rb = rank(a), rank(b)
        if ra == rb and ra != 0:
            return {'lt': False, 'le': True, 'eq': True, 'ne': False}[op]
        return {'lt': ra < rb, 'le': ra < rb, 'eq': False, 'ne': True}[op]

    def boolean(self, u):
        op = u.op
        if op == 'const':
            return bool(u.args[0])
        if op in ('lt', 'le', 'eq'):
            return self.cmp(op, self.ev(u.args[0]), self.ev(u.args[1]))
        if op == 'not':
            inner = u.args[0]
            if inner.op == 'eq':
                return self.cmp('ne', self.ev(inner.args[0]), self.ev(inner.args[1]))
            return not self.boolean(inner)
        if op == 'and':
            return all(self.boolean(a) for a in u.args)
        if op == 'or':
            return any(self.boolean(a) for a in u.args)
        return self.holds(u)

    def ev(self, u):
        op, a = u.op, u.args
        if op in ('const', 'var', 'sel'):
            return fin(u)
        if op == 'toreal':
            return self.ev(a[0])
        if op == 'add':
            r = self.ev(a[0])
            for x in a[1:]:
                r = self.add(r, self.ev(x))
            return r
        if op == 'neg':
            return self.neg(self.ev(a[0]))
        if op == 'mul':
            r = self.ev(a[0])
            for x in a[1:]:
                r = self.mul(r, self.ev(x))
            return r
        if op == 'div':
            return self.div(self.ev(a[0]), self.ev(a[1]))
        if op == 'pow':
            b = self.ev(a[0])
            e = a[1]
            if e.op == 'const' and e.sort == 'I':
                r = b
                for _ in range(e.args[0] - 1):
                    r = self.mul(r, b)
                return r
            if b[0] == 'fin':
                return fin(tm.powt(b[1], e))
            return NAN
        if op == 'ite':
            return self.ev(a[1]) if self.boolean(a[0]) else self.ev(a[2])
        if op == 'abs':
            x = self.ev(a[0])
            if x == NAN:
                return NAN
            return fin(tm.tabs(x[1])) if x[0] == 'fin' else PINF
        if op in ('max', 'min'):
            x, y = self.ev(a[0]), self.ev(a[1])
            if x == NAN or y == NAN:
                return NAN
            if x[0] == 'fin' and y[0] == 'fin':
                return fin((tm.tmax if op == 'max' else tm.tmin)(x[1], y[1]))
            ge = self.cmp('le', y, x)
            return (x if ge else y) if op == 'max' else (y if ge else x)
        if op == 'app':
            name = a[0]
            if len(a) == 2:
                x = self.ev(a[1])
                if x == NAN:
                    return NAN
                if x[0] == 'fin':
                    xt = x[1]
                    if name == 'sqrt':
                        s = self.sign(xt)
                        if s < 0:
                            return NAN
                        return fin(tm.ZERO) if s == 0 else fin(tm.app('sqrt', xt))
                    if name == 'log':
                        s = self.sign(xt)
                        if s < 0:
                            return NAN
                        return NINF if s == 0 else fin(tm.app('log', xt))
                    return fin(tm.app(name, xt))
                pos = x == PINF
                if name == 'exp':
                    return PINF if pos else fin(tm.ZERO)
                if name == 'ncdf':
                    return fin(tm.ONE) if pos else fin(tm.ZERO)
                if name == 'npdf':
                    return fin(tm.ZERO)
                if name in ('sqrt', 'log'):
                    return PINF if pos else NAN
                if name == 'cbrt':
                    return PINF if pos else NINF
                return NAN
            return fin(u)
        raise ValueError('extreal: op %s' % op)


def cases(term, hyps, depth=0, max_depth=6):
    """[(hyps_of_case, extval)] with the case hypotheses jointly covering hyps."""
    e = Eval(hyps)
    try:
        return [(list(hyps), e.ev(term))]
    except Split as s:
        if depth >= max_depth:
            raise
        out = []
        for br in (s.cond, tm.not_(s.cond)):
            h2 = list(hyps) + [br]
            if smt.check_sat(h2, timeout_ms=3000, use_cvc5=False).status == 'unsat':
                continue
            out.extend(cases(term, h2, depth + 1, max_depth))
        return out
