"""Obligations, runner, verdicts, known findings, evidence, replay plumbing."""
import hashlib
import importlib
import inspect
import json
import multiprocessing as mp
import os
import subprocess
import sys
import time
import traceback

VERIF = os.path.dirname(os.path.dirname(os.path.abspath(__file__)))
REPO = os.environ.get('PFV_REPO', '/repo')
REAL_PY = '/venv/bin/python'
OUT = os.environ.get('PFV_OUT', VERIF)   # where evidence/ and replay/ are written (scratch dir for mutation runs)


class Verdict:
    def __init__(self, status, backend='z3', time_s=0.0, detail='', witness=None, sample=None, replay=None):
        assert status in ('proved', 'refuted', 'unknown'), status
        self.status = status
        self.backend = backend
        self.time_s = time_s
        self.detail = detail
        self.witness = witness        # json-able dict of a counterexample (refuted)
        self.sample = sample          # json-able description of the obligation (for evidence samples)
        self.replay = replay          # dict: result of replaying the witness on the real code

    def to_json(self):
        return {'status': self.status, 'backend': self.backend, 'time_s': round(self.time_s, 4),
                'detail': self.detail[:2000] if isinstance(self.detail, str) else self.detail,
                'witness': self.witness, 'replay': self.replay}


ENGINE_ASSUMPTION = ('executor: a symbolic integer is an `int` subclass (so that isinstance(step, int) takes the real branch); builtin range() over it is refused outside '
                     'declared loops and operator.index() returns it unchanged, other C-level consumers of its value (sequence repetition, slicing a Python list) '
                     'are not guarded - none occurs in the functions under contract; unknown torch operations raise and leave the obligation undecided')


class Obligation:
    def __init__(self, oid, kind, function, check, props, deciding=True, clause='', bounded=False, expect='proved'):
        self.id = oid
        self.kind = kind
        self.function = function      # qualified name of the function under contract ('' for lemmas)
        self.check = check            # () -> Verdict
        self.props = list(props)
        self.deciding = deciding
        self.clause = clause          # the contract clause, human readable
        self.bounded = bounded        # bounded stand-in: never counted as discharged
        self.expect = expect          # 'proved' normally; 'refuted' for canaries

    def run(self):
        t0 = time.time()
        try:
            v = self.check()
        except Exception as e:   # engine failure or unsupported construct: undecided, never a violation
            v = Verdict('unknown', backend='engine', detail='%s: %s\n%s' % (type(e).__name__, e, traceback.format_exc()[-1500:]))
        if not v.time_s:
            v.time_s = time.time() - t0
        return v


def _worker(args):
    i, = args
    ob = _OBS[i]
    v = ob.run()
    return i, v.status, v.backend, v.time_s, v.detail if isinstance(v.detail, str) else json.dumps(v.detail, default=str), v.witness, v.sample, v.replay


_OBS = []


def run_obligations(obs, jobs=None, serial=False):
    """Run all obligations (fork pool); returns list of Verdicts in order."""
    global _OBS
    _OBS = obs
    jobs = jobs or min(16, max(1, len(obs)))
    out = [None] * len(obs)
    if serial or len(obs) <= 1 or os.environ.get('PFV_SERIAL'):
        for i, ob in enumerate(obs):
            out[i] = ob.run()
        return out
    ctx = mp.get_context('fork')
    with ctx.Pool(jobs) as pool:
        for (i, status, backend, time_s, detail, witness, sample, replay) in pool.imap_unordered(_worker, [(i,) for i in range(len(obs))]):
            out[i] = Verdict(status, backend, time_s, detail, witness, sample, replay)
    return out


# ------------------------------------------------------------------ functions under contract

def function_info(qualname):
    """('pfhedge.nn.functional.pl') -> dict(name, file, sha256 of source segment, lines)."""
    parts = qualname.split('.')
    obj = None
    for k in range(len(parts), 0, -1):
        modname = '.'.join(parts[:k])
        try:
            mod = importlib.import_module(modname)
        except Exception:
            continue
        obj = mod
        for p in parts[k:]:
            obj = inspect.getattr_static(obj, p) if not inspect.ismodule(obj) else getattr(obj, p)
        break
    if obj is None:
        return {'name': qualname, 'error': 'not found'}
    target = obj
    if isinstance(target, (staticmethod, classmethod)):
        target = target.__func__
    if isinstance(target, property):
        target = target.fget
    target = inspect.unwrap(target) if callable(target) else target
    try:
        src, line = inspect.getsourcelines(target)
        f = inspect.getsourcefile(target)
        text = ''.join(src)
        return {'name': qualname, 'file': f, 'line': line, 'sha256': hashlib.sha256(text.encode()).hexdigest()[:16], 'lines': len(src)}
    except Exception as e:
        return {'name': qualname, 'error': str(e)}


# ------------------------------------------------------------------ real-code execution (replay / cross-check)

def real_exec(snippet, inputs, timeout=300, repo=None):
    """Run `snippet` under the real interpreter with real torch against `repo`'s pfhedge.
    The snippet sees `W` (the inputs dict), `torch`, `pfhedge`, and must assign `result` (json-able)."""
    repo = repo or REPO
    prog = (
        'import sys, json, warnings\n'
        'warnings.filterwarnings("ignore")\n'
        'sys.path.insert(0, %r)\n'
        'import torch, pfhedge\n'
        'torch.set_default_dtype(torch.float32)\n'
        'W = json.loads(sys.stdin.read())\n'
        'def T(x, dtype=torch.float64):\n'
        '    return torch.tensor(x, dtype=dtype)\n'
        'def J(x):\n'
        '    if isinstance(x, torch.Tensor):\n'
        '        x = x.detach().double()\n'
        '        return [("nan" if v != v else ("inf" if v == float("inf") else ("-inf" if v == float("-inf") else v))) for v in x.flatten().tolist()] if x.dim() else J(x.item())\n'
        '    if isinstance(x, float):\n'
        '        return "nan" if x != x else ("inf" if x == float("inf") else ("-inf" if x == float("-inf") else x))\n'
        '    if isinstance(x, (list, tuple)):\n'
        '        return [J(v) for v in x]\n'
        '    if isinstance(x, dict):\n'
        '        return {k: J(v) for k, v in x.items()}\n'
        '    return x\n'
        'result = None\n'
        'try:\n'
        '%s\n'
        '    out = {"ok": True, "result": J(result)}\n'
        'except Exception as e:\n'
        '    import traceback\n'
        '    out = {"ok": False, "exception": type(e).__name__, "message": str(e)[:500], "traceback": traceback.format_exc()[-1500:]}\n'
        'print("@@RESULT@@" + json.dumps(out))\n'
    ) % (repo, '\n'.join('    ' + ln for ln in snippet.strip('\n').split('\n')))
    env = dict(os.environ)
    env['PYTHONPATH'] = repo
    env.pop('PYTHONHOME', None)
    p = subprocess.run([REAL_PY, '-W', 'ignore', '-c', prog], input=json.dumps(inputs), capture_output=True, text=True,
                       timeout=timeout, env=env, cwd='/')
    for line in p.stdout.splitlines():
        if line.startswith('@@RESULT@@'):
            return json.loads(line[len('@@RESULT@@'):])
    return {'ok': False, 'exception': 'NoResult', 'message': (p.stderr or p.stdout)[-1500:]}


# ------------------------------------------------------------------ known findings

def load_known_findings():
    path = os.path.join(VERIF, 'known_findings.json')
    if not os.path.exists(path):
        return []
    return json.load(open(path)).get('findings', [])


def match_known(prop, ob_id, findings, verdict=None):
    """A refuted obligation is a known finding if it is listed under an open finding of this property
    and, where the finding records a witness signature for it (the exact set of failing inputs), the
    signature of this run's witness is the same - a different failing set is a new violation."""
    for f in findings:
        if f.get('status', 'open') != 'open':
            continue
        if prop in f['properties'] and ob_id in f['obligations']:
            want = (f.get('signatures') or {}).get(ob_id)
            if want is not None:
                got = ((verdict.witness or {}) if verdict is not None else {}).get('signature')
                if got != want:
                    continue
            return f
    return None


# ------------------------------------------------------------------ check driver

def jsonable(x):
    try:
        json.dumps(x)
        return x
    except Exception:
        return json.loads(json.dumps(x, default=str))


def run_check(prop, module, tier, seed):
    """module provides: build(tier, seed) -> dict(obligations=[...], functions=[qualnames], assumptions=[...],
    level='proof', note='...')."""
    t0 = time.time()
    spec = module.build(tier, seed)
    obs = spec['obligations']
    # engine guard: executor + torch shim against real torch on the functions this property puts under contract
    try:
        from contracts import conformance
        cob = conformance.conformance_ob(prop, seed)
        if cob is not None:
            obs = list(obs) + [cob]
    except ImportError:
        pass
    verdicts = run_obligations(obs)
    findings = load_known_findings()
    violations = []
    known_hit = []
    undecided = []
    canary_fail = []
    notes = []
    n_real = 0
    n_discharged = 0
    n_bounded = 0
    by_kind = {}
    by_backend = {}
    solver_time = 0.0
    samples = []
    records = []
    for ob, v in zip(obs, verdicts):
        solver_time += v.time_s or 0.0
        rec = {'id': ob.id, 'kind': ob.kind, 'function': ob.function, 'deciding': ob.deciding, 'clause': ob.clause,
               'bounded': ob.bounded, 'verdict': v.to_json()}
        records.append(rec)
        if ob.kind == 'canary':
            # a canary is a deliberately false claim: it must be refuted.  Accepting it (`proved`) voids the run (unsound engine);
            # not deciding it (the function is out of the executor's reach on this tree) leaves the run undecided
            if v.status == 'proved':
                canary_fail.append(ob.id)
            elif v.status != 'refuted':
                undecided.append((ob, v))
            continue
        if ob.kind == 'cover':
            if ob.id.startswith('ENG/conformance'):
                # executor-vs-real-torch guard: a disagreement voids the run; "could not run the snippet" (e.g. changed code
                # uses an operation outside the shim) only means the guard did not apply
                if v.status == 'refuted':
                    canary_fail.append(ob.id)
                elif v.status != 'proved':
                    notes.append('ENGINE-NOTE property=%s conformance guard not applicable: %s' % (prop, (v.detail or '')[:200].replace('\n', ' ')))
            elif v.status != 'proved':
                canary_fail.append(ob.id)
            continue
        by_kind[ob.kind] = by_kind.get(ob.kind, 0) + 1
        if ob.bounded:
            n_bounded += 1
            if v.status == 'refuted':
                kf = match_known(prop, ob.id, findings, v)
                (known_hit if kf else violations).append((ob, v, kf))
            elif v.status == 'unknown':
                undecided.append((ob, v))
            continue
        n_real += 1
        if v.status == 'proved':
            n_discharged += 1
            by_backend[v.backend] = by_backend.get(v.backend, 0) + 1
        elif v.status == 'refuted':
            kf = match_known(prop, ob.id, findings, v)
            if kf:
                known_hit.append((ob, v, kf))
                n_real -= 1          # reported separately: not part of the obligations claimed to hold
                by_kind[ob.kind] -= 1
            elif 'inv-' in ob.kind and not (v.replay and v.replay.get('confirmed')):
                # a loop-invariant obligation that does not go through is a FAILED PROOF, not a counterexample: the invariant may simply not
                # fit a restructured (still correct) loop.  Without a failing input replayed on the real code it is undecided.
                v.detail = 'inductive step / invariant not established and no failing input found on the real code: ' + (v.detail or '')
                undecided.append((ob, v))
            elif ob.deciding:
                violations.append((ob, v, None))
            else:
                undecided.append((ob, v))
        else:
            undecided.append((ob, v))
        if len(samples) < 6 and v.sample is not None:
            samples.append({'obligation': ob.id, 'kind': ob.kind, 'clause': ob.clause, 'vc': v.sample, 'verdict': v.status})
    if not samples:
        for ob, v in list(zip(obs, verdicts))[:4]:
            samples.append({'obligation': ob.id, 'kind': ob.kind, 'clause': ob.clause, 'verdict': v.status})
    lines = []
    os.makedirs(os.path.join(OUT, 'replay', prop), exist_ok=True)
    exit_code = 0
    for ob, v, kf in known_hit:
        lines.append('KNOWN-FINDING: property=%s %s [%s] obligation=%s' % (prop, kf['what'], kf['id'], ob.id))
    # known findings that are listed open but whose obligation is no longer refuted: just informational
    for ob, v, _ in violations:
        path = os.path.join('replay', prop, ob.id.replace('/', '_').replace(' ', '_') + '.json')
        rp = {'property': prop, 'obligation': ob.id, 'kind': ob.kind, 'function': ob.function, 'clause': ob.clause,
              'verdict': v.to_json(), 'tier': tier, 'seed': seed, 'repo': REPO}
        json.dump(jsonable(rp), open(os.path.join(OUT, path), 'w'), indent=1, default=str)
        replayed = bool(v.replay and v.replay.get('confirmed'))
        lines.append('VIOLATION property=%s replay=%s%s' % (prop, path, '' if replayed else ' no-failing-input-found'))
        exit_code = 1
    lines += notes
    if canary_fail:
        lines.append('ENGINE-UNSOUND property=%s canary/cover failed: %s' % (prop, ', '.join(canary_fail)))
        exit_code = max(exit_code, 3) if exit_code != 1 else 1
    if undecided and exit_code == 0:
        for ob, v in undecided:
            lines.append('UNDECIDED property=%s obligation=%s (%s) %s' % (prop, ob.id, v.status, (v.detail or '')[:300].replace('\n', ' ')))
        exit_code = 2
    if n_real == 0 and n_bounded == 0:
        lines.append('ENGINE-ERROR property=%s zero obligations generated' % prop)
        exit_code = 3
    level = spec.get('level', 'proof')
    coverage = {
        'obligations': n_real,
        'discharged': n_discharged,
        'checker_cmd': './check %s %s' % (prop, tier),
        'trusted_base': spec.get('trusted_base', []),
        'obligations_by_kind': by_kind,
        'discharged_by_backend': by_backend,
        'solver_time_s': round(solver_time, 3),
        'functions_under_contract': [function_info(q) for q in spec.get('functions', [])],
        'bounded_subclaims': n_bounded,
        'bounded_note': spec.get('bounded_note', ''),
        'canaries_refuted': sum(1 for ob, v in zip(obs, verdicts) if ob.kind == 'canary' and v.status == 'refuted'),
        'covers_satisfied': sum(1 for ob, v in zip(obs, verdicts) if ob.kind == 'cover' and v.status == 'proved'),
        'known_findings_hit': [kf['id'] for _, _, kf in known_hit],
        'obligations_refuted_as_known_findings': [ob.id for ob, _, _ in known_hit],
        'undecided': [ob.id for ob, _ in undecided],
        'samples': jsonable(samples),
        'explanation': spec.get('note', ''),
        'crosscheck': spec.get('crosscheck', {}),
    }
    if level != 'proof':
        coverage['evaluations'] = max(1, spec.get('evaluations', n_bounded))
        coverage['distinct_nontrivial'] = max(2, spec.get('distinct_nontrivial', n_bounded))
        coverage['rule'] = spec.get('rule', '')
    ev = {
        'property_id': prop, 'tier': tier, 'seed': seed, 'level': level, 'coverage': coverage,
        'assumptions': list(spec.get('assumptions', [])) + [ENGINE_ASSUMPTION], 'wall_s': round(time.time() - t0, 2),
        'violations': len(violations),
        'obligation_records': jsonable(records),
    }
    os.makedirs(os.path.join(OUT, 'evidence'), exist_ok=True)
    json.dump(ev, open(os.path.join(OUT, 'evidence', prop + '.json'), 'w'), indent=1, default=str)
    summary = '%s %s: obligations=%d discharged=%d bounded=%d known=%d violations=%d undecided=%d wall=%.1fs' % (
        prop, tier, n_real, n_discharged, n_bounded, len(known_hit), len(violations), len(undecided), time.time() - t0)
    return exit_code, lines, summary
