"""Zero test for closed-form identities over exp / ncdf / sqrt atoms (design section 2.6).

  T term --(ite conditions resolved under the hypotheses by z3)--> sympy expression
  sqrt(t) is the positive variable r (t = r^2); npdf(u) = exp(-u^2/2)/sqrt(2 pi); every distinct
  ncdf argument becomes an atom N_i; all exponentials are merged and grouped by canonical exponent:
      E = sum_j  C_j(x, v, r, K, N..) * exp(E_j)          (E_j pairwise distinct)
  `E == 0` is discharged by showing each coefficient C_j is the zero rational function: its
  numerator polynomial is handed to z3 (QF_NRA) as `num != 0` -> unsat.  A non-zero coefficient is
  a refutation candidate; the witness is found by 50-digit evaluation at domain points.
"""
import time
import sympy as sp
import z3

from . import terms as tm
from . import smt
from .terms import T


def simplify_under(t, hyps, timeout_ms=3000):
    """Resolve ite / max / min / abs whose condition is decided by the hypotheses."""
    cache = {}
    decided = {}

    def decide(c):
        if c in decided:
            return decided[c]
        r = None
        if smt.check_sat(list(hyps) + [tm.not_(c)], timeout_ms=timeout_ms, use_cvc5=False).status == 'unsat':
            r = True
        elif smt.check_sat(list(hyps) + [c], timeout_ms=timeout_ms, use_cvc5=False).status == 'unsat':
            r = False
        decided[c] = r
        return r

    def go(u):
        r = cache.get(u)
        if r is not None:
            return r
        if u.op in ('const', 'var'):
            r = u
        elif u.op == 'ite':
            c = go(u.args[0])
            d = decide(c) if c.op != 'const' else c.args[0]
            if d is True:
                r = go(u.args[1])
            elif d is False:
                r = go(u.args[2])
            else:
                r = tm.ite(c, go(u.args[1]), go(u.args[2]))
        elif u.op in tm.BINDERS:
            bv, lo, hi, body = u.args
            r = tm.big(u.op, bv, go(lo), go(hi), go(body))
        else:
            args = [go(a) if isinstance(a, T) else a for a in u.args]
            r = tm.rebuild(u, args)
            if r.op in ('max', 'min'):
                a, b = r.args
                d = decide(tm.ge(a, b))
                if d is True:
                    r = a if r.op == 'max' else b
                elif d is False:
                    r = b if r.op == 'max' else a
            elif r.op == 'abs':
                d = decide(tm.ge(r.args[0], tm.const(0, r.args[0].sort)))
                if d is True:
                    r = r.args[0]
                elif d is False:
                    r = tm.neg(r.args[0])
        cache[u] = r
        return r
    return go(t)


class NotClosedForm(Exception):
    pass


_Nf = sp.Function('N')


def to_sympy(t, symbols):
    """symbols: var name -> sympy symbol (with assumptions)."""
    cache = {}

    def go(u):
        r = cache.get(u)
        if r is not None:
            return r
        op, a = u.op, u.args
        if op == 'const':
            v = a[0]
            r = sp.Rational(v.numerator, v.denominator) if hasattr(v, 'numerator') else sp.Integer(v)
        elif op == 'var':
            if a[0] not in symbols:
                symbols[a[0]] = sp.Symbol(a[0].replace('!', '_'), real=True)
            r = symbols[a[0]]
        elif op == 'add':
            r = sp.Add(*[go(x) for x in a])
        elif op == 'mul':
            r = sp.Mul(*[go(x) for x in a])
        elif op == 'neg':
            r = -go(a[0])
        elif op == 'div':
            r = go(a[0]) / go(a[1])
        elif op == 'pow':
            r = go(a[0]) ** go(a[1])
        elif op == 'toreal':
            r = go(a[0])
        elif op == 'app':
            name = a[0]
            if name == 'stopgrad':
                cache[u] = go(a[1])
                return cache[u]
            args = [go(x) for x in a[1:]]
            if name == 'exp':
                r = sp.exp(args[0])
            elif name == 'log':
                r = sp.log(args[0])
            elif name == 'sqrt':
                r = sp.sqrt(args[0])
            elif name == 'cbrt':
                r = sp.cbrt(args[0])
            elif name == 'ncdf':
                r = _Nf(args[0])
            elif name == 'npdf':
                r = sp.exp(-args[0] ** 2 / 2) / sp.sqrt(2 * sp.pi)
            elif name == 'cos':
                r = sp.cos(args[0])
            elif name == 'sin':
                r = sp.sin(args[0])
            else:
                r = sp.Function(name.replace('.', '_'))(*args)
        else:
            ex = NotClosedForm('op %s in a closed-form identity (unresolved condition?): %s' % (op, tm.show(u)[:200]))
            ex.term = u
            raise ex
        cache[u] = r
        return r
    return go(t)


def _canon(e):
    return sp.cancel(sp.together(sp.expand(e)))


def zero_test(term, hyps, varmap, timeout_ms=20000):
    """term: T (real) claimed to be identically 0 under hyps.
    varmap: var name -> ('pos'|'real'|'sqrt_of', ...): e.g. {'t': ('square_of', 'r')} means t = r^2, r > 0.
    Returns dict(status='proved'|'nonzero'|'unknown', coefficients=..., detail=...)."""
    t0 = time.time()
    term = simplify_under(term, hyps)
    symbols = {}
    subs = {}
    for name, spec in varmap.items():
        if spec[0] == 'pos':
            symbols[name] = sp.Symbol(name, positive=True)
        elif spec[0] == 'real':
            symbols[name] = sp.Symbol(name, real=True)
        elif spec[0] == 'square_of':
            r = sp.Symbol(spec[1], positive=True)
            symbols[name] = r ** 2
    try:
        e = to_sympy(term, symbols)
    except NotClosedForm as ex:
        u = getattr(ex, 'term', None)
        split = None
        if u is not None:
            if u.op == 'ite':
                split = u.args[0]
            elif u.op in ('max', 'min'):
                split = tm.ge(u.args[0], u.args[1])
            elif u.op == 'abs':
                split = tm.ge(u.args[0], tm.const(0, u.args[0].sort))
        return {'status': 'unknown', 'detail': str(ex), 'time_s': time.time() - t0, 'split_on': split}
    # canonical ncdf atoms
    atoms = {}
    for f in sorted(e.atoms(_Nf), key=sp.default_sort_key):
        arg = _canon(f.args[0])
        if arg == 0:
            e = e.xreplace({f: sp.Rational(1, 2)})
            continue
        neg_arg = _canon(-arg)
        if arg not in atoms and neg_arg in atoms:
            e = e.xreplace({f: 1 - atoms[neg_arg]})      # ncdf(-u) = 1 - ncdf(u)
            continue
        if arg not in atoms:
            atoms[arg] = sp.Symbol('N%d' % len(atoms), positive=True)
        e = e.xreplace({f: atoms[arg]})
    # log(exp(..)) etc. are not expected; expand and merge exponentials
    e = sp.expand(sp.together(e).as_numer_denom()[0]) if False else sp.expand(e)
    groups = {}
    for term_i in sp.Add.make_args(e):
        coeff, expo = sp.Integer(1), sp.Integer(0)
        for fct in sp.Mul.make_args(term_i):
            b, p = fct.as_base_exp()
            if isinstance(fct, sp.exp):
                expo += fct.args[0]
            elif isinstance(b, sp.exp):
                expo += b.args[0] * p
            else:
                coeff *= fct
        key = _canon(expo)
        groups[key] = groups.get(key, 0) + coeff
    results = []
    status = 'proved'
    for key, c in groups.items():
        num, den = sp.fraction(sp.cancel(sp.together(c)))
        num = sp.expand(num)
        ok = (num == 0)
        zres = None
        if not ok:
            status = 'nonzero'
        else:
            zres = 'unsat'
        results.append({'exponent': str(key), 'numerator': str(num)[:300], 'zero': bool(ok)})
    # independent re-check by z3 of the polynomial identities on the un-cancelled form
    zstatus = _z3_polys(groups, timeout_ms) if status == 'proved' else None
    if status == 'proved' and zstatus != 'unsat':
        status = 'unknown'
    return {'status': status, 'groups': results, 'z3': zstatus, 'n_atoms': len(atoms),
            'sympy_expr': str(e)[:400], 'time_s': time.time() - t0}


def _z3_polys(groups, timeout_ms):
    """For every exponent group: numerator polynomial of the coefficient != 0 is unsat (QF_NRA)."""
    s = z3.Solver()
    s.set('timeout', int(timeout_ms))
    disj = []
    zsyms = {}
    for key, c in groups.items():
        num, den = sp.fraction(sp.together(c))
        num = sp.expand(num)
        poly = _poly_to_z3(num, zsyms)
        if poly is None:
            return 'unknown'
        disj.append(poly != 0)
    if not disj:
        return 'unsat'
    s.add(z3.Or(*disj))
    r = s.check()
    return str(r)


def _poly_to_z3(e, zsyms):
    if e.is_Integer:
        return z3.RealVal(int(e))
    if e.is_Rational:
        return z3.RealVal(str(e.p) + '/' + str(e.q))
    if e.is_Symbol:
        if e.name not in zsyms:
            zsyms[e.name] = z3.Real(e.name)
        return zsyms[e.name]
    if e.is_Add:
        r = None
        for a in e.args:
            z = _poly_to_z3(a, zsyms)
            if z is None:
                return None
            r = z if r is None else r + z
        return r
    if e.is_Mul:
        r = None
        for a in e.args:
            z = _poly_to_z3(a, zsyms)
            if z is None:
                return None
            r = z if r is None else r * z
        return r
    if e.is_Pow and e.exp.is_Integer and e.exp > 0:
        b = _poly_to_z3(e.base, zsyms)
        if b is None:
            return None
        r = b
        for _ in range(int(e.exp) - 1):
            r = r * b
        return r
    if e == sp.pi or (e.is_Pow and e.base == sp.pi) or e.has(sp.pi):
        # sqrt(pi) etc: treat as a positive atom
        name = 'atom_' + str(abs(hash(str(e))) % 10 ** 8)
        if name not in zsyms:
            zsyms[name] = z3.Real(name)
        return zsyms[name]
    if e.is_Pow and e.exp.is_Rational:
        name = 'atom_' + str(abs(hash(str(e))) % 10 ** 8)
        if name not in zsyms:
            zsyms[name] = z3.Real(name)
        return zsyms[name]
    return None
