"""Function contracts: run a real function on symbolic inputs, explore all paths, and discharge
`ensures` (element-wise tensor equality with symbolic shapes), `raises`, shape, definedness and
frame obligations.  Includes the Sigma-normaliser (linearity, range grouping, point-wise reduction)."""
import time
from fractions import Fraction

from . import terms as tm
from . import smt
from . import evalc
from .terms import T
from .framework import Obligation, Verdict, real_exec
from .proxies import explore, Unsupported, Ctx


# ------------------------------------------------------------------ Sigma normaliser

def _items(t, sign=1):
    """Decompose t into a list of (binders, body) with t == sum_i  Sigma_{binders_i} body_i.
    binders: tuple of (bv, lo, hi).  Sound by linearity of finite sums."""
    op = t.op
    if op == 'add':
        out = []
        for a in t.args:
            out.extend(_items(a, sign))
        return out
    if op == 'neg':
        return _items(t.args[0], -sign)
    if op == 'sum':
        bv, lo, hi, body = t.args
        nb = tm.fresh('n', 'I')
        inner = _items(tm.subst(body, {bv: nb}), sign)
        return [(((nb, lo, hi),) + bs, b) for (bs, b) in inner]
    if op == 'mul':
        parts = [(_items(a, 1) if _has_sum(a) else None) for a in t.args]
        with_sum = [i for i, p in enumerate(parts) if p is not None]
        if len(with_sum) == 1:
            i = with_sum[0]
            coef = [a for j, a in enumerate(t.args) if j != i]
            return [(bs, tm.mul(*(coef + [b])) if sign == 1 else tm.neg(tm.mul(*(coef + [b])))) for (bs, b) in parts[i]]
    if op == 'div' and _has_sum(t.args[0]) and not _has_sum(t.args[1]):
        return [(bs, tm.div(b, t.args[1]) if sign == 1 else tm.neg(tm.div(b, t.args[1]))) for (bs, b) in _items(t.args[0], 1)]
    if op == 'toreal' and _has_sum(t.args[0]):
        return [(bs, tm.toreal(b) if sign == 1 else tm.neg(tm.toreal(b))) for (bs, b) in _items(t.args[0], 1)]
    return [((), t if sign == 1 else tm.neg(t))]


_hs = {}


def _has_sum(t):
    r = _hs.get(t)
    if r is None:
        r = any(u.op == 'sum' for u in tm.subterms(t))
        _hs[t] = r
    return r


def prove_eq(hyps, lhs, rhs, timeout_ms=20000, depth=0):
    """Result-like: status 'unsat' (equal under hyps), 'sat' (with model, from the direct query) or 'unknown'."""
    goal = tm.eq(lhs, rhs)
    if goal is tm.TRUE:
        return smt.Result('unsat', None, 'syntactic', 0.0)
    r = smt.prove(hyps, goal, timeout_ms=timeout_ms)
    if r.status == 'unsat' or depth > 3:
        return r
    diff = tm.sub(lhs, rhs)
    if not _has_sum(diff):
        return r
    # congruence descent: f(a..) == f(b..) follows from a == b (sufficient)
    if lhs.op == rhs.op and lhs.op in ('app', 'div', 'neg', 'toreal', 'abs', 'pow', 'max', 'min', 'mul', 'add', 'ite') and len(lhs.args) == len(rhs.args):
        pairs = [(a, b) for a, b in zip(lhs.args, rhs.args)]
        if all((isinstance(a, T) and isinstance(b, T)) or a == b for a, b in pairs):
            ok = True
            tot = 0.0
            for a, b in pairs:
                if not isinstance(a, T) or a is b:
                    continue
                rr = prove_eq(hyps, a, b, timeout_ms=timeout_ms, depth=depth + 1)
                tot += rr.time_s
                if rr.status != 'unsat':
                    ok = False
                    break
            if ok:
                res = smt.Result('unsat', None, 'congruence+sigma-normaliser+z3', r.time_s + tot)
                res.smt2_head = r.smt2_head
                return res
    # group by binder ranges, prove each merged body point-wise zero
    items = _items(diff)
    groups = []     # (binders, [bodies])
    for (bs, body) in items:
        placed = False
        for g in groups:
            gb = g[0]
            if len(gb) != len(bs):
                continue
            same = all(_same_range(hyps, a, b) for a, b in zip(gb, bs))
            if same:
                ren = {b[0]: a[0] for a, b in zip(gb, bs)}
                g[1].append(tm.subst(body, ren))
                placed = True
                break
        if not placed:
            groups.append((bs, [body]))
    total = 0.0
    for (bs, bodies) in groups:
        rng = [tm.and_(tm.le(lo, bv), tm.lt(bv, hi)) for (bv, lo, hi) in bs]
        merged = tm.add(*bodies)
        rr = prove_eq(list(hyps) + rng, merged, tm.const(0, merged.sort), timeout_ms=timeout_ms, depth=depth + 1)
        total += rr.time_s
        if rr.status != 'unsat':
            # the point-wise reduction is only sufficient: report the direct query's verdict
            r.reason = 'normaliser: group with ranges %s not point-wise zero (%s)' % ([(tm.show(lo), tm.show(hi)) for (_, lo, hi) in bs], rr.status)
            return r
    res = smt.Result('unsat', None, 'sigma-normaliser+z3', r.time_s + total)
    res.smt2_head = r.smt2_head
    return res


def _same_range(hyps, a, b):
    if a[1] is b[1] and a[2] is b[2]:
        return True
    r = smt.prove(hyps, tm.and_(tm.eq(a[1], b[1]), tm.eq(a[2], b[2])), timeout_ms=3000, want_model=False)
    return r.status == 'unsat'


# ------------------------------------------------------------------ models -> concrete witnesses

def concretise(model, scalars, tensors, cap=3):
    """scalars: list of var names; tensors: name -> shape (tuple of T/int). Reads a z3 model into a
    json-able witness {name: value | nested list}."""
    out = {}
    for name in scalars:
        val = model.get(name)
        out[name] = _py(val)
    for name, (shape, sort) in tensors.items():
        dims = []
        for sdim in shape:
            if isinstance(sdim, int):
                dims.append(sdim)
            else:
                dval = smt.model_eval(model, sdim)
                dims.append(int(dval) if dval is not None else 1)
        def build(prefix, k):
            if k == len(dims):
                return _py(smt.model_eval(model, tm.sel(name, *[tm.const(i, 'I') for i in prefix], sort=sort)))
            return [build(prefix + [i], k + 1) for i in range(max(0, min(dims[k], 64)))]
        out[name] = build([], 0) if dims else _py(model.get(name))
        out[name + '.shape'] = dims
    return out


def _py(val):
    if val is None:
        return 0.0
    if isinstance(val, bool):
        return val
    if isinstance(val, int):
        return val
    if isinstance(val, Fraction):
        return float(val)
    return val


def witness_env(w):
    """witness dict -> evalc environment"""
    env = {}
    for k, val in w.items():
        if k.endswith('.shape'):
            continue
        if isinstance(val, list):
            def getter(*idx, val=val):
                cur = val
                for i in idx:
                    cur = cur[int(i)]
                return Fraction(cur).limit_denominator(10 ** 12) if isinstance(cur, float) else cur
            env['@' + k] = getter
        else:
            env[k] = Fraction(val).limit_denominator(10 ** 12) if isinstance(val, float) else val
    return env


# ------------------------------------------------------------------ contract checking

class Case:
    """One contract case of a function: how to build symbolic inputs and call the real function,
    the hypotheses (`requires`), and the postconditions."""

    def __init__(self, run, hyps=(), ensures=None, raises=None, shape=None, frame_inputs=(), dtype=None,
                 scalars=(), tensors=None, real_snippet=None, tol=1e-9, max_paths=64, allow_abort=False, extra=None):
        self.run = run                  # (ctx) -> result
        self.hyps = list(hyps)
        self.ensures = ensures          # (result, path) -> list of (label, hyps_extra, lhs, rhs)  element VCs
        self.raises = raises or {}      # exception class name -> condition T (raised IFF condition), or None (= never)
        self.shape = shape              # (result) -> expected shape tuple (T/int)
        self.frame_inputs = frame_inputs
        self.dtype = dtype
        self.scalars = list(scalars)
        self.tensors = tensors or {}    # name -> (shape, sort) for witness extraction
        self.real_snippet = real_snippet   # real-code snippet: W -> result {"got": [...]} (and optional "exception")
        self.tol = tol
        self.max_paths = max_paths
        self.extra = extra              # (paths) -> list of (label, ok_bool, detail) structural checks (frames, events)


def contract_ob(oid, function, props, case_fn, clause, kind='post', deciding=True, timeout_ms=20000, spec_eval=None):
    """case_fn() -> Case (built lazily in the worker)."""

    def check():
        t0 = time.time()
        case = case_fn()
        try:
            paths = explore(case.run, case.hyps, max_paths=case.max_paths)
        except Unsupported as e:
            return Verdict('unknown', 'engine', time.time() - t0, 'out of reach: %s' % e)
        nvc = 0
        backends = set()
        sample = {'claim': clause, 'requires': [tm.show(h)[:160] for h in case.hyps][:10], 'paths': [p.outcome() for p in paths], 'vcs': []}
        for p in paths:
            facts = p.facts(case.hyps)
            out = p.outcome()
            if out.startswith('abort'):
                return Verdict('unknown', 'engine', time.time() - t0, 'path aborted: %s' % p.aborted, sample=sample)
            if out.startswith('raises'):
                ename = type(p.exception).__name__
                if not _from_repo_or_contract(p):
                    return Verdict('unknown', 'engine', time.time() - t0, 'engine-side exception %s: %s\n%s' % (ename, p.exception, p.traceback[-800:]), sample=sample)
                allowed = None
                for k_, cond in case.raises.items():
                    if ename == k_ or ename in k_.split('|'):
                        allowed = cond
                if allowed is None:
                    # unexpected exception on a feasible path
                    r = smt.check_sat(facts, timeout_ms=timeout_ms, want_model=True)
                    if r.status == 'unsat':
                        continue
                    wit = _witness(case, r)
                    rp = _replay(case, wit, expect='returns', spec_eval=spec_eval)
                    return Verdict('refuted' if r.status == 'sat' else 'unknown', r.backend, time.time() - t0,
                                   'raises %s (%s) where the contract promises a result' % (ename, str(p.exception)[:200]),
                                   witness=wit, sample=sample, replay=rp)
                nvc += 1
                r = smt.prove(facts, allowed, timeout_ms=timeout_ms)
                backends.add(r.backend)
                sample['vcs'].append({'vc': 'path raises %s => %s' % (ename, tm.show(allowed)[:200]), 'status': r.status})
                if r.status != 'unsat':
                    wit = _witness(case, r)
                    rp = _replay(case, wit, expect='returns', spec_eval=spec_eval)
                    return Verdict('refuted' if r.status == 'sat' else 'unknown', r.backend, time.time() - t0,
                                   'raises %s outside its allowed condition' % ename, witness=wit, sample=sample, replay=rp)
                continue
            # returning path: must not be in a must-raise region
            for k_, cond in case.raises.items():
                if cond is None:
                    continue
                nvc += 1
                r = smt.prove(facts, tm.not_(cond), timeout_ms=timeout_ms)
                backends.add(r.backend)
                if r.status != 'unsat':
                    wit = _witness(case, r)
                    rp = _replay(case, wit, expect='raises:' + k_, spec_eval=spec_eval)
                    return Verdict('refuted' if r.status == 'sat' else 'unknown', r.backend, time.time() - t0,
                                   'returns although %s is required when %s' % (k_, tm.show(cond)[:200]), witness=wit, sample=sample, replay=rp)
            res = p.result
            if case.shape is not None:
                want = case.shape(res)
                got = res._shape
                if len(want) != len(got):
                    return Verdict('refuted', 'shape', time.time() - t0, 'rank %d, contract says %d' % (len(got), len(want)), witness={}, sample=sample,
                                   replay={'confirmed': False})
                for a, b in zip(got, want):
                    nvc += 1
                    from .torchlib.tensor import ti
                    r = smt.prove(facts, tm.eq(ti(a), ti(b)), timeout_ms=timeout_ms)
                    backends.add(r.backend)
                    if r.status != 'unsat':
                        wit = _witness(case, r)
                        return Verdict('refuted' if r.status == 'sat' else 'unknown', r.backend, time.time() - t0,
                                       'shape %s, contract says %s' % (got, want), witness=wit, sample=sample, replay=_replay(case, wit, expect='returns', spec_eval=spec_eval))
            if case.dtype is not None:
                want = case.dtype(res) if callable(case.dtype) else case.dtype
                if res.dtype is not want:
                    return Verdict('refuted', 'dtype', time.time() - t0, 'dtype %s, contract says %s' % (res.dtype, want), witness={'dtype': str(res.dtype)}, sample=sample,
                                   replay={'confirmed': False})
            if case.ensures is not None:
                for (label, hx, lhs, rhs) in case.ensures(res, p):
                    nvc += 1
                    if lhs.sort == 'B':
                        r = smt.prove(facts + list(hx), tm.eq(lhs, rhs), timeout_ms=timeout_ms)
                    else:
                        r = prove_eq(facts + list(hx), lhs, rhs, timeout_ms=timeout_ms)
                    backends.add(r.backend)
                    if len(sample['vcs']) < 4:
                        sample['vcs'].append({'vc': label, 'code': tm.show(lhs)[:400], 'spec': tm.show(rhs)[:400], 'status': r.status, 'backend': r.backend})
                    if r.status != 'unsat':
                        wit = _witness(case, r)
                        rp = _replay(case, wit, expect='returns', spec_eval=spec_eval)
                        how = r.backend
                        if not (rp and rp.get('confirmed')):
                            # the solver's model may be spurious (uninterpreted sums / special functions):
                            # search a concrete instance on which code term and spec term differ
                            w2 = random_refute(case, facts + list(hx), lhs, rhs)
                            if w2 is None:
                                return Verdict('unknown', r.backend, time.time() - t0,
                                               'ensures `%s` not proved (%s) and no concrete counterexample found: code %s vs spec %s' % (label, r.status, tm.show(lhs)[:300], tm.show(rhs)[:300]),
                                               sample=sample)
                            wit = w2
                            rp = _replay(case, wit, expect='returns', spec_eval=spec_eval)
                            how = 'concrete search (mpmath) after ' + r.backend
                            if w2.get('code_undefined') and not (rp and rp.get('confirmed')):
                                return Verdict('unknown', r.backend, time.time() - t0,
                                               'ensures `%s` not proved (%s); the code term is undefined at a concrete point but the real code does not confirm it' % (label, r.status),
                                               sample=sample, replay=rp)
                        return Verdict('refuted', how, time.time() - t0,
                                       'ensures `%s` fails: code %s vs spec %s' % (label, tm.show(lhs)[:300], tm.show(rhs)[:300]),
                                       witness=wit, sample=sample, replay=rp)
            # side obligations recorded during execution (definedness, bounds, callee preconditions)
            for so in p.side:
                nvc += 1
                r = smt.prove(so['hyps'], so['goal'], timeout_ms=timeout_ms)
                backends.add(r.backend)
                if r.status != 'unsat':
                    # helper (route) obligation: a violation only if the counter-model replays on the real code
                    wit = _witness(case, r)
                    rp = _replay(case, wit, expect='side', spec_eval=spec_eval)
                    confirmed = bool(rp and rp.get('confirmed'))
                    return Verdict('refuted' if (r.status == 'sat' and confirmed) else 'unknown', r.backend, time.time() - t0,
                                   'side obligation %s/%s not provable: %s' % (so['kind'], so['name'], tm.show(so['goal'])[:300]),
                                   witness=wit, sample=sample, replay=rp)
            # frame: no write to a non-fresh storage
            for (st, what) in p.writes:
                if st.origin != 'fresh' and not st.origin.startswith('leaf:'):
                    return Verdict('refuted', 'alias-analysis', time.time() - t0, 'in-place %s writes %s' % (what, st.origin),
                                   witness={'written': st.origin, 'op': what}, sample=sample, replay=_replay(case, {}, expect='frame', spec_eval=spec_eval))
        if case.extra is not None:
            for (label, ok, detail) in case.extra(paths):
                nvc += 1
                if not ok:
                    return Verdict('refuted', 'structural', time.time() - t0, '%s: %s' % (label, detail), witness={'detail': str(detail)[:500]}, sample=sample,
                                   replay=_replay(case, {}, expect='extra', spec_eval=spec_eval))
        if nvc == 0 and not paths:
            return Verdict('unknown', 'engine', time.time() - t0, 'no paths')
        sample['n_vcs'] = nvc
        return Verdict('proved', '+'.join(sorted(backends)) or 'path-exploration', time.time() - t0, '%d path(s), %d VC(s)' % (len(paths), nvc), sample=sample)
    return Obligation(oid, kind, function, check, props, deciding=deciding, clause=clause)


def random_refute(case, facts, lhs, rhs, tries=1500, seed=0, maxdim=3):
    """Two passes of `_random_refute_pass`: the historical candidate set first (unchanged random sequence), then,
    only if that found nothing, scalars placed just beyond the integer thresholds that the rational constants of
    the two terms define ((j + c/4)/m and (j - c/4)/m for every constant 0 < c < 1 and m <= maxdim+1): a rounding
    or tolerance constant in the code is exercised at the inputs it distinguishes."""
    w = _random_refute_pass(case, facts, lhs, rhs, tries, seed, maxdim, ())
    if w is not None:
        return w
    from fractions import Fraction as Fr
    consts = set()
    for t_ in (lhs, rhs):
        for u in tm.subterms(t_):
            if u.op == 'const' and u.sort == 'R' and 0 < u.args[0] < 1:
                consts.add(Fr(u.args[0]))
    extra = []
    for c in sorted(consts)[:6]:
        for m in range(1, maxdim + 2):
            for j in range(0, m + 1):
                extra += [(j + c / 4) / m, (j - c / 4) / m]
    if not extra:
        return None
    return _random_refute_pass(case, facts, lhs, rhs, 2 * tries, seed + 7919, maxdim, tuple(extra))


def _random_refute_pass(case, facts, lhs, rhs, tries, seed, maxdim, extra_vals):
    """Concrete search for an instance on which the code term and the spec term differ while all
    facts hold.  Returns a witness dict (dims, arrays, scalars) or None."""
    import random
    from fractions import Fraction as Fr
    rnd = random.Random(seed)
    terms = list(facts) + [lhs, rhs]
    fvs = set()
    arrays = {}
    for t_ in terms:
        fvs |= tm.free_vars(t_)
        for u in tm.subterms(t_):
            if u.op == 'sel':
                arrays[u.args[0]] = (len(u.args) - 1, u.sort)
    vals_r = [Fr(0), Fr(1), Fr(-1), Fr(1, 2), Fr(-3, 2), Fr(2), Fr(3), Fr(-2), Fr(5, 4), Fr(7, 10)] + list(extra_vals)
    for _ in range(tries):
        env = {}
        for v_ in sorted(fvs, key=lambda u_: u_.args[0]):       # deterministic order (set iteration depends on the hash seed)
            name = v_.args[0]
            if v_.sort == 'I':
                env[name] = rnd.randint(0, maxdim)
            elif v_.sort == 'R':
                env[name] = rnd.choice(vals_r)
            else:
                env[name] = rnd.random() < 0.5
        store = {}
        for an, (ar, so) in sorted(arrays.items()):
            def getter(*idx, an=an, so=so):
                key = (an,) + tuple(int(i) for i in idx)
                if key not in store:
                    store[key] = rnd.choice(vals_r) if so == 'R' else (rnd.randint(-2, 3) if so == 'I' else rnd.random() < 0.5)
                return store[key]
            env['@' + an] = getter
        try:
            if not all(evalc.evaluate(f_, env) for f_ in facts):
                continue
            b = evalc.evaluate(rhs, env)
        except (evalc.Undefined, KeyError, ZeroDivisionError, IndexError, ValueError):
            continue
        code_undefined = False
        try:
            a = evalc.evaluate(lhs, env)
        except evalc.Undefined:
            # the spec value exists but the code term leaves the domain of a partial operation (nan in floats):
            # a candidate only - the caller must confirm it by replay on the real code
            if isinstance(b, bool):
                continue
            a, code_undefined = float('nan'), True
        except (KeyError, ZeroDivisionError, IndexError, ValueError):
            continue
        if code_undefined:
            differ = True
        elif isinstance(a, bool) or isinstance(b, bool):
            differ = bool(a) != bool(b)
        else:
            differ = abs(a - b) > 1e-9 * max(1, abs(a), abs(b))
        if differ:
            w = {k: (float(val) if isinstance(val, Fr) else val) for k, val in env.items() if not k.startswith('@')}
            # materialise arrays over their declared shapes
            for name, (shape, sort) in case.tensors.items():
                dims = []
                for sdim in shape:
                    dims.append(sdim if isinstance(sdim, int) else int(evalc.evaluate(sdim, env)))
                def build(prefix, k, name=name):
                    if k == len(dims):
                        return float(env['@' + name](*prefix)) if ('@' + name) in env else 0.0
                    return [build(prefix + [i], k + 1) for i in range(dims[k])]
                w[name] = build([], 0)
                w[name + '.shape'] = dims
            if code_undefined:
                w['code_undefined'] = True
            w['code_value'] = float(a) if not isinstance(a, bool) else a
            w['spec_value'] = float(b) if not isinstance(b, bool) else b
            w.update(getattr(case, 'witness_extra', {}) or {})
            return w
    return None


def _from_repo_or_contract(p):
    """An exception counts as behaviour of the code under verification only if it is raised by a
    `raise` statement of the repository (or deliberately by the torch contract shim, as real torch
    would).  Anything else - a TypeError from calling a shim primitive with an unsupported
    signature, an AttributeError for a missing shim method ... - is an engine limitation."""
    f = p.exc_file or ''
    if '/pfv/' in f or '/contracts/' in f:
        return bool(getattr(p.exception, '_pfv_deliberate', False))
    src = (getattr(p, 'exc_src', '') or '').strip()
    if src.startswith('raise ') or src.startswith('assert '):
        return True
    return False


def _witness(case, r):
    if r.status != 'sat' or not r.model:
        return {}
    try:
        w = concretise(r.model, case.scalars, case.tensors)
        w.update(getattr(case, 'witness_extra', {}) or {})
        return w
    except Exception as e:
        return {'error': 'could not concretise model: %s' % e}


def _replay(case, wit, expect, spec_eval=None):
    """Replay a witness on the real code.  The snippet returns {"got": value/list, "exception": name|None}.
    spec_eval(W) -> expected value (computed independently of the executor) or None."""
    battery = getattr(case, 'battery', False)      # the snippet is a fixed battery of concrete inputs: needs no witness
    if not case.real_snippet or ((not wit or 'error' in wit) and not battery):
        return {'confirmed': False, 'note': 'no replayable witness'}
    if battery and (not wit or 'error' in wit):
        wit = {}
    clean = {k: v for k, v in wit.items()}
    r = real_exec(case.real_snippet, clean)
    out = {'real': r, 'expect': expect}
    if not r.get('ok'):
        # the real code raised: a confirmation if the contract promised a result
        out['confirmed'] = expect in ('returns', 'side') and r.get('exception') not in ('NoResult',)
        return out
    res = r['result']
    if expect == 'side':
        got = res.get('got') if isinstance(res, dict) else res
        flat = got if isinstance(got, list) else [got]
        out['confirmed'] = any(isinstance(g, str) for g in flat) or (isinstance(res, dict) and 'ref' in res and not _close(res.get('got'), res.get('ref'), case.tol))
        return out
    if expect.startswith('raises:'):
        out['confirmed'] = True      # returned a value where an exception is required
        return out
    if spec_eval is not None:
        try:
            want = spec_eval(clean)
            got = res.get('got') if isinstance(res, dict) else res
            out['spec'] = want
            out['confirmed'] = not _close(got, want, case.tol)
        except Exception as e:
            out['confirmed'] = False
            out['note'] = 'spec evaluation failed: %s' % e
        return out
    if isinstance(res, dict) and 'ref' in res:
        out['confirmed'] = not _close(res.get('got'), res.get('ref'), case.tol)
        return out
    out['confirmed'] = False
    return out
    out['confirmed'] = False
    return out


def _close(a, b, tol):
    if isinstance(a, (list, tuple)) or isinstance(b, (list, tuple)):
        if not isinstance(a, (list, tuple)) or not isinstance(b, (list, tuple)) or len(a) != len(b):
            return False
        return all(_close(x, y, tol) for x, y in zip(a, b))
    if isinstance(a, str) or isinstance(b, str):
        return a == b
    if isinstance(a, bool) or isinstance(b, bool):
        return bool(a) == bool(b)
    try:
        return abs(float(a) - float(b)) <= tol * max(1.0, abs(float(a)), abs(float(b)))
    except Exception:
        return False


# ------------------------------------------------------------------ quantified loop VCs by explicit instantiation

def _peel(t_, fresh_prefix=None):
    """forall x in lo..hi. forall y ... body  ->  ([(x, lo, hi), ...], body)"""
    bs = []
    while t_.op == 'forall':
        bv, lo, hi, body = t_.args
        bs.append((bv, lo, hi))
        t_ = body
    return bs, t_


def _index_terms(t_, acc, depth=0):
    if depth > 40 or not isinstance(t_, T):
        return
    if t_.op in ('sel', 'app'):
        for a in t_.args[1:]:
            if isinstance(a, T) and a.sort == 'I' and a.op != 'const' and tm.size(a) <= 12:
                acc.add(a)
    if t_.op in tm.BINDERS:
        return
    for a in t_.args:
        if isinstance(a, T):
            _index_terms(a, acc, depth + 1)


def prove_inst(hyps, goal, timeout_ms=20000, max_inst=400):
    """/\\ hyps => goal where goal and some hyps are (nested) bounded foralls, decided WITHOUT quantifiers:
    the goal is skolemised, every quantified hypothesis is replaced by its instances at all tuples of
    candidate index terms (skolem constants and the integer index terms occurring in the goal).  Sound: every
    instance follows from its hypothesis; incomplete by design (falls back to the quantified query)."""
    bs, body = _peel(goal)
    ren = {}
    rng = []
    for (bv, lo, hi) in bs:
        sk = tm.fresh('sk_' + bv.args[0].split('#')[0], 'I')
        ren[bv] = sk
    for (bv, lo, hi) in bs:
        rng += [tm.le(tm.subst(lo, ren), ren[bv]), tm.lt(ren[bv], tm.subst(hi, ren))]
    g0 = tm.subst(body, ren)
    cands = set(ren.values())
    _index_terms(g0, cands)
    for h_ in hyps:
        if h_.op != 'forall':
            _index_terms(h_, cands)
    cands = sorted(cands, key=lambda u: (tm.size(u), u.uid))[:8]
    ground, quantified = [], []
    for h_ in hyps:
        (quantified if h_.op == 'forall' else ground).append(h_)
    insts = []
    import itertools
    for q in quantified:
        qbs, qbody = _peel(q)
        for tup in itertools.product(cands, repeat=len(qbs)):
            m = {bv: t_ for (bv, _, _), t_ in zip(qbs, tup)}
            conds = []
            for (bv, lo, hi) in qbs:
                conds += [tm.le(tm.subst(lo, m), m[bv]), tm.lt(m[bv], tm.subst(hi, m))]
            insts.append(tm.implies(tm.and_(*conds), tm.subst(qbody, m)))
            if len(insts) >= max_inst:
                break
    for big in (False, True):
        r = smt.check_sat(ground + rng + insts + [tm.not_(g0)], timeout_ms=timeout_ms, want_model=False, big_axioms=big, use_cvc5=False)
        if r.status == 'unsat':
            r.backend = 'z3 QF (explicit instantiation: %d instances%s)' % (len(insts), '' if big else ', binders as UF')
            return r
    return smt.prove(hyps, goal, timeout_ms=timeout_ms)
