"""Symbolic differentiation on terms (the executable form of the assumed autograd contract, and
the derivative generator for the Greek identities).  Rules: linearity, product, quotient, chain
for exp/log/sqrt/ncdf/npdf/cos/sin/cbrt/pow; piecewise (ite/abs/max/min) differentiates
branch-wise (the derivative at the kink is the selected branch's, as in autograd); an
uninterpreted smooth function  app('P', a1..an)  has partials  app('P.d<i>', a1..an)."""
from fractions import Fraction

from . import terms as tm
from .terms import T


def diff(t, x):
    cache = {}

    def d(u):
        r = cache.get(u)
        if r is None:
            r = _d(u)
            cache[u] = r
        return r

    dep = {}

    def depends(u):
        r = dep.get(u)
        if r is None:
            if u is x:
                r = True
            elif u.op in ('const', 'var', 'sel') and u is not x:
                r = any(depends(a) for a in u.args if isinstance(a, T)) if u.op == 'sel' else False
            else:
                r = any(depends(a) for a in u.args if isinstance(a, T))
            dep[u] = r
        return r

    def _d(u):
        if u is x:
            return tm.ONE
        if not depends(u):
            return tm.ZERO
        op, a = u.op, u.args
        if op in ('const', 'var', 'sel'):
            return tm.ZERO
        if u.sort != 'R':
            return tm.ZERO
        if op == 'add':
            return tm.add(*[d(v) for v in a])
        if op == 'neg':
            return tm.neg(d(a[0]))
        if op == 'mul':
            terms = []
            for i, v in enumerate(a):
                dv = d(v)
                if dv is tm.ZERO:
                    continue
                terms.append(tm.mul(dv, *[w for j, w in enumerate(a) if j != i]))
            return tm.add(*terms) if terms else tm.ZERO
        if op == 'div':
            f, g = a
            df, dg = d(f), d(g)
            if dg is tm.ZERO:
                return tm.div(df, g)
            return tm.div(tm.sub(tm.mul(df, g), tm.mul(f, dg)), tm.mul(g, g))
        if op == 'pow':
            b, e = a
            db, de = d(b), d(e)
            if de is tm.ZERO or e.op == 'const':
                if e.op == 'const' and e.sort == 'I':
                    n = e.args[0]
                    return tm.mul(tm.const(n, 'R'), tm.powt(b, tm.const(n - 1, 'I')), db)
                return tm.mul(e, tm.powt(b, tm.sub(e, tm.ONE)), db)
            # b ** e = exp(e log b)
            return tm.mul(u, tm.add(tm.mul(de, tm.app('log', b)), tm.div(tm.mul(e, db), b)))
        if op == 'toreal':
            return tm.ZERO
        if op == 'ite':
            return tm.ite(a[0], d(a[1]), d(a[2]))
        if op == 'abs':
            return tm.mul(tm.ite(tm.ge(a[0], tm.ZERO), tm.ONE, tm.const(-1, 'R')), d(a[0]))
        if op == 'max':
            return tm.ite(tm.ge(a[0], a[1]), d(a[0]), d(a[1]))
        if op == 'min':
            return tm.ite(tm.le(a[0], a[1]), d(a[0]), d(a[1]))
        if op == 'sum':
            bv, lo, hi, body = a
            return tm.tsum(bv, lo, hi, d(body))
        if op == 'app':
            name = a[0]
            args = a[1:]
            if name == 'stopgrad':
                return tm.ZERO
            if len(args) == 1 and name in ('exp', 'log', 'sqrt', 'ncdf', 'npdf', 'cos', 'sin', 'cbrt'):
                v = args[0]
                dv = d(v)
                if dv is tm.ZERO:
                    return tm.ZERO
                if name == 'exp':
                    return tm.mul(u, dv)
                if name == 'log':
                    return tm.div(dv, v)
                if name == 'sqrt':
                    return tm.div(dv, tm.mul(tm.const(2, 'R'), u))
                if name == 'cbrt':
                    return tm.div(dv, tm.mul(tm.const(3, 'R'), u, u))
                if name == 'ncdf':
                    return tm.mul(tm.app('npdf', v), dv)
                if name == 'npdf':
                    return tm.mul(tm.neg(v), u, dv)
                if name == 'cos':
                    return tm.mul(tm.neg(tm.app('sin', v)), dv)
                if name == 'sin':
                    return tm.mul(tm.app('cos', v), dv)
            terms = []
            for i, v in enumerate(args):
                dv = d(v)
                if dv is tm.ZERO:
                    continue
                terms.append(tm.mul(tm.app('%s.d%d' % (name, i), *args), dv))
            return tm.add(*terms) if terms else tm.ZERO
        raise ValueError('cannot differentiate %s' % op)

    return d(t)
