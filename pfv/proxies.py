"""Symbolic scalar proxies and the path explorer.

The real pfhedge functions are run by CPython on these proxies.  Whenever Python needs a
concrete bool from a symbolic condition (`if`, `not`, `and`, `all`, tuple comparison ...)
SBool.__bool__ asks the solver under the current path condition: entailed -> True,
refuted -> False, otherwise the path forks (re-execution with a recorded decision prefix).
"""
from fractions import Fraction
import math
import itertools

from . import terms as tm
from .terms import T
from . import smt


class PathAbort(Exception):
    """Raised inside verified code to stop a path (loop cut `stop`, unsupported construct)."""
    def __init__(self, kind, info=''):
        super().__init__(kind + ': ' + str(info))
        self.kind = kind
        self.info = info


class Unsupported(Exception):
    """The code left the supported subset: the function is `out of reach` (verdict unknown)."""


class Ctx:
    current = None

    def __init__(self, hyps=(), prefix=(), decide_timeout_ms=3000):
        self.hyps = list(hyps)        # contract `requires` and input well-formedness
        self.pc = []                  # path condition (T, bool sort)
        self.prefix = list(prefix)
        self.trace = []
        self.pending = []             # alternative prefixes discovered on this run
        self.side = []                # side obligations: (kind, name, hyps-snapshot, goal, info)
        self.assumed = []             # facts assumed mid-path (loop havoc invariants, callee posts)
        self.events = []              # ghost event trace
        self.writes = []              # (storage, description)
        self.fresh_counter = itertools.count()
        self.decide_timeout_ms = decide_timeout_ms
        self.storages = []
        self.grad_enabled = True
        self.default_dtype = None
        self.notes = []
        self.leafdefs = {}
        self.solver_calls = 0
        self._cache = {}

    # ---- naming
    def fresh(self, prefix, sort='R'):
        return tm.var('%s!%d' % (prefix, next(self.fresh_counter)), sort)

    # ---- facts
    def facts(self):
        return self.hyps + self.assumed + self.pc

    def assume(self, cond):
        cond = tm.as_term(cond)
        if cond is not tm.TRUE:
            self.assumed.append(cond)

    def oblige(self, kind, name, goal, info=None):
        """Record a side obligation (definedness, callee precondition, invariant ...)."""
        goal = tm.as_term(goal)
        self.side.append({'kind': kind, 'name': name, 'hyps': list(self.facts()), 'goal': goal, 'info': info})

    def event(self, *ev):
        self.events.append(tuple(ev))

    # ---- decisions
    def entails(self, cond):
        if cond is tm.TRUE:
            return True
        if cond is tm.FALSE:
            return False
        key = (len(self.assumed), len(self.pc), cond)
        if key in self._cache:
            return self._cache[key]
        self.solver_calls += 1
        r = smt.check_sat(self.facts() + [tm.not_(cond)], timeout_ms=self.decide_timeout_ms, use_cvc5=False)
        res = r.status == 'unsat'
        self._cache[key] = res
        return res

    def decide(self, cond):
        cond = tm.as_term(cond)
        if cond is tm.TRUE:
            return True
        if cond is tm.FALSE:
            return False
        if self.entails(cond):
            return True
        if self.entails(tm.not_(cond)):
            return False
        i = len(self.trace)
        if i < len(self.prefix):
            choice = self.prefix[i]
        else:
            choice = True
            self.pending.append(self.trace + [False])
        self.trace.append(choice)
        self.pc.append(cond if choice else tm.not_(cond))
        return choice


def ctx():
    c = Ctx.current
    if c is None:
        raise RuntimeError('no active verification context')
    return c


# ------------------------------------------------------------------ scalar proxies

def lift(x):
    """python number / proxy / term -> T"""
    if isinstance(x, T):
        return x
    if isinstance(x, (SReal, SInt, SBool)):
        return x._term
    if isinstance(x, bool):
        return tm.const(x)
    if isinstance(x, int):
        return tm.const(x, 'I')
    if isinstance(x, float):
        return tm.const(x, 'R')
    if isinstance(x, Fraction):
        return tm.const(x, 'R')
    if hasattr(x, '_as_scalar_term'):
        return x._as_scalar_term()
    raise TypeError('cannot lift %r' % (x,))


def wrap(t):
    """T -> proxy (constants become python numbers where exact)."""
    if t.op == 'const':
        v = t.args[0]
        if t.sort == 'B':
            return bool(v)
        if t.sort == 'I':
            return int(v)
        return SReal(t)
    return {'R': SReal, 'I': SInt, 'B': SBool}[t.sort](t)


def is_symbolic(x):
    return isinstance(x, (SReal, SInt, SBool))


class SBool:
    __slots__ = ('_term',)

    def __init__(self, t):
        self._term = t

    def __bool__(self):
        return ctx().decide(self._term)

    def __and__(self, o):
        return wrap(tm.and_(self._term, lift(o)))
    __rand__ = __and__

    def __or__(self, o):
        return wrap(tm.or_(self._term, lift(o)))
    __ror__ = __or__

    def __invert__(self):
        return wrap(tm.not_(self._term))

    def __eq__(self, o):
        return wrap(tm.eq(self._term, lift(o)))

    def __ne__(self, o):
        return wrap(tm.not_(tm.eq(self._term, lift(o))))

    def __hash__(self):
        return hash(self._term)

    def __repr__(self):
        return 'SBool(%s)' % tm.show(self._term)


class _SNum:
    __slots__ = ()

    def __hash__(self):
        return hash(self._term)

    def __repr__(self):
        return '%s(%s)' % (type(self).__name__, tm.show(self._term))

    def _bin(self, o, f, swap=False):
        if hasattr(o, 'storage'):      # a tensor operand: let Tensor.__r<op>__ handle it
            return NotImplemented
        try:
            b = lift(o)
        except TypeError:
            return NotImplemented
        a = self._term
        if swap:
            a, b = b, a
        return wrap(f(a, b))

    def __add__(self, o):
        return self._bin(o, tm.add)

    def __radd__(self, o):
        return self._bin(o, tm.add, True)

    def __sub__(self, o):
        return self._bin(o, tm.sub)

    def __rsub__(self, o):
        return self._bin(o, tm.sub, True)

    def __mul__(self, o):
        return self._bin(o, tm.mul)

    def __rmul__(self, o):
        return self._bin(o, tm.mul, True)

    def __neg__(self):
        return wrap(tm.neg(self._term))

    def __pos__(self):
        return self

    def __abs__(self):
        return wrap(tm.tabs(self._term))

    def __truediv__(self, o):
        return self._bin(o, _div_checked)

    def __rtruediv__(self, o):
        return self._bin(o, _div_checked, True)

    def __pow__(self, o):
        return self._bin(o, _pow_checked)

    def __rpow__(self, o):
        return self._bin(o, _pow_checked, True)

    def __lt__(self, o):
        return self._bin(o, tm.lt)

    def __le__(self, o):
        return self._bin(o, tm.le)

    def __gt__(self, o):
        return self._bin(o, tm.gt)

    def __ge__(self, o):
        return self._bin(o, tm.ge)

    def __eq__(self, o):
        r = self._bin(o, tm.eq)
        return False if r is NotImplemented else r

    def __ne__(self, o):
        r = self._bin(o, tm.ne)
        return True if r is NotImplemented else r

    def __bool__(self):
        return ctx().decide(tm.ne(self._term, tm.const(0, self._term.sort)))


def _div_checked(a, b):
    c = Ctx.current
    if c is not None and not (b.op == 'const' and b.args[0] != 0):
        c.oblige('defined', 'division', tm.ne(b, tm.const(0, b.sort)), info='denominator %s' % tm.show(b))
    return tm.div(a, b)


def _pow_checked(a, e):
    c = Ctx.current
    if e.op == 'const' and e.args[0] == int(e.args[0]):
        if e.args[0] < 0 and c is not None:
            c.oblige('defined', 'negative power', tm.ne(a, tm.const(0, a.sort)))
        return tm.powt(a, e)
    if c is not None:
        c.oblige('defined', 'fractional power', tm.ge(tm.toreal(a), tm.ZERO), info='base %s' % tm.show(a))
    return tm.powt(a, e)


class SReal(_SNum):
    __slots__ = ('_term',)

    def __init__(self, t):
        self._term = t

    def __float__(self):
        raise Unsupported('float() of a symbolic real')

    def __int__(self):
        raise Unsupported('int() of a symbolic real')

    def sqrt(self):
        return special('sqrt', self)

    def exp(self):
        return special('exp', self)

    def log(self):
        return special('log', self)

    def is_integer(self):
        return False

    def __floor__(self):
        return wrap(tm.floor(self._term))

    def __ceil__(self):
        return wrap(tm.ceil(self._term))

    def __round__(self, n=None):
        # CPython float.__round__ over the reals: nearest multiple of 10**-n, ties to the even multiple
        # (float rounding of x itself is outside the real-number semantics, as everywhere else)
        if n is not None and not (isinstance(n, int) and not is_symbolic(n)):
            raise Unsupported('round() with a symbolic number of digits')
        from fractions import Fraction
        scale = tm.const(Fraction(10) ** int(n or 0), 'R')
        y = tm.mul(self._term, scale)
        f = tm.floor(y)
        frac = tm.sub(y, tm.toreal(f)) if hasattr(tm, 'toreal') else tm.sub(y, f)
        half = tm.const(Fraction(1, 2), 'R')
        one = tm.const(1, 'I')
        odd = tm.eq(tm.mod(f, tm.const(2, 'I')), one)
        up = tm.add(f, one)
        r = tm.ite(tm.lt(frac, half), f, tm.ite(tm.gt(frac, half), up, tm.ite(odd, up, f)))
        if n is None:
            return wrap(r)
        return wrap(tm.div(tm.toreal(r) if hasattr(tm, 'toreal') else r, scale))


class SInt(_SNum, int):
    """Symbolic integer.  It subclasses `int` so that `isinstance(time_step, int)` in the code under
    verification takes the same branch as for a concrete step; the underlying int value (0) is never
    meaningful: every arithmetic/comparison dunder is overridden and __index__/__int__ refuse."""

    def __new__(cls, t):
        obj = int.__new__(cls, 0)
        obj._term = t
        return obj

    def __init__(self, t):
        pass

    def __hash__(self):
        return hash(self._term)

    def __repr__(self):
        return 'SInt(%s)' % tm.show(self._term)

    __str__ = __repr__

    def __format__(self, spec):
        return repr(self)

    def __index__(self):
        raise Unsupported('symbolic integer used as a concrete index (%s)' % tm.show(self._term))

    def __int__(self):
        raise Unsupported('int() of a symbolic integer')

    def __float__(self):
        raise Unsupported('float() of a symbolic integer')

    def __floordiv__(self, o):
        return self._bin(o, tm.idiv)

    def __rfloordiv__(self, o):
        return self._bin(o, tm.idiv, True)

    def __mod__(self, o):
        return self._bin(o, tm.mod)

    def __rmod__(self, o):
        return self._bin(o, tm.mod, True)

    def __floor__(self):
        return self

    def __ceil__(self):
        return self


def special(fname, x):
    """exp/log/sqrt/... on a scalar (python float or proxy) with definedness obligations."""
    t = tm.toreal(lift(x))
    c = Ctx.current
    if fname == 'log' and c is not None:
        c.oblige('defined', 'log', tm.gt(t, tm.ZERO), info='argument %s' % tm.show(t))
    if fname == 'sqrt' and c is not None:
        c.oblige('defined', 'sqrt', tm.ge(t, tm.ZERO), info='argument %s' % tm.show(t))
    return wrap(tm.app(fname, t))


# ------------------------------------------------------------------ symbolic `math` module

class SymMath:
    """Drop-in for the names pfhedge imports from `math`, total on proxies."""
    pi = math.pi
    e = math.e
    inf = math.inf

    @staticmethod
    def ceil(x):
        if is_symbolic(x):
            return wrap(tm.ceil(lift(x)))
        if hasattr(x, '__ceil__') and not isinstance(x, (int, float)):
            return x.__ceil__()
        return math.ceil(x)

    @staticmethod
    def floor(x):
        if is_symbolic(x):
            return wrap(tm.floor(lift(x)))
        if hasattr(x, '__floor__') and not isinstance(x, (int, float)):
            return x.__floor__()
        return math.floor(x)

    @staticmethod
    def exp(x):
        if is_symbolic(x) or hasattr(x, '_as_scalar_term'):
            return special('exp', x)
        return math.exp(x)

    @staticmethod
    def log(x):
        if is_symbolic(x) or hasattr(x, '_as_scalar_term'):
            return special('log', x)
        return math.log(x)

    @staticmethod
    def sqrt(x):
        if is_symbolic(x) or hasattr(x, '_as_scalar_term'):
            return special('sqrt', x)
        return math.sqrt(x)

    @staticmethod
    def log10(x):
        if is_symbolic(x) or hasattr(x, '_as_scalar_term'):
            return special('log', x) / math.log(10.0)
        return math.log10(x)

    def __getattr__(self, name):
        return getattr(math, name)


symmath = SymMath()

import builtins as _bi


class _IntMeta(type):
    def __instancecheck__(cls, x):
        return isinstance(x, _bi.int)

    def __subclasscheck__(cls, sub):
        return issubclass(sub, _bi.int)


class symint(_bi.int, metaclass=_IntMeta):
    """`int` as seen by the code under verification: usable as a type in isinstance(), and as a
    conversion it truncates toward zero on proxies instead of concretising them."""
    def __new__(cls, x=0, *a):
        if isinstance(x, SInt):
            return x
        if isinstance(x, SReal):
            t = x._term
            return wrap(tm.ite(tm.ge(t, tm.ZERO), tm.floor(t), tm.neg(tm.floor(tm.neg(t)))))
        if hasattr(x, '_as_scalar_term') and not isinstance(x, (_bi.int, _bi.float, str)):
            t = x._as_scalar_term()
            if t.op == 'const':
                return _bi.int(t.args[0])
            return symint(wrap(t))
        return _bi.int(x, *a)


class _FloatMeta(type):
    def __instancecheck__(cls, x):
        return isinstance(x, _bi.float)

    def __subclasscheck__(cls, sub):
        return issubclass(sub, _bi.float)


class symfloat(_bi.float, metaclass=_FloatMeta):
    def __new__(cls, x=0.0):
        if isinstance(x, SReal):
            return x
        if isinstance(x, SInt):
            return wrap(tm.toreal(x._term))
        if hasattr(x, '_as_scalar_term') and not isinstance(x, (_bi.int, _bi.float, str)):
            t = x._as_scalar_term()
            if t.op == 'const':
                return _bi.float(t.args[0])
            return wrap(tm.toreal(t)) if t.sort != 'R' else wrap(t)
        return _bi.float(x)


# ------------------------------------------------------------------ path exploration

class Path:
    def __init__(self):
        self.decisions = []
        self.pc = []
        self.assumed = []
        self.result = None
        self.exception = None
        self.aborted = None
        self.side = []
        self.events = []
        self.writes = []
        self.ctx = None
        self.traceback = ''
        self.exc_file = ''
        self.exc_line = 0
        self.exc_src = ''

    def facts(self, hyps):
        return list(hyps) + self.assumed + self.pc

    def outcome(self):
        if self.exception is not None:
            return 'raises:' + type(self.exception).__name__
        if self.aborted is not None:
            return 'abort:' + self.aborted.kind
        if getattr(self, 'bounds_bad', None):
            # an assumption of the torch shim (index / slice within range - torch would clamp or raise) is not provable on this
            # path: the path's result is not trusted (callers treat anything but 'returns' as undecided)
            return 'assumption-unproved:' + self.bounds_bad[0][0]
        return 'returns'


def explore(run, hyps=(), max_paths=200, decide_timeout_ms=3000, enforce_bounds=False):
    """run(ctx) builds fresh symbolic inputs and calls the real function; returns its result.
    Explores every path; returns list[Path].  Raises Unsupported if the code leaves the subset."""
    paths = []
    work = [[]]
    while work:
        prefix = work.pop()
        c = Ctx(hyps=hyps, prefix=prefix, decide_timeout_ms=decide_timeout_ms)
        Ctx.current = c
        p = Path()
        try:
            p.result = run(c)
        except PathAbort as e:
            p.aborted = e
        except Unsupported:
            Ctx.current = None
            raise
        except (ValueError, RuntimeError, TypeError, KeyError, AttributeError, AssertionError,
                NotImplementedError, IndexError, ZeroDivisionError) as e:
            p.exception = e
            import traceback as _tb
            p.traceback = _tb.format_exc()
            frames = _tb.extract_tb(e.__traceback__)
            p.exc_file = frames[-1].filename if frames else ''
            p.exc_line = frames[-1].lineno if frames else 0
            p.exc_src = (frames[-1].line or '') if frames else ''
        finally:
            Ctx.current = None
        p.decisions = list(c.trace)
        p.pc = list(c.pc)
        p.assumed = list(c.assumed)
        p.side = list(c.side)
        p.events = list(c.events)
        p.writes = list(c.writes)
        p.ctx = c
        p.bounds_bad = []
        if enforce_bounds and p.exception is None and p.aborted is None:
            from . import smt as _smt
            for so in p.side:
                if so['kind'] == 'bounds':
                    r_ = _smt.prove(so['hyps'], so['goal'], timeout_ms=10000, want_model=False)
                    if r_.status != 'unsat':
                        p.bounds_bad.append((so['name'], so.get('info'), r_.status))
        paths.append(p)
        work.extend(c.pending)
        if len(paths) > max_paths:
            raise Unsupported('path explosion (> %d paths)' % max_paths)
    return paths


class with_ctx:
    """re-enter the context of an explored path (to evaluate closures captured during the run)"""
    def __init__(self, c):
        self.c = c

    def __enter__(self):
        self.prev = Ctx.current
        Ctx.current = self.c
        return self.c

    def __exit__(self, *a):
        Ctx.current = self.prev
        return False
