"""Concrete evaluation of terms in 50-digit arithmetic (mpmath) - the second, executable encoding
used by the cross-check against real torch and by counterexample replay."""
from fractions import Fraction
import mpmath as mp

from . import terms as tm

mp.mp.dps = 50


class Undefined(Exception):
    pass


def _num(v):
    if isinstance(v, bool):
        return v
    if isinstance(v, int):
        return v
    if isinstance(v, Fraction):
        return mp.mpf(v.numerator) / mp.mpf(v.denominator)
    return mp.mpf(v)


_SPECIAL = {
    'exp': mp.exp,
    'cos': mp.cos,
    'sin': mp.sin,
    'ncdf': mp.ncdf,
    'npdf': mp.npdf,
    'cbrt': lambda x: mp.cbrt(x) if x >= 0 else -mp.cbrt(-x),
}


def evaluate(t, env, funcs=None):
    """env: var name -> value; '@name' -> callable(*idx) for input tensors.
    funcs: fname -> python callable for uninterpreted apps."""
    funcs = funcs or {}
    cache = {}

    def ev(u, local):
        key = u if not local else None
        if key is not None and key in cache:
            return cache[key]
        r = _ev(u, local)
        if key is not None:
            cache[key] = r
        return r

    def _ev(u, local):
        op, a = u.op, u.args
        if op == 'const':
            return _num(a[0])
        if op == 'var':
            if a[0] in local:
                return local[a[0]]
            if a[0] in env:
                return _num(env[a[0]])
            raise KeyError('no value for variable %s' % a[0])
        if op == 'add':
            r = ev(a[0], local)
            for x in a[1:]:
                r = r + ev(x, local)
            return r
        if op == 'mul':
            r = ev(a[0], local)
            for x in a[1:]:
                r = r * ev(x, local)
            return r
        if op == 'neg':
            return -ev(a[0], local)
        if op == 'div':
            d = ev(a[1], local)
            if d == 0:
                raise Undefined('division by zero')
            return mp.mpf(ev(a[0], local)) / d
        if op == 'pow':
            b, e = ev(a[0], local), ev(a[1], local)
            if isinstance(e, int):
                if e >= 0:
                    return b ** e
                if b == 0:
                    raise Undefined('0 ** negative')
                return mp.mpf(b) ** e
            if b < 0:
                raise Undefined('negative base with fractional exponent')
            if b == 0:
                if e > 0:
                    return mp.mpf(0)
                raise Undefined('0 ** non-positive')
            return mp.power(b, e)
        if op == 'ite':
            return ev(a[1], local) if ev(a[0], local) else ev(a[2], local)
        if op == 'lt':
            return ev(a[0], local) < ev(a[1], local)
        if op == 'le':
            return ev(a[0], local) <= ev(a[1], local)
        if op == 'eq':
            return ev(a[0], local) == ev(a[1], local)
        if op == 'and':
            return all(ev(x, local) for x in a)
        if op == 'or':
            return any(ev(x, local) for x in a)
        if op == 'not':
            return not ev(a[0], local)
        if op == 'abs':
            return abs(ev(a[0], local))
        if op == 'max':
            return max(ev(a[0], local), ev(a[1], local))
        if op == 'min':
            return min(ev(a[0], local), ev(a[1], local))
        if op == 'floor':
            return int(mp.floor(ev(a[0], local)))
        if op == 'toreal':
            return mp.mpf(ev(a[0], local))
        if op == 'mod':
            return ev(a[0], local) % ev(a[1], local)
        if op == 'idiv':
            return ev(a[0], local) // ev(a[1], local)
        if op == 'sel':
            f = env['@' + a[0]]
            return _num(f(*[ev(x, local) for x in a[1:]]))
        if op == 'app':
            name = a[0]
            if name == 'stopgrad':
                return ev(a[1], local)
            args = [ev(x, local) for x in a[1:]]
            if name == 'log':
                if args[0] <= 0:
                    raise Undefined('log of non-positive')
                return mp.log(args[0])
            if name == 'sqrt':
                if args[0] < 0:
                    raise Undefined('sqrt of negative')
                return mp.sqrt(args[0])
            if name in _SPECIAL:
                return _SPECIAL[name](args[0])
            if name in ('ostat_bot', 'ostat_top'):
                j, bag = args
                srt = sorted(bag, reverse=(name == 'ostat_top'))
                if not 0 <= j < len(srt):
                    raise Undefined('order statistic index out of range')
                return srt[j]
            if name in funcs:
                return _num(funcs[name](*args))
            raise KeyError('no interpretation for function %s' % name)
        if op == 'forall':
            bv, lo, hi, body = a
            l, h = ev(lo, local), ev(hi, local)
            for k in range(l, h):
                loc2 = dict(local)
                loc2[bv.args[0]] = k
                if not ev(body, loc2):
                    return False
            return True
        if op == 'bag':
            bv, lo, hi, body = a
            l, h = ev(lo, local), ev(hi, local)
            vals = []
            for k in range(l, h):
                loc2 = dict(local)
                loc2[bv.args[0]] = k
                vals.append(ev(body, loc2))
            return tuple(vals)
        if op == 'prod':
            bv, lo, hi, body = a
            l, h = ev(lo, local), ev(hi, local)
            r = mp.mpf(1)
            for k in range(l, h):
                loc2 = dict(local)
                loc2[bv.args[0]] = k
                r = r * ev(body, loc2)
            return r
        if op in ('sum', 'bmax', 'bmin'):
            bv, lo, hi, body = a
            l, h = ev(lo, local), ev(hi, local)
            vals = []
            for k in range(l, h):
                loc2 = dict(local)
                loc2[bv.args[0]] = k
                vals.append(ev(body, loc2))
            if op == 'sum':
                r = mp.mpf(0) if u.sort == 'R' else 0
                for v in vals:
                    r = r + v
                return r
            if not vals:
                raise Undefined('max/min over an empty range')
            return max(vals) if op == 'bmax' else min(vals)
        raise ValueError(op)

    return ev(t, {})
