"""./check --replay <replay file>: re-derive and re-run ONE obligation (the one named in the replay file) on the
current tree, including its replay on the real code, and print the outcome.
exit 1: still refuted (the violation reproduces); 0: the obligation is proved now; 2: undecided; 3: not found."""
import importlib
import json
import os
import sys


def main(path):
    rp = json.load(open(path))
    prop, oid = rp['property'], rp['obligation']
    from . import framework
    sys.path.insert(0, framework.REPO)
    module = importlib.import_module('contracts.' + prop.lower())
    spec = module.build(rp.get('tier', 'quick'), int(rp.get('seed', 0)))
    obs = [o for o in spec['obligations'] if o.id == oid]
    if not obs:
        print('obligation %s is not generated for %s on this tree' % (oid, prop))
        return 3
    v = obs[0].run()
    print('obligation : %s' % oid)
    print('clause     : %s' % (obs[0].clause or '')[:400])
    print('verdict    : %s (%s, %.2fs)' % (v.status, v.backend, v.time_s or 0.0))
    print('detail     : %s' % (v.detail or '')[:1200])
    if v.witness:
        print('witness    : %s' % json.dumps(framework.jsonable(v.witness), default=str)[:1500])
    if v.replay:
        print('real code  : %s' % json.dumps(framework.jsonable(v.replay), default=str)[:1500])
    if v.status == 'refuted':
        print('VIOLATION property=%s replay=%s%s' % (prop, path, '' if (v.replay and v.replay.get('confirmed')) else ' no-failing-input-found'))
        return 1
    return 0 if v.status == 'proved' else 2
