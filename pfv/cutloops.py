"""Mechanical loop cutting and callee stubbing (DESIGN 2.2).

`cut(fn, loops={ordinal: LoopSpec}, stubs={name: callable})` re-compiles ONE function from its real
source in /repo: every `while`/`for` listed in `loops` is replaced by

    inv_init;  havoc(assigned names);  assume(inv [and loop-variable range]);
    if <cond>:  <original body>;  inv_preserve; decreases;  stop
    # fall through = loop exit: inv and not cond (for-loops: inv at the end of the range)

Nothing else in the function is touched.  The rewritten function is compiled in the module's own
globals (optionally with some global names rebound to contract stubs).  The rewrite is printed into
the evidence next to the SHA-256 of the original source segment."""
import ast
import copy
import hashlib
import inspect
import textwrap

from . import terms as tm
from .proxies import ctx, PathAbort, SInt, SReal, wrap, lift, Unsupported


class LoopSpec:
    def __init__(self, inv, decreases=None, havoc=None, loop_var_range=None, name='', lemmas=None, abstractions=None, heap_havoc=None):
        """inv(state, state0) -> T (bool) | list[(label, T)]   state: dict name -> current value
        decreases(state) -> T (int), must be >= 0 and strictly decrease over one iteration
        havoc: optional dict name -> callable(old_value, ctx) -> fresh value (default: by type)"""
        self.inv = inv
        self.decreases = decreases
        self.havoc = havoc or {}
        self.name = name
        self.abstractions = abstractions or {}    # local name -> (state, tensor) -> [(label, fn(n) -> T)]: after the assignment the
        # facts are proved about the computed tensor at a fresh index and the local is re-bound to an opaque tensor satisfying them
        self.heap_havoc = heap_havoc   # (state) -> None: havoc of heap locations the body writes (module buffers written by hooks ...)
        self.lemmas = lemmas      # (state) -> [(label, T)]: intermediate assertions, each proved then assumed (cut rule)


class _Runtime:
    def __init__(self, loops):
        self.loops = loops
        self.entry = {}

    # ---- helpers called from rewritten code
    def init(self, k, state):
        spec = self.loops[k]
        c = ctx()
        self.entry[k] = dict(state)
        for (label, cond) in _as_list(spec.inv(state, state)):
            c.oblige('inv-init', 'loop %s: %s' % (spec.name or k, label), cond)

    def havoc(self, k, name, old, inplace_only=False):
        spec = self.loops[k]
        c = ctx()
        if name in spec.havoc:
            return spec.havoc[name](old, c)
        return default_havoc(name, old, c, k, inplace_only)

    def assume(self, k, state):
        spec = self.loops[k]
        c = ctx()
        if spec.heap_havoc is not None:
            spec.heap_havoc(state)
        for (label, cond) in _as_list(spec.inv(state, self.entry[k])):
            c.assume(cond)
        self._pre = dict(state)

    def abstract(self, k, name, value, state):
        """modular cut inside the loop body: prove the declared facts about `value`, then forget how it was computed"""
        from .torchlib.tensor import Tensor, ti
        spec = self.loops[k]
        c = ctx()
        if not isinstance(value, Tensor) or len(value._shape) != 1:
            raise Unsupported('abstraction of %s: only 1-D tensors' % name)
        facts = spec.abstractions[name](state, value)
        n_ = ti(value._shape[0])
        self._nabs = getattr(self, '_nabs', 0) + 1
        opaque = Tensor.input('abs%d_%s' % (self._nabs, name), value._shape, value.dtype, origin='fresh')
        opaque.deps = value.deps
        for (label, fn) in facts:
            sk = c.fresh('ab', 'I')
            c.oblige('lemma', 'loop %s: %s' % (spec.name or k, label), tm.implies(tm.and_(tm.le(tm.IZERO, sk), tm.lt(sk, n_)), fn(value, sk)))
            q = c.fresh('aq', 'I')
            c.assume(tm.forall(q, tm.IZERO, n_, fn(opaque, q)))
        return opaque

    def preserve(self, k, state):
        spec = self.loops[k]
        c = ctx()
        if spec.lemmas is not None:
            for entry in spec.lemmas(state):
                label, cond = entry[0], entry[1]
                if callable(cond):
                    # index-wise lemma  (lo, hi, fn):  proved at a fresh index, then assumed for every index
                    lo, hi = entry[2], entry[3]
                    sk = c.fresh('lm', 'I')
                    opts = entry[4] if len(entry) > 4 else None
                    if opts:
                        # generalisation: the listed sub-terms are replaced by fresh variables and the lemma is proved
                        # from the listed earlier lemma instances ONLY (a more general statement; sound)
                        amap = {t_: c.fresh('ab_' + nm, t_.sort) for nm, t_ in opts['abstract'](sk).items()}
                        goal2 = tm.subst(cond(sk), amap)
                        using2 = [tm.subst(u_, amap) for u_ in opts['using'](sk)]
                        c.side.append({'kind': 'lemma', 'name': 'loop %s: %s [generalised]' % (spec.name or k, label), 'hyps': using2, 'goal': goal2, 'info': None})
                    else:
                        c.oblige('lemma', 'loop %s: %s' % (spec.name or k, label), tm.implies(tm.and_(tm.le(lo, sk), tm.lt(sk, hi)), cond(sk)))
                    q = c.fresh('lq', 'I')
                    c.assume(tm.forall(q, lo, hi, cond(q)))
                else:
                    c.oblige('lemma', 'loop %s: %s' % (spec.name or k, label), cond)
                    c.assume(cond)
        for (label, cond) in _as_list(spec.inv(state, self.entry[k])):
            c.oblige('inv-preserve', 'loop %s: %s' % (spec.name or k, label), cond)
        if spec.decreases is not None:
            before = tm.as_term(lift(spec.decreases(self._pre)))
            after = tm.as_term(lift(spec.decreases(state)))
            c.oblige('decreases', 'loop %s' % (spec.name or k), tm.and_(tm.ge(before, tm.const(0, before.sort)), tm.lt(after, before)))
        raise PathAbort('loop-cut', 'end of arbitrary iteration of loop %s' % (spec.name or k))

    def for_range(self, k, it):
        """Recognise `range(a, b)` / `range(b)` produced by the shimmed builtins."""
        if isinstance(it, SymRange):
            return it
        if isinstance(it, range):
            return SymRange(it.start, it.stop) if it.step == 1 else None
        inner = getattr(it, 'iterable', None)          # tqdm(range(...)) - assumed transparent
        if inner is not None:
            return self.for_range(k, inner)
        return None


def _cint(x):
    return isinstance(x, int) and not hasattr(x, '_term')


class SymRange:
    def __init__(self, a, b=None):
        if b is None:
            a, b = 0, a
        self.start, self.stop = a, b

    def __iter__(self):
        a, b = self.start, self.stop
        if _cint(a) and _cint(b):
            return iter(range(a, b))
        raise Unsupported('iteration over a symbolic range outside a declared loop')

    def __len__(self):
        n = self.stop - self.start
        if _cint(n):
            return max(n, 0)
        raise Unsupported('len of a symbolic range')


def sym_range(*args):
    if all(_cint(a) for a in args):
        return range(*args)
    if len(args) > 2:
        raise Unsupported('range with a step')
    return SymRange(*args)


def _as_list(x):
    if isinstance(x, (list, tuple)):
        return list(x)
    return [('invariant', x)]


_hv = [0]


def default_havoc(name, old, c, k, inplace_only=False):
    from .torchlib.tensor import Tensor
    _hv[0] += 1
    tag = 'hv%s_%s' % (k, name)
    if old is UNBOUND:
        return UNBOUND
    if isinstance(old, Tensor):
        # a name that the loop body only MUTATES in place (x[...] = ...) still denotes the object it denoted at loop entry: the
        # havocked contents live in a storage of the same origin, so that a write into caller-owned data stays visible to frames
        org = old.storage.origin if inplace_only else 'fresh'
        t = Tensor.input(tag, old._shape, old.dtype, origin=org)
        t.deps = old.deps
        return t
    if isinstance(old, bool):
        raise Unsupported('havoc of a python bool %s' % name)
    if isinstance(old, (int, SInt)):
        return SInt(tm.var(tag, 'I'))
    if isinstance(old, (float, SReal)):
        return SReal(tm.var(tag, 'R'))
    if old is None:
        return None
    raise Unsupported('cannot havoc %s of type %s' % (name, type(old).__name__))


class SymList(list):
    """A Python list of tensors of which the first `stacked_len` LOGICAL elements are represented by one
    stacked tensor (physical item 0, shape (..., stacked_len, H): element k is stacked[..., k:k+1, :]) -
    the havocked value of a list that a cut loop grows by `append`.  Items appended afterwards are
    ordinary physical items, so `torch.cat(self, dim=-2)` of the shim is the concatenation of all
    logical elements.  Only what the cut bodies use is supported: append, [-1], iteration by cat."""

    def __init__(self, stacked, stacked_len):
        super().__init__([stacked])
        self.stacked = stacked
        self.stacked_len = stacked_len

    def __getitem__(self, k):
        if isinstance(k, int) and not hasattr(k, '_term') and k == -1:
            if len(self) > 1:
                return list.__getitem__(self, -1)
            L = lift(self.stacked_len)
            c = ctx()
            c.oblige('bounds', 'last element of a list of symbolic length: length >= 1', tm.ge(L, tm.IONE))
            st = self.stacked
            rd = st.reader()
            from .torchlib.tensor import Tensor
            d = len(st._shape) - 2
            shape = st._shape[:d] + (1,) + st._shape[d + 1:]
            return Tensor.fresh(lambda idx: rd(idx[:d] + (tm.add(tm.sub(L, tm.IONE), idx[d]),) + idx[d + 1:]), shape, st.dtype, st.deps)
        raise Unsupported('indexing a list of symbolic length at %r' % (k,))

    def logical_len(self):
        return tm.add(lift(self.stacked_len), tm.const(len(self) - 1, 'I'))


class SymStack(SymList):
    """like SymList, for lists consumed by `torch.stack(list)` (dim 0): the first `stacked_len` logical elements are the rows
    stacked[k] of one tensor of shape (stacked_len, *element_shape); items appended afterwards are ordinary physical items."""
    pfv_stack = True

    def __getitem__(self, k):
        raise Unsupported('indexing a stacked list of symbolic length')

    def elem(self, k, idx=()):
        """element term of logical item k at index idx"""
        phys = list(list.__iter__(self))
        L = lift(self.stacked_len)
        val = phys[0].at((k,) + tuple(idx))
        for j_, it in enumerate(phys[1:]):
            val = tm.ite(tm.lt(k, tm.add(L, tm.const(j_, 'I'))), val, it.at(tuple(idx)))
        return val


def list_len(x):
    """logical length (term) of a plain list or a SymList"""
    return x.logical_len() if isinstance(x, SymList) else tm.const(len(x), 'I')


class _Unbound:
    """value of a name that is first assigned inside the loop body (unbound at loop entry)"""
    def __repr__(self):
        return '<unbound>'

    def __getattr__(self, n):
        raise Unsupported('use of a variable that is only assigned inside a cut loop')


UNBOUND = _Unbound()


def _cur(n):
    # locals().get('n', __pfv_UNBOUND)
    return ast.Call(ast.Attribute(ast.Call(ast.Name('locals', ast.Load()), [], []), 'get', ast.Load()), [ast.Constant(n), ast.Name('__pfv_UNBOUND', ast.Load())], [])


class _ContinueToBreak(ast.NodeTransformer):
    """inside the body of a loop that is being cut: `continue` ends the arbitrary iteration.  The body is wrapped as
    `while True: <body>; break` and every `continue` of THIS loop becomes `break` (nested loops and functions are left alone);
    a `break` of the cut loop itself is not supported."""
    def __init__(self):
        self.found = False

    def visit_For(self, node):
        return node

    visit_While = visit_For
    visit_AsyncFor = visit_For
    visit_FunctionDef = visit_For
    visit_Lambda = visit_For

    def visit_Continue(self, node):
        self.found = True
        return ast.copy_location(ast.Break(), node)

    def visit_Break(self, node):
        raise Unsupported('break inside a cut loop')


def _wrap_continue(body):
    tr = _ContinueToBreak()
    new = [tr.visit(st) for st in body]
    if not tr.found:
        return new
    return [ast.While(ast.Constant(True), new + [ast.Break()], [])]


class _Cutter(ast.NodeTransformer):
    def __init__(self, loops):
        self.loops = loops
        self.ordinal = -1
        self.depth = 0

    def _rebound(self, body):
        """names re-bound by a plain assignment / augmented assignment / loop target somewhere in the body"""
        out = set()
        for node in body:
            for sub in ast.walk(node):
                tgt = []
                if isinstance(sub, ast.Assign):
                    tgt = sub.targets
                elif isinstance(sub, (ast.AugAssign, ast.AnnAssign)):
                    tgt = [sub.target]
                elif isinstance(sub, ast.For):
                    tgt = [sub.target]
                stack = list(tgt)
                while stack:
                    n = stack.pop()
                    if isinstance(n, ast.Name):
                        out.add(n.id)
                    elif isinstance(n, (ast.Tuple, ast.List)):
                        stack.extend(n.elts)
                    elif isinstance(n, ast.Starred):
                        stack.append(n.value)
        return out

    def _assigned(self, body):
        names = []
        for node in body:
            for sub in ast.walk(node):
                tgt = []
                if isinstance(sub, ast.Assign):
                    tgt = sub.targets
                elif isinstance(sub, (ast.AugAssign, ast.AnnAssign)):
                    tgt = [sub.target]
                elif isinstance(sub, (ast.For,)):
                    tgt = [sub.target]
                if isinstance(sub, ast.Call) and isinstance(sub.func, ast.Attribute) and sub.func.attr in ('append', 'extend', 'insert', 'pop') \
                        and isinstance(sub.func.value, ast.Name) and sub.func.value.id not in names \
                        and sub.func.value.id in getattr(self.loops.get(self.ordinal), 'havoc', {}):
                    # a list grown in the body is havocked as a whole ONLY when the loop spec gives a havoc rule for it (SymList);
                    # otherwise it is left alone (ghost observers such as a history list keep what the arbitrary iteration appends)
                    names.append(sub.func.value.id)
                for t_ in tgt:
                    # plain names (and names in tuple/list unpacking) are re-bound; `x[i] = ...` mutates the
                    # tensor bound to x, which is havocked as a whole; `x.attr = ...` is left alone
                    stack = [t_]
                    while stack:
                        n = stack.pop()
                        if isinstance(n, ast.Name):
                            if n.id not in names:
                                names.append(n.id)
                        elif isinstance(n, (ast.Tuple, ast.List)):
                            stack.extend(n.elts)
                        elif isinstance(n, ast.Starred):
                            stack.append(n.value)
                        elif isinstance(n, ast.Subscript) and isinstance(n.value, ast.Name):
                            if n.value.id not in names:
                                names.append(n.value.id)
        return names

    def _state(self, names):
        # {'a': a, ...} restricted to names that are bound (locals())
        return ast.parse('{k_: v_ for k_, v_ in locals().items() if not k_.startswith("__") and v_ is not __pfv_UNBOUND}', mode='eval').body

    def visit_FunctionDef(self, node):
        if self.depth > 0:
            return node        # nested defs are left alone (their loops are not counted)
        self.depth += 1
        self.generic_visit(node)
        self.depth -= 1
        return node

    def _with_abstractions(self, k, body):
        names = getattr(self.loops[k], 'abstractions', None) or {}
        if not names:
            return body
        out = []
        for st in body:
            out.append(st)
            if isinstance(st, ast.Assign) and len(st.targets) == 1 and isinstance(st.targets[0], ast.Name) and st.targets[0].id in names:
                nm = st.targets[0].id
                out.append(ast.Assign([ast.Name(nm, ast.Store())],
                                      ast.Call(ast.Attribute(ast.Name('__pfv', ast.Load()), 'abstract', ast.Load()),
                                               [ast.Constant(k), ast.Constant(nm), ast.Name(nm, ast.Load()), self._state(None)], [])))
        return out

    def visit_While(self, node):
        self.ordinal += 1
        k = self.ordinal
        if k not in self.loops:
            return node
        assigned = self._assigned(node.body)
        pre = [ast.Expr(ast.Call(ast.Attribute(ast.Name('__pfv', ast.Load()), 'init', ast.Load()), [ast.Constant(k), self._state(None)], []))]
        rebound = self._rebound(node.body)
        for n in assigned:
            pre.append(ast.Assign([ast.Name(n, ast.Store())],
                                  ast.Call(ast.Attribute(ast.Name('__pfv', ast.Load()), 'havoc', ast.Load()), [ast.Constant(k), ast.Constant(n), _cur(n), ast.Constant(n not in rebound)], [])))
        pre.append(ast.Expr(ast.Call(ast.Attribute(ast.Name('__pfv', ast.Load()), 'assume', ast.Load()), [ast.Constant(k), self._state(None)], [])))
        body = _wrap_continue(list(node.body)) + [ast.Expr(ast.Call(ast.Attribute(ast.Name('__pfv', ast.Load()), 'preserve', ast.Load()), [ast.Constant(k), self._state(None)], []))]
        cut = ast.If(node.test, body, [])
        return pre + [cut]

    def visit_For(self, node):
        self.ordinal += 1
        k = self.ordinal
        if k not in self.loops:
            return node
        if not isinstance(node.target, ast.Name):
            raise Unsupported('for-loop target is not a simple name')
        v = node.target.id
        assigned = [n for n in self._assigned(node.body) if n != v]
        P = lambda attr, args: ast.Call(ast.Attribute(ast.Name('__pfv', ast.Load()), attr, ast.Load()), args, [])
        out = []
        # __rng = __pfv.for_range(k, <iter>)
        out.append(ast.Assign([ast.Name('__rng%d' % k, ast.Store())], P('for_range', [ast.Constant(k), node.iter])))
        # loop variable at start for inv_init
        out.append(ast.Assign([ast.Name(v, ast.Store())], ast.Attribute(ast.Name('__rng%d' % k, ast.Load()), 'start', ast.Load())))
        out.append(ast.Expr(P('init', [ast.Constant(k), self._state(None)])))
        rebound = self._rebound(node.body)
        for n in assigned:
            out.append(ast.Assign([ast.Name(n, ast.Store())], P('havoc', [ast.Constant(k), ast.Constant(n), _cur(n), ast.Constant(n not in rebound)])))
        out.append(ast.Assign([ast.Name(v, ast.Store())], P('havoc', [ast.Constant(k), ast.Constant(v), ast.Constant(0)])))
        # the havocked loop variable ranges over start <= v <= stop ; v < stop = an iteration, v == stop = exit
        out.append(ast.Expr(P('assume_range', [ast.Constant(k), ast.Name(v, ast.Load()), ast.Name('__rng%d' % k, ast.Load())])))
        out.append(ast.Expr(P('assume', [ast.Constant(k), self._state(None)])))
        test = ast.Compare(ast.Name(v, ast.Load()), [ast.Lt()], [ast.Attribute(ast.Name('__rng%d' % k, ast.Load()), 'stop', ast.Load())])
        node.body = _wrap_continue(self._with_abstractions(k, node.body))
        body = list(node.body) + [ast.Assign([ast.Name(v, ast.Store())], ast.BinOp(ast.Name(v, ast.Load()), ast.Add(), ast.Constant(1))),
                                  ast.Expr(P('preserve', [ast.Constant(k), self._state(None)]))]
        out.append(ast.If(test, body, []))
        return out


class _DesugarListComp(ast.NodeTransformer):
    """`name = [elt for v in it]` (one generator, no condition, simple target)  ->  `name = []` + `for v in it: name.append(elt)`.
    This is the definition of a list comprehension except for the scope of `v` (which then leaks into the function: the
    rewrite is skipped when the function uses the name `v` anywhere else).  It turns a loop written as a comprehension into a
    loop statement that can be cut by an invariant; nothing else is touched."""

    def visit_FunctionDef(self, node):
        self._names = {}
        for sub in ast.walk(node):
            if isinstance(sub, ast.Name):
                self._names[sub.id] = self._names.get(sub.id, 0) + 1
            elif isinstance(sub, ast.arg):
                self._names[sub.arg] = self._names.get(sub.arg, 0) + 1
        node.body = self._block(node.body)
        return node

    @staticmethod
    def _pure_callee(f):
        while isinstance(f, ast.Attribute):
            f = f.value
        return isinstance(f, ast.Name)

    def _block(self, stmts):
        out = []
        for st in stmts:
            for fld in ('body', 'orelse', 'finalbody'):
                if isinstance(getattr(st, fld, None), list) and not isinstance(st, (ast.FunctionDef, ast.ClassDef)):
                    setattr(st, fld, self._block(getattr(st, fld)))
            if (isinstance(st, ast.Assign) and len(st.targets) == 1 and isinstance(st.targets[0], ast.Name) and isinstance(st.value, ast.Call)
                    and len(st.value.args) == 1 and not st.value.keywords and isinstance(st.value.args[0], ast.ListComp) and self._pure_callee(st.value.func)):
                # `x = f([elt for v in it])`: the comprehension is the first thing evaluated (the callee expression is a plain dotted name),
                # so it may be hoisted into `pfv_lcN = [elt for v in it]; x = f(pfv_lcN)` and then desugared like any other
                self._nlc = getattr(self, '_nlc', 0) + 1
                tmp = 'pfv_lc%d' % self._nlc
                hoisted = ast.Assign([ast.Name(tmp, ast.Store())], st.value.args[0])
                st.value.args[0] = ast.Name(tmp, ast.Load())
                out.extend(self._block([hoisted]))
                out.append(st)
                continue
            lc = st.value if (isinstance(st, ast.Assign) and len(st.targets) == 1 and isinstance(st.targets[0], ast.Name) and isinstance(st.value, ast.ListComp)) else None
            if lc is not None and len(lc.generators) == 1 and not lc.generators[0].ifs and not lc.generators[0].is_async and isinstance(lc.generators[0].target, ast.Name):
                v = lc.generators[0].target.id
                inside = sum(1 for sub in ast.walk(lc) if isinstance(sub, ast.Name) and sub.id == v)
                tgt = st.targets[0].id
                uses_tgt = any(isinstance(sub, ast.Name) and sub.id == tgt for sub in ast.walk(lc))
                if self._names.get(v, 0) == inside and not uses_tgt:
                    out.append(ast.Assign([ast.Name(tgt, ast.Store())], ast.List([], ast.Load())))
                    out.append(ast.For(ast.Name(v, ast.Store()), lc.generators[0].iter,
                                       [ast.Expr(ast.Call(ast.Attribute(ast.Name(tgt, ast.Load()), 'append', ast.Load()), [lc.elt], []))], []))
                    continue
            out.append(st)
        return out


def _assume_range(self, k, v, rng):
    c = ctx()
    lo, hi = lift(rng.start), lift(rng.stop)
    vt = lift(v)
    # start <= v <= max(start, stop)
    c.assume(tm.le(lo, vt))
    c.assume(tm.le(vt, tm.tmax(lo, hi)))


_Runtime.assume_range = _assume_range


def appended_names(fn):
    """names of the lists that the loops of fn (after comprehension desugaring) grow by `.append`, in loop order:
    [(loop ordinal, list name), ...] - lets a loop spec name the list without depending on how the source spells it"""
    fn0 = inspect.unwrap(fn)
    tree = ast.parse(textwrap.dedent(inspect.getsource(fn0)))
    tree = _DesugarListComp().visit(copy.deepcopy(tree))
    out = []
    ordinal = -1

    def rec(stmts):
        nonlocal ordinal
        for st in stmts:
            if isinstance(st, (ast.FunctionDef, ast.ClassDef)):
                continue
            if isinstance(st, (ast.For, ast.While)):
                ordinal += 1
                k = ordinal
                for sub in ast.walk(st):
                    if isinstance(sub, ast.Call) and isinstance(sub.func, ast.Attribute) and sub.func.attr == 'append' and isinstance(sub.func.value, ast.Name):
                        if (k, sub.func.value.id) not in out:
                            out.append((k, sub.func.value.id))
            for fld in ('body', 'orelse', 'finalbody'):
                if isinstance(getattr(st, fld, None), list):
                    rec(getattr(st, fld))
    rec(tree.body[0].body)
    return out


def loop_var(fn, ordinal):
    """name of the target of the `for` loop number `ordinal` of fn (after comprehension desugaring)"""
    fn0 = inspect.unwrap(fn)
    tree = ast.parse(textwrap.dedent(inspect.getsource(fn0)))
    tree = _DesugarListComp().visit(copy.deepcopy(tree))
    found = []

    def rec(stmts):
        for st in stmts:
            if isinstance(st, (ast.FunctionDef, ast.ClassDef)):
                continue
            if isinstance(st, (ast.For, ast.While)):
                found.append(st)
            for fld in ('body', 'orelse', 'finalbody'):
                if isinstance(getattr(st, fld, None), list):
                    rec(getattr(st, fld))
    rec(tree.body[0].body)
    st = found[ordinal]
    if not isinstance(st, ast.For) or not isinstance(st.target, ast.Name):
        raise Unsupported('loop %d is not a for-loop over a simple name' % ordinal)
    return st.target.id


def cut(fn, loops, stubs=None, extra_globals=None):
    """Return (new_function, info) - fn re-compiled with the listed loops cut and globals stubbed."""
    fn0 = inspect.unwrap(fn)
    src = textwrap.dedent(inspect.getsource(fn0))
    tree = ast.parse(src)
    fdef = tree.body[0]
    fdef.decorator_list = []
    if fdef.body and isinstance(fdef.body[0], ast.Expr) and isinstance(getattr(fdef.body[0], 'value', None), ast.Constant) and isinstance(fdef.body[0].value.value, str):
        fdef.body = fdef.body[1:]      # the docstring is dropped from the re-compiled copy
    tree = _DesugarListComp().visit(copy.deepcopy(tree))
    ast.fix_missing_locations(tree)
    cutter = _Cutter(loops)
    new = cutter.visit(copy.deepcopy(tree))
    ast.fix_missing_locations(new)
    rt = _Runtime(loops)
    g = dict(fn0.__globals__)
    g['__pfv'] = rt
    g['__pfv_UNBOUND'] = UNBOUND
    g['range'] = sym_range
    if stubs:
        g.update(stubs)
    if extra_globals:
        g.update(extra_globals)
    # closures: bind free variables as globals (good enough for methods using super() is NOT supported)
    if fn0.__closure__:
        for name, cell in zip(fn0.__code__.co_freevars, fn0.__closure__):
            try:
                g[name] = cell.cell_contents
            except ValueError:
                pass
    code = compile(new, filename='<pfv-cut:%s>' % fn0.__qualname__, mode='exec')
    ns = {}
    exec(code, g, ns)
    newfn = ns[fdef.name]
    newfn.__pfv_runtime__ = rt
    info = {'function': fn0.__module__ + '.' + fn0.__qualname__, 'source_sha256': hashlib.sha256(src.encode()).hexdigest()[:16],
            'loops_cut': sorted(loops), 'loops_seen': cutter.ordinal + 1, 'stubs': sorted(stubs or {}),
            'rewritten': ast.unparse(new)[:3000]}
    if cutter.ordinal + 1 <= max(loops) if loops else False:
        raise Unsupported('contract binds loop %s but the function has %d loop(s)' % (max(loops), cutter.ordinal + 1))
    return newfn, info
