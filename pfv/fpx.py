"""Bit-precise treatment of scalar float expressions taken from the real source (AST), for the two
places where a property talks about rounding: the step count and the forward-start index.
ast expression -> (a) native evaluator in IEEE double (Python floats ARE doubles), (b) z3 QF_FP term."""
import ast
import inspect
import math
import textwrap


def find_expr(fn, pick):
    """pick(ast_tree) -> ast expression node inside the source of fn"""
    src = textwrap.dedent(inspect.getsource(inspect.unwrap(fn)))
    tree = ast.parse(src)
    node = pick(tree)
    if node is None:
        raise LookupError('expression not found in %s' % fn.__qualname__)
    node = _inline_helpers(node, getattr(inspect.unwrap(fn), '__globals__', {}))
    return node, ast.unparse(node)


def _inline_helpers(node, glob, depth=0):
    """a call of a plain module-level helper whose body is one `return <expr>` (positional parameters only) is replaced by that
    expression with the arguments substituted: `_get_n_steps(h, self.dt)` with `def _get_n_steps(time_horizon, dt): return ceil(time_horizon / dt + 1)`"""
    if depth > 3:
        return node

    class Inl(ast.NodeTransformer):
        def visit_Call(self, nd):
            self.generic_visit(nd)
            if isinstance(nd.func, ast.Name) and not nd.keywords:
                g = glob.get(nd.func.id)
                if inspect.isfunction(g) and g.__module__ and g.__module__.startswith('pfhedge'):
                    try:
                        fdef = ast.parse(textwrap.dedent(inspect.getsource(g))).body[0]
                    except (OSError, TypeError, SyntaxError):
                        return nd
                    body = [st for st in fdef.body if not (isinstance(st, ast.Expr) and isinstance(getattr(st, 'value', None), ast.Constant) and isinstance(st.value.value, str))]
                    params = [a.arg for a in fdef.args.args]
                    if len(body) == 1 and isinstance(body[0], ast.Return) and body[0].value is not None and len(params) == len(nd.args) \
                            and not fdef.args.vararg and not fdef.args.kwarg and not fdef.args.kwonlyargs:
                        m = dict(zip(params, nd.args))

                        class Sub(ast.NodeTransformer):
                            def visit_Name(self, x):
                                return m[x.id] if (isinstance(x.ctx, ast.Load) and x.id in m) else x
                        expr = Sub().visit(ast.parse(ast.unparse(body[0].value), mode='eval').body)
                        return _inline_helpers(expr, g.__globals__, depth + 1)
            return nd
    return ast.fix_missing_locations(Inl().visit(ast.parse(ast.unparse(node), mode='eval').body))


def _inline_locals(tree, node, depth=0):
    """replace local names that are assigned exactly once (a plain `name = <expr>` statement) by their defining expression:
    `n = ceil(h / dt) + 1; f(n_steps=n)` is read as `f(n_steps=ceil(h / dt) + 1)`.  Names assigned more than once are left alone."""
    if depth > 4:
        return node
    assigns = {}
    for n in ast.walk(tree):
        if isinstance(n, ast.Assign) and len(n.targets) == 1 and isinstance(n.targets[0], ast.Name):
            assigns.setdefault(n.targets[0].id, []).append(n.value)
        elif isinstance(n, (ast.AugAssign, ast.AnnAssign)) and isinstance(n.target, ast.Name):
            assigns.setdefault(n.target.id, []).append(None)
        elif isinstance(n, (ast.For,)) and isinstance(n.target, ast.Name):
            assigns.setdefault(n.target.id, []).append(None)

    class Inl(ast.NodeTransformer):
        def visit_Name(self, nd):
            vals = assigns.get(nd.id)
            if isinstance(nd.ctx, ast.Load) and vals and len(vals) == 1 and vals[0] is not None:
                return _inline_locals(tree, ast.parse(ast.unparse(vals[0]), mode='eval').body, depth + 1)
            return nd
    return ast.fix_missing_locations(Inl().visit(ast.parse(ast.unparse(node), mode='eval').body))


def kwarg_expr(name):
    def pick(tree):
        for n in ast.walk(tree):
            if isinstance(n, ast.keyword) and n.arg == name:
                return _inline_locals(tree, n.value)
        return None
    return pick


def return_expr(tree):
    for n in ast.walk(tree):
        if isinstance(n, ast.Return):
            return n.value
    return None


def native(node, env):
    """evaluate with Python floats; env: unparsed-name -> float"""
    key = ast.unparse(node)
    if key in env:
        return env[key]
    if isinstance(node, ast.Constant) and isinstance(node.value, (int, float)):
        return node.value
    if isinstance(node, ast.BinOp):
        a, b = native(node.left, env), native(node.right, env)
        if isinstance(node.op, ast.Add):
            return a + b
        if isinstance(node.op, ast.Sub):
            return a - b
        if isinstance(node.op, ast.Mult):
            return a * b
        if isinstance(node.op, ast.Div):
            return a / b
    if isinstance(node, ast.Call) and isinstance(node.func, ast.Name) and len(node.args) == 1:
        a = native(node.args[0], env)
        if node.func.id == 'ceil':
            return math.ceil(a)
        if node.func.id == 'floor':
            return math.floor(a)
        if node.func.id == 'round':
            return round(a)
        if node.func.id == 'int':
            return int(a)
    if isinstance(node, ast.Call) and isinstance(node.func, ast.Name) and node.func.id == 'round' and len(node.args) == 2:
        return round(native(node.args[0], env), int(native(node.args[1], env)))
    if isinstance(node, ast.Call) and isinstance(node.func, ast.Name) and node.func.id in ('max', 'min'):
        vals = [native(a, env) for a in node.args]
        return max(vals) if node.func.id == 'max' else min(vals)
    raise NotImplementedError('float expression %s' % key)


def to_fp(node, env):
    """z3 FP term (double, RNE); ceil/floor round to integral toward +oo / -oo.  env: name -> z3 FP"""
    import z3
    rm = z3.RNE()
    F64 = z3.Float64()
    key = ast.unparse(node)
    if key in env:
        return env[key]
    if isinstance(node, ast.Constant) and isinstance(node.value, (int, float)):
        return z3.FPVal(float(node.value), F64)
    if isinstance(node, ast.BinOp):
        a, b = to_fp(node.left, env), to_fp(node.right, env)
        if isinstance(node.op, ast.Add):
            return z3.fpAdd(rm, a, b)
        if isinstance(node.op, ast.Sub):
            return z3.fpSub(rm, a, b)
        if isinstance(node.op, ast.Mult):
            return z3.fpMul(rm, a, b)
        if isinstance(node.op, ast.Div):
            return z3.fpDiv(rm, a, b)
    if isinstance(node, ast.Call) and isinstance(node.func, ast.Name) and len(node.args) == 1:
        a = to_fp(node.args[0], env)
        if node.func.id == 'ceil':
            return z3.fpRoundToIntegral(z3.RTP(), a)
        if node.func.id == 'floor':
            return z3.fpRoundToIntegral(z3.RTN(), a)
    raise NotImplementedError('float expression %s' % key)
