#!/usr/bin/env python3
"""Run checks against behaviour-preserving refactors: every check must exit 0 (2 = undecided is tolerated and reported;
1 = false alarm; 3 = engine error).  usage: equiv_check.py <dir with Rk/patch.diff ...> <out.json> [Cxx ...]"""
import json, os, subprocess, sys, glob, tempfile, shutil
src, out = sys.argv[1], sys.argv[2]
props = sys.argv[3:] or ['C%02d' % i for i in range(1, 21)]
V = os.path.dirname(os.path.dirname(os.path.abspath(__file__)))
res = {}
for pd in sorted(glob.glob(os.path.join(src, '*', 'patch.diff'))):
    name = os.path.basename(os.path.dirname(pd))
    tmp = tempfile.mkdtemp(prefix='pfv-eq-')
    try:
        subprocess.run(['git', '-C', '/repo', 'worktree', 'add', '-q', '--detach', tmp + '/repo', 'HEAD'], check=True)
        a = subprocess.run(['git', '-C', tmp + '/repo', 'apply', pd], capture_output=True, text=True)
        if a.returncode != 0:
            res[name] = {'apply': a.stderr[-200:]}
            continue
        env = dict(os.environ, PFV_REPO=tmp + '/repo', PFV_OUT=tmp + '/out')
        r_ = {}
        for p in props:
            r = subprocess.run([os.path.join(V, 'check'), p, 'quick'], capture_output=True, text=True, env=env)
            if r.returncode != 0:
                r_[p] = {'exit': r.returncode, 'lines': [l[:260] for l in r.stdout.splitlines() if l.split(' ')[0] in ('VIOLATION', 'UNDECIDED', 'ENGINE-UNSOUND', 'ENGINE-ERROR', 'ENGINE-NOTE')][:6]}
        res[name] = r_
        print(name, {k: v['exit'] for k, v in r_.items()} or 'all 0', flush=True)
    finally:
        subprocess.run(['git', '-C', '/repo', 'worktree', 'remove', '--force', tmp + '/repo'], capture_output=True)
        shutil.rmtree(tmp, ignore_errors=True)
    json.dump(res, open(out, 'w'), indent=1)
