"""Print python sources without docstrings (reading aid only)."""
import ast, sys
def strip(path):
    src = open(path).read()
    tree = ast.parse(src)
    for node in ast.walk(tree):
        if isinstance(node, (ast.FunctionDef, ast.ClassDef, ast.Module)):
            b = node.body
            if b and isinstance(b[0], ast.Expr) and isinstance(getattr(b[0], 'value', None), ast.Constant) and isinstance(b[0].value.value, str):
                node.body = b[1:] or [ast.Pass()]
    print('#### ', path); print(ast.unparse(tree))
for p in sys.argv[1:]:
    strip(p)
