#!/usr/bin/env python3
"""Run the repository's pinned suite (guard OFF) on a tree and compare with BASELINE.json's stable_pass.
usage: baseline_check.py [tree=/repo] [-n workers]
exit 0 iff every stable_pass test passed."""
import json, os, subprocess, sys, tempfile, xml.etree.ElementTree as ET
tree = sys.argv[1] if len(sys.argv) > 1 and not sys.argv[1].startswith('-') else '/repo'
workers = '12'
if '-n' in sys.argv:
    workers = sys.argv[sys.argv.index('-n') + 1]
base = json.load(open('/root/.vp/BASELINE.json'))
with tempfile.TemporaryDirectory() as td:
    xml = os.path.join(td, 'j.xml')
    env = dict(os.environ); env.pop('PFHEDGE_VERIF', None); env['PYTHONPATH'] = tree
    subprocess.run(['/venv/bin/python', '-m', 'pytest', '-q', '-p', 'no:cacheprovider', '--timeout=900',
                    '--continue-on-collection-errors', '-n', workers, '--junitxml=' + xml],
                   cwd=tree, env=env, stdout=subprocess.DEVNULL, stderr=subprocess.DEVNULL)
    passed = set()
    for tc in ET.parse(xml).getroot().iter('testcase'):
        if not any(ch.tag in ('failure', 'error', 'skipped') for ch in tc):
            passed.add(tc.get('classname') + '::' + tc.get('name'))
missing = [t for t in base['stable_pass'] if t not in passed]
print(f'stable_pass={len(base["stable_pass"])} passed_now={len(passed)} missing={len(missing)}')
for t in missing[:50]:
    print('  NOT PASSING:', t)
sys.exit(1 if missing else 0)
