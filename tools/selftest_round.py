#!/usr/bin/env python3
"""Cross-check of the symbolic `round()` term (pfv/proxies.py SReal.__round__) against CPython's exact
ties-to-even rounding of Fractions.  run: python3-vt tools/selftest_round.py   (exit 0 = agree)"""
import os, sys
sys.path.insert(0, os.path.dirname(os.path.dirname(os.path.abspath(__file__))))
from fractions import Fraction as Fr
from pfv import terms as tm, proxies as px, evalc
sx = px.wrap(tm.var('x', 'R'))
pts = [Fr(5, 2), Fr(7, 2), Fr(-5, 2), Fr(1004, 1000), Fr(1005, 1000), Fr(1015, 1000), Fr(-1005, 1000), Fr(1, 3), Fr(0),
       Fr(123456, 1000), Fr(2675, 1000), Fr(-7, 2), Fr(25, 1000), Fr(35, 1000)]
bad = 0
for nd in (None, 0, 1, 2, 3):
    r = round(sx) if nd is None else round(sx, nd)
    for v in pts:
        got, exp = evalc.evaluate(r._term, {'x': v}), (round(v) if nd is None else round(v, nd))
        if abs(float(got) - float(exp)) > 1e-12:
            bad += 1
            print('MISMATCH', nd, v, got, exp)
print('round selftest:', len(pts) * 5 - bad, 'agree,', bad, 'differ')
sys.exit(1 if bad else 0)
