#!/bin/sh
# run every check of the given tier (default quick) on the tree named by PFV_REPO (default /repo); print one summary line each
cd "$(dirname "$0")/.." || exit 3
tier=${1:-quick}
rc=0
for i in 01 02 03 04 05 06 07 08 09 10 11 12 13 14 15 16 17 18 19 20; do
  out=$(./check C$i $tier 2>&1); code=$?
  echo "$out" | grep -v "^WARNING\|^KNOWN-FINDING" | tail -3 | grep "VIOLATION\|UNDECIDED\|ENGINE" | cut -c1-200
  echo "exit=$code $(echo "$out" | tail -1)"
  [ $code -ne 0 ] && rc=1
done
exit $rc
