#!/usr/bin/env python3
"""Write seeded/INDEX.md: one row per kept seeded change - what it does, what it needs, and which checks/obligations report it
(from <id>/meta.json and <id>.confirm.json written by tools/confirm_seed.py)."""
import json, glob, os, re
V = os.path.dirname(os.path.dirname(os.path.abspath(__file__)))
rows = []
for cf in sorted(glob.glob(os.path.join(V, 'seeded', '*.confirm.json'))):
    c = json.load(open(cf))
    sid = c['id']
    mp = os.path.join(V, 'seeded', sid, 'meta.json')
    if not c.get('kept') or not os.path.exists(mp):
        continue
    m = json.load(open(mp))
    det = []
    for p, r in sorted((c.get('checks') or {}).items()):
        if r['exit'] == 1:
            obs = [re.sub(r'^.*replay=replay/[^/]+/', '', l).replace('.json', '') for l in r['lines'] if l.startswith('VIOLATION')]
            det.append('**%s**: %s' % (p, '; '.join('`%s`' % o[:90] for o in obs[:3]) + (' (+%d)' % (len(obs) - 3) if len(obs) > 3 else '')))
        elif r['exit'] == 2:
            det.append('%s: undecided' % p)
        elif r['exit'] == 0:
            det.append('%s: holds (exit 0)' % p)
        else:
            det.append('%s: exit %s' % (p, r['exit']))
    rows.append('| %s | %s | %s | %s | %s |' % (sid, m.get('property'), (m.get('summary') or '').replace('|', '/').replace('\n', ' ')[:420], (m.get('needs') or '').replace('|', '/').replace('\n', ' ')[:260], '<br>'.join(det)))
out = ['# Seeded property-breaking changes', '',
       'Each directory holds `patch.diff` (applies to /repo HEAD at confirmation time), `demo.py` (exit 0 on the unmodified tree, non-zero with the patch) and `meta.json`;',
       '`<id>.confirm.json` is the record of `tools/confirm_seed.py` (patch applies, demo exits, pinned suite 933/933 with the patch, exit code and VIOLATION lines of the listed checks run against the patched tree).',
       'Seeds named `Cxx-A/B/C/D` were written by independent sub-agents that saw only the property text; `own-*` by the verifier\'s author.', '',
       '| seed | property | change | needs | reported by (check: failing obligations) |', '|---|---|---|---|---|'] + rows
open(os.path.join(V, 'seeded', 'INDEX.md'), 'w').write('\n'.join(out) + '\n')
print('%d seeds indexed' % len(rows))
