#!/usr/bin/env python3
"""Refresh the numbers (obligation counts, wall time) of the status table in DESIGN.md section 0.3 from evidence/*.json.
Only the second and the last cell of each `| Cxx | ...` row between the section headings 0.3 and 0.4 are rewritten."""
import json, os, re
V = os.path.dirname(os.path.dirname(os.path.abspath(__file__)))
p = os.path.join(V, 'DESIGN.md')
s = open(p).read()
a, b = s.index('### 0.3 '), s.index('### 0.4 ')
sec = s[a:b]
out = []
for line in sec.split('\n'):
    m = re.match(r'^\| (C\d\d) \|', line)
    if m:
        ev = json.load(open(os.path.join(V, 'evidence', m.group(1) + '.json')))
        cov = ev['coverage']
        n = cov['obligations']
        nb = int(cov.get('bounded_subclaims') or 0)
        cells = line.split(' | ')
        cells[1] = '%d%s' % (n, (' + %d bounded' % nb) if nb else '')
        w = ev.get('wall_s', 0)
        cells[-1] = ('%d s |' % round(w)) if w >= 1 else '<1 s |'
        line = ' | '.join(cells)
    out.append(line)
s = s[:a] + '\n'.join(out) + s[b:]
open(p, 'w').write(s)
print('status table refreshed')
