#!/usr/bin/env python3
"""Confirm a seeded change and record it under /verif/seeded/<id>/.
usage: confirm_seed.py <src_dir with patch.diff demo.py meta.json> <seed id, e.g. C01-A> [checks to run ...]
Steps (all in a scratch worktree of /repo HEAD, removed afterwards):
  1. the patch applies to the current /repo HEAD
  2. demo.py exits 0 on the unmodified tree and non-zero with the patch
  3. the pinned suite still passes with the patch (tools/baseline_check.py)
  4. the listed checks are run against the patched tree; exit codes and VIOLATION lines recorded
"""
import json, os, shutil, subprocess, sys, tempfile, time
checks_only = '--checks-only' in sys.argv
argv = [a for a in sys.argv if a != '--checks-only']
src, sid = os.path.abspath(argv[1]), argv[2]
checks = argv[3:]
V = os.path.dirname(os.path.dirname(os.path.abspath(__file__)))
out = os.path.join(V, 'seeded', sid)
tmp = tempfile.mkdtemp(prefix='pfv-seed-')
wt = tmp + '/repo'
rec = {'id': sid, 'confirmed_at': time.strftime('%Y-%m-%dT%H:%M:%SZ', time.gmtime())}
if checks_only:
    # re-run only the checks against the patched tree (patch, demo and suite were confirmed before): refresh the detection record
    cf = os.path.join(V, 'seeded', sid + '.confirm.json')
    rec = json.load(open(cf))
    if not checks:
        checks = sorted(rec.get('checks', {}))
    try:
        subprocess.run(['git', '-C', '/repo', 'worktree', 'add', '-q', '--detach', wt, 'HEAD'], check=True)
        a = subprocess.run(['git', '-C', wt, 'apply', os.path.join(V, 'seeded', sid, 'patch.diff')], capture_output=True, text=True)
        if a.returncode != 0:
            print(sid, 'patch no longer applies'); sys.exit(4)
        cenv = dict(os.environ, PFV_REPO=wt, PFV_OUT=tmp + '/out')
        rec['checks'] = {}
        for p in checks:
            r = subprocess.run([os.path.join(V, 'check'), p, 'quick'], capture_output=True, text=True, env=cenv, timeout=3600)
            rec['checks'][p] = {'exit': r.returncode, 'lines': [l[:300] for l in r.stdout.splitlines() if l.split(' ')[0] in ('VIOLATION', 'UNDECIDED', 'ENGINE-UNSOUND', 'ENGINE-ERROR')][:12]}
        rec['checks_rerun_at'] = time.strftime('%Y-%m-%dT%H:%M:%SZ', time.gmtime())
        json.dump(rec, open(cf, 'w'), indent=1)
        mp = os.path.join(V, 'seeded', sid, 'meta.json')
        meta = json.load(open(mp)); meta['detected_by'] = rec['checks']; json.dump(meta, open(mp, 'w'), indent=1)
        print(sid, {p: v['exit'] for p, v in rec['checks'].items()})
    finally:
        subprocess.run(['git', '-C', '/repo', 'worktree', 'remove', '--force', wt], capture_output=True)
        shutil.rmtree(tmp, ignore_errors=True)
    sys.exit(0)
try:
    subprocess.run(['git', '-C', '/repo', 'worktree', 'add', '-q', '--detach', wt, 'HEAD'], check=True)
    rec['repo_head'] = subprocess.run(['git', '-C', '/repo', 'rev-parse', '--short', 'HEAD'], capture_output=True, text=True).stdout.strip()
    env = dict(os.environ, PYTHONPATH=wt)
    demo = os.path.join(src, 'demo.py')
    r0 = subprocess.run(['/venv/bin/python', '-W', 'ignore', demo], cwd=wt, env=env, capture_output=True, text=True, timeout=1800)
    rec['demo_unmodified_exit'] = r0.returncode
    a = subprocess.run(['git', '-C', wt, 'apply', os.path.join(src, 'patch.diff')], capture_output=True, text=True)
    rec['patch_applies'] = a.returncode == 0
    if a.returncode != 0:
        rec['apply_error'] = a.stderr[-400:]
    else:
        r1 = subprocess.run(['/venv/bin/python', '-W', 'ignore', demo], cwd=wt, env=env, capture_output=True, text=True, timeout=1800)
        rec['demo_modified_exit'] = r1.returncode
        rec['demo_modified_tail'] = (r1.stdout + r1.stderr)[-600:]
        b = subprocess.run([sys.executable, os.path.join(V, 'tools', 'baseline_check.py'), wt, '-n', '4'], capture_output=True, text=True, timeout=3600)
        rec['suite'] = b.stdout.strip().splitlines()[0] if b.stdout.strip() else b.stderr[-300:]
        rec['suite_passes'] = b.returncode == 0
        rec['checks'] = {}
        cenv = dict(os.environ, PFV_REPO=wt, PFV_OUT=tmp + '/out')
        for p in checks:
            r = subprocess.run([os.path.join(V, 'check'), p, 'quick'], capture_output=True, text=True, env=cenv, timeout=3600)
            rec['checks'][p] = {'exit': r.returncode, 'lines': [l[:300] for l in r.stdout.splitlines() if l.split(' ')[0] in ('VIOLATION', 'UNDECIDED', 'ENGINE-UNSOUND', 'ENGINE-ERROR')][:12]}
    ok = rec.get('patch_applies') and rec.get('demo_unmodified_exit') == 0 and rec.get('demo_modified_exit', 0) != 0 and rec.get('suite_passes')
    rec['kept'] = bool(ok)
    if ok:
        os.makedirs(out, exist_ok=True)
        shutil.copy(os.path.join(src, 'patch.diff'), out)
        shutil.copy(demo, out)
        meta = json.load(open(os.path.join(src, 'meta.json')))
        meta_out = {'property': meta.get('property'), 'summary': meta.get('summary'), 'needs': meta.get('needs'), 'files': meta.get('files'),
                    'author': 'independent sub-agent given only the property text and a scratch worktree',
                    'confirmation': {k: rec[k] for k in ('repo_head', 'confirmed_at', 'demo_unmodified_exit', 'demo_modified_exit', 'suite', 'suite_passes')},
                    'what_was_run': ['git apply patch.diff (scratch worktree of /repo HEAD)', 'demo.py on the unmodified and on the patched tree (PYTHONPATH=<tree> /venv/bin/python demo.py)',
                                     'python3 tools/baseline_check.py <patched tree> (pinned suite vs BASELINE stable_pass)', './check <Cxx> quick with PFV_REPO=<patched tree>'],
                    'detected_by': {p: v for p, v in rec['checks'].items()}}
        json.dump(meta_out, open(os.path.join(out, 'meta.json'), 'w'), indent=1)
finally:
    subprocess.run(['git', '-C', '/repo', 'worktree', 'remove', '--force', wt], capture_output=True)
    shutil.rmtree(tmp, ignore_errors=True)
print(json.dumps({k: rec.get(k) for k in ('id', 'patch_applies', 'demo_unmodified_exit', 'demo_modified_exit', 'suite', 'kept')}), {p: v['exit'] for p, v in rec.get('checks', {}).items()})
os.makedirs(os.path.join(V, 'seeded'), exist_ok=True)
json.dump(rec, open(os.path.join(V, 'seeded', sid + '.confirm.json'), 'w'), indent=1)
