#!/usr/bin/env python3
"""Print the obligation inventory (markdown) from the evidence files of the last run: per property the obligation
families (ids with their bracketed variants collapsed), kinds, back ends, functions under contract and assumptions."""
import json, glob, os, re, collections
V = os.path.dirname(os.path.dirname(os.path.abspath(__file__)))
out = []
for f in sorted(glob.glob(os.path.join(V, 'evidence', 'C*.json'))):
    e = json.load(open(f))
    c = e['coverage']
    out.append('#### %s — %d obligations discharged (%s tier), %d bounded, wall %.0f s' % (e['property_id'], c.get('discharged', 0), e['tier'], c.get('bounded_subclaims', 0), e.get('wall_s', 0)))
    fam = collections.OrderedDict()
    for r in e.get('obligation_records', []):
        base = re.sub(r'\[.*$', '', r['id'])
        base = re.sub(r'^HS/feature/[^/]+/', 'HS/feature/<feature>@<underlier>/', base)
        base = re.sub(r'^INS/[A-Za-z]+\.', 'INS/<Primary>.', base)
        base = re.sub(r'^C18/bs_[a-z_]+/', 'C18/bs_<family>_<greek>/', base)
        base = re.sub(r'^C08/bs_[a-z_]+/', 'C08/bs_<family>_<greek>/', base)
        base = re.sub(r'^C04/lean/(Risk[A-Za-z]+)\..*$', r'C04/lean/\1.<theorem>', base)
        d = fam.setdefault(base, {'n': 0, 'kinds': set(), 'backends': set(), 'status': collections.Counter(), 'variants': [], 'bounded': False})
        d['n'] += 1
        d['kinds'].add(r['kind'])
        d['status'][r['verdict']['status']] += 1
        d['backends'].add((r['verdict'].get('backend') or '').split(';')[0][:60])
        d['bounded'] = d['bounded'] or r.get('bounded')
        m = re.search(r'\[(.*)\]$', r['id'])
        if m:
            d['variants'].append(m.group(1))
    out.append('')
    out.append('| obligation family | # | kind | verdicts | back end | variants |')
    out.append('|---|---|---|---|---|---|')
    for base, d in fam.items():
        var = '; '.join(d['variants'][:4]) + (' …' if len(d['variants']) > 4 else '')
        out.append('| `%s`%s | %d | %s | %s | %s | %s |' % (base, ' (bounded)' if d['bounded'] else '', d['n'], ', '.join(sorted(d['kinds'])), ', '.join('%s %d' % kv for kv in d['status'].items()),
                                                         '; '.join(sorted(b for b in d['backends'] if b))[:90], var.replace('|', '/')[:160]))
    fns = [x['name'] for x in c.get('functions_under_contract', [])]
    out.append('')
    out.append('Functions under contract (%d): %s' % (len(fns), ', '.join('`%s`' % n.replace('pfhedge.', '') for n in fns[:60]) + (' …' if len(fns) > 60 else '')))
    out.append('')
print('\n'.join(out))
