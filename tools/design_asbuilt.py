#!/usr/bin/env python3
"""Insert / refresh the 'As built' paragraph of every per-property section of DESIGN.md from tools/claims.json
(the same texts MANIFEST.json carries), between <!-- asbuilt:Cxx --> markers."""
import json, os, re
V = os.path.dirname(os.path.dirname(os.path.abspath(__file__)))
claims = json.load(open(os.path.join(V, 'tools', 'claims.json')))
p = os.path.join(V, 'DESIGN.md')
s = open(p).read()
for pid, c in sorted(claims.items()):
    block = '<!-- asbuilt:%s -->\n> **As built (%s, level %s).** %s\n>\n> *Left unchecked / bounded:* %s\n>\n> *Deciding method:* %s\n<!-- /asbuilt:%s -->\n' % (
        pid, pid, c['level'], c['text'], c['note'], c['technique'], pid)
    pat = re.compile(r'<!-- asbuilt:%s -->.*?<!-- /asbuilt:%s -->\n' % (pid, pid), re.S)
    if pat.search(s):
        s = pat.sub(lambda m: block, s)
    else:
        m = re.search(r'^### %s — .*\n' % pid, s, flags=re.M)
        if m:
            s = s[:m.end()] + '\n' + block + s[m.end():]
open(p, 'w').write(s)
print('ok')
