#!/usr/bin/env python3
"""Regenerate MANIFEST.json from the table below (keeps it valid at all times)."""
import json, os
V = os.path.dirname(os.path.dirname(os.path.abspath(__file__)))
props = [json.loads(l) for l in open(os.path.join(V, 'properties.jsonl'))]
CLAIMED = json.load(open(os.path.join(V, 'tools', 'claims.json')))
checks = []
na = []
for p in props:
    pid = p['id']
    c = CLAIMED.get(pid)
    if c and c.get('claimed'):
        checks.append({
            'property_id': pid,
            'quick_cmd': './check %s quick' % pid,
            'thorough_cmd': './check %s thorough' % pid,
            'evidence_file': 'evidence/%s.json' % pid,
            'replay_cmd_template': './check --replay {path}',
            'engine': 'pfv',
            'level_claimed': {'category': c['level'], 'text': c['text'], 'design_ref': c.get('design_ref', 'DESIGN.md section 3 ' + pid)},
            'level_note': c['note'],
            'technique': c['technique'],
        })
    else:
        na.append({'property_id': pid, 'reason': (c or {}).get('reason', 'check not yet registered (framework under construction); see DESIGN.md section 3')})
m = {
 'version': 1,
 'setup_cmd': './setup.sh',
 'hooks': {'guard': 'PFHEDGE_VERIF',
           'enable': 'no source hooks: contracts are sidecar files under /verif/contracts; the real pfhedge package is imported from /repo\'s working tree against the torch contract shim on every run',
           'baseline_off_cmd': 'python3 tools/baseline_check.py /repo', 'source_commits': [], 'add_only': True},
 'engines': [{'name': 'pfv', 'path': 'pfv/', 'serves_properties': [c['property_id'] for c in checks],
              'kind_free_text': 'contract-based deductive verifier built here: the real pfhedge functions from /repo are executed by CPython on symbolic lambda-tensor proxies over a torch contract shim (assumed contracts of PyTorch); loops cut by invariants via a mechanical AST rewrite; VCs discharged by z3 (cvc5 on unknown), closed-form identities by sympy-generated polynomial identities re-checked in z3; counterexamples replayed on the real code under /venv/bin/python'}],
 'checks': checks,
 'not_applicable': na,
 'notes': 'Contracts: contracts/cXX.py (sidecar, bound by qualified name). Known findings: known_findings.json. Mutation runs: tools/mutant.py <patch> <Cxx>.',
}
json.dump(m, open(os.path.join(V, 'MANIFEST.json'), 'w'), indent=1)
print('checks:', [c['property_id'] for c in checks], 'not_applicable:', len(na))
