#!/usr/bin/env python3
"""Run checks against a patched scratch copy of /repo (never touches /repo).
usage: mutant.py [-R] <patch.diff> <Cxx> [<Cxx> ...] [--tier quick|thorough] [--tests]
  -R       apply the patch in reverse (e.g. to undo a fix: commit)
  --tests  also run the repository's pinned suite on the scratch copy (baseline_check)
  --show   print the head of each replay file written for a violation
Prints each check's exit code and its VIOLATION / KNOWN-FINDING / UNDECIDED lines."""
import os, shutil, subprocess, sys, tempfile
args = sys.argv[1:]
rev = '-R' in args
tests = '--tests' in args
show = '--show' in args
tier = 'quick'
if '--tier' in args:
    tier = args[args.index('--tier') + 1]
    args.remove('--tier'); args.remove(tier)
args = [a for a in args if a not in ('-R', '--tests', '--show')]
patch, props = os.path.abspath(args[0]), args[1:]
verif = os.path.dirname(os.path.dirname(os.path.abspath(__file__)))
tmp = tempfile.mkdtemp(prefix='pfv-mut-')
rc_all = 0
try:
    subprocess.run(['git', '-C', '/repo', 'worktree', 'add', '-q', '--detach', tmp + '/repo', 'HEAD'], check=True)
    scratch = tmp + '/repo'
    r = subprocess.run(['git', '-C', scratch, 'apply'] + (['-R'] if rev else []) + [patch], capture_output=True, text=True)
    if r.returncode != 0:
        print('PATCH DOES NOT APPLY:', r.stderr.strip()); sys.exit(4)
    if tests:
        r = subprocess.run([sys.executable, os.path.join(verif, 'tools', 'baseline_check.py'), scratch], capture_output=True, text=True)
        print('TESTS:', r.stdout.strip().splitlines()[0] if r.stdout.strip() else r.stderr[-300:])
    env = dict(os.environ, PFV_REPO=scratch, PFV_OUT=tmp + '/out')
    for p in props:
        r = subprocess.run([os.path.join(verif, 'check'), p, tier], capture_output=True, text=True, env=env)
        lines = [l for l in r.stdout.splitlines() if l.split(' ')[0] in ('VIOLATION', 'KNOWN-FINDING:', 'UNDECIDED', 'ENGINE-UNSOUND', 'ENGINE-ERROR') or l.startswith(p)]
        print('%s exit=%d' % (p, r.returncode))
        for l in lines[:12]:
            print('   ', l[:300])
        if show:
            import glob
            for f in sorted(glob.glob(tmp + '/out/replay/%s/*.json' % p))[:6]:
                print('   ---', os.path.basename(f)); print('   ' + open(f).read()[:1800].replace('\n', '\n   '))
        if r.returncode not in (0, 1, 2):
            print(r.stdout[-800:], r.stderr[-800:])
finally:
    subprocess.run(['git', '-C', '/repo', 'worktree', 'remove', '--force', tmp + '/repo'], capture_output=True)
    shutil.rmtree(tmp, ignore_errors=True)
