"""C05 - risk-measure values equal their mathematical definitions."""
from contracts import risk

PROP = 'C05'


def build(tier, seed):
    from pfv.torchlib import import_pfhedge
    import_pfhedge()
    obs = risk.c05_obligations(seed, tier)
    return {'obligations': obs, 'functions': risk.FUNCTIONS,
            'assumptions': [
                'A3 torch contracts: logsumexp(y, dim) = log sum exp(y) and is finite for finite y (the only anchor of "without overflow"); topk(k, largest=False).values = the k smallest order statistics; quantile(q) = linear interpolation between order statistics floor/ceil(q(n-1)); mean/sum/min/max along a dim',
                'A2 exp/log axioms incl. log of products/quotients and exp of sums (instantiated structurally)',
                'A1 reals for floats: ceil(p N) over the reals; the borderline-p carve-out of the property (fl(p N) crossing an integer) is not separately decided',
                'order statistics are an uninterpreted sort-of-the-sample primitive: what is proved is WHICH statistics are taken (k = ceil(pN), along dim 0, of input - target) and how they are combined',
                'quadratic CVaR: stationarity condition and returned value proved for N = 3 (symbolic sample and lam); that a stationary point of the convex objective is its minimiser is a trusted convexity lemma; value_at_risk monotonicity in p between the regimes is not decided',
            ],
            'level': 'proof', 'trusted_base': ['pfv executor + torch shim', 'Sigma-normaliser', 'z3 NRA/UF', 'pfv/diff.py'],
            'note': 'functional forms and loss modules run from /repo on (N,) and (N,M) samples with symbolic N, M.'}
