"""C05 - risk-measure values equal their mathematical definitions."""
import time

from contracts import risk
from pfv.framework import Obligation, Verdict, real_exec

PROP = 'C05'

VALUES_REAL = r'''
import math
import pfhedge.nn as pnn
import pfhedge.nn.functional as F
g = torch.Generator().manual_seed(int(W.get("seed", 0)))
bad = []
def note(name, detail, x):
    if len(bad) < 10:
        bad.append({"what": name, "detail": detail, "x": x.tolist() if x.numel() <= 60 else "shape %s" % (tuple(x.shape),)})
def sexp(t):
    return math.exp(t) if t < 709.0 else float('inf')
def cols(x):
    x2 = x.reshape(x.shape[0], -1).to(torch.float64)
    return [[float(v) for v in x2[:, j]] for j in range(x2.shape[1])]
def rho(col, a):
    m = max(-a * v for v in col)
    return (m + math.log(math.fsum(math.exp(-a * v - m) for v in col) / len(col))) / a
def es(col, p):
    k = math.ceil(p * len(col)); s = sorted(col); return -math.fsum(s[:k]) / k
def var_(col, p):
    n = len(col); s = sorted(col)
    if p <= 1.0 / n: return s[0]
    if p > 1.0 - 1.0 / n: return s[-1]
    return None
NR = [1]
def close(got, ref, dtype, scale):
    tol = (3e-4 if dtype == torch.float32 else 1e-9) * max(scale, 1e-300)
    g_ = [float(v) for v in got.reshape(-1).to(torch.float64)]
    if len(g_) != len(ref): return False
    for a_, b_ in zip(g_, ref):
        if b_ is None: continue
        lim = 3.4028234e38 if dtype == torch.float32 else 1.7976931348623157e308
        if abs(b_) * NR[0] >= lim * 0.99:    # beyond (or at the edge of) the dtype's range - for a mean, of its running SUM: overflow to inf of the same sign is expected
            if not (math.isinf(a_) and (a_ > 0) == (b_ > 0)) and not (abs(a_ - b_) <= 1e-3 * abs(b_)): return False
            continue
        if math.isinf(b_) or math.isinf(a_):
            if a_ != b_: return False
            continue
        if not (abs(a_ - b_) <= tol * max(1.0, abs(b_) / max(scale, 1e-300)) * 1.0 + tol): return False
    return True
def samples(dtype, positive=False, scales=(1.0,)):
    out = []
    for N in (1, 2, 5, 40):
        for trail in ((), (3,), (2, 2)):
            shape = (N,) + trail
            for sc in scales:
                base = torch.randn(shape, generator=g, dtype=torch.float64)
                ties = torch.randint(-1, 2, shape, generator=g).to(torch.float64)
                const = torch.full(shape, 0.7, dtype=torch.float64)
                heavy = torch.randn(shape, generator=g, dtype=torch.float64) / (torch.randn(shape, generator=g, dtype=torch.float64).abs() + 0.05)
                for kind, x in (("normal", base), ("ties", ties), ("constant", const), ("heavy", heavy)):
                    x = x * sc
                    if positive: x = x.abs() + 0.1 * sc
                    out.append(("%s/N=%d/trail=%s/scale=%g/%s" % (kind, N, trail, sc, str(dtype)[6:]), x.to(dtype)))
    lv = torch.randn((6, 4), generator=g, dtype=torch.float64) + torch.tensor([0.0, -2000.0, 1500.0, 1e6], dtype=torch.float64)
    if not positive: out.append(("levels/N=6/trail=(4,)/%s" % str(dtype)[6:], lv.to(dtype)))
    return out
for dtype in (torch.float64, torch.float32):
    for (nm, x) in samples(dtype, scales=(1e-6, 1.0, 1e3, 1e6)):
        sc = max(1.0, float(x.abs().max())) if x.numel() else 1.0
        C = cols(x)
        for a in (0.5, 2.0):
            ref = [rho(c, a) for c in C]
            if not close(F.entropic_risk_measure(x, a=a), ref, dtype, sc): note("entropic_risk_measure(a=%g) %s" % (a, nm), "got %s ref %s" % (F.entropic_risk_measure(x, a=a).flatten()[:4].tolist(), ref[:4]), x)
            z = 0.25 * sc
            refz = [rho([v - float(torch.tensor(z, dtype=dtype)) for v in c], a) for c in C]
            if not close(pnn.EntropicRiskMeasure(a)(x, torch.tensor(z, dtype=dtype)), refz, dtype, sc): note("EntropicRiskMeasure(a=%g)(x, target) %s" % (a, nm), "module with target", x)
        for p in (0.05, 0.3, 0.5, 1.0):
            ref = [es(c, p) for c in C]
            if not close(F.expected_shortfall(x, p, dim=0), ref, dtype, sc): note("expected_shortfall(p=%g, dim=0) %s" % (p, nm), "got %s ref %s" % (F.expected_shortfall(x, p, dim=0).flatten()[:4].tolist(), ref[:4]), x)
            if not close(pnn.ExpectedShortfall(p)(x), ref, dtype, sc): note("ExpectedShortfall(p=%g) %s" % (p, nm), "module", x)
        for p in (0.01, 0.999):
            ref = [var_(c, p) for c in C]
            if not close(F.value_at_risk(x, p, dim=0), ref, dtype, sc): note("value_at_risk(p=%g, dim=0) %s" % (p, nm), "got %s ref %s" % (F.value_at_risk(x, p, dim=0).flatten()[:4].tolist(), ref[:4]), x)
    for (nm, x) in samples(dtype, scales=(1e-6, 1.0, 10.0)):
        for a in (0.5, 2.0):
            C = cols(x)
            ref_u = [-sexp(-a * float(v)) for v in x.reshape(-1).to(torch.float64)]
            if not close(F.exp_utility(x, a=a), ref_u, dtype, max(1.0, max(abs(r) for r in ref_u if not math.isinf(r)) if any(not math.isinf(r) for r in ref_u) else 1.0)): note("exp_utility(a=%g) %s" % (a, nm), "utility values", x)
            ref_l = [math.fsum(sexp(-a * v) for v in c) / len(c) for c in C]
            NR[0] = x.shape[0]
            ok_l = close(pnn.EntropicLoss(a)(x), ref_l, dtype, max([1.0] + [r for r in ref_l if not math.isinf(r)]))
            NR[0] = 1
            if not ok_l: note("EntropicLoss(a=%g) %s" % (a, nm), "got %s ref %s" % (pnn.EntropicLoss(a)(x).flatten()[:3].tolist(), ref_l[:3]), x)
    for (nm, x) in samples(dtype, positive=True, scales=(1e-6, 1.0, 1e6)):
        C = cols(x)
        for a in (0.5, 1.0):
            ref = [-math.fsum((math.log(v) if a == 1.0 else v ** (1 - a)) for v in c) / len(c) for c in C]
            if not close(pnn.IsoelasticLoss(a)(x), ref, dtype, max(1.0, max(abs(r) for r in ref))): note("IsoelasticLoss(a=%g) %s" % (a, nm), "got %s ref %s" % (pnn.IsoelasticLoss(a)(x).flatten()[:3].tolist(), ref[:3]), x)
# large samples with ties (k = ceil(p N) in the thousands; many outcomes equal to the k-th worst one, e.g. an option expiring worthless on most paths)
for dtype in (torch.float64, torch.float32):
    for shape in ((6000,), (5000, 2)):
        x = (torch.randint(-3, 4, shape, generator=g).to(torch.float64) * 0.5).clamp(min=0.0) - 0.25
        x = x.to(dtype); C = cols(x)
        for p in (0.1, 0.5, 0.9):
            ref = [es(c, p) for c in C]
            if not close(F.expected_shortfall(x, p, dim=0), ref, dtype, 1.0): note("expected_shortfall(p=%g, dim=0) large sample with ties %s %s" % (p, shape, str(dtype)[6:]), "got %s ref %s" % (F.expected_shortfall(x, p, dim=0).flatten()[:3].tolist(), ref[:3]), x[:5])
            if not close(pnn.ExpectedShortfall(p)(x), ref, dtype, 1.0): note("ExpectedShortfall(p=%g) large sample with ties %s %s" % (p, shape, str(dtype)[6:]), "module", x[:5])
# heavy losses: the exponential utility / entropic loss must follow exp(-a x) as far as the dtype represents it (float64: a|x| up to 700)
x = torch.tensor([[-100.0, -60.0], [-300.0, 2.0], [-0.5, -650.0]], dtype=torch.float64)
ref_u = [-math.exp(-float(v)) for v in x.reshape(-1)]
if not close(F.exp_utility(x, a=1.0), ref_u, torch.float64, max(abs(r) for r in ref_u)): note("exp_utility heavy losses float64", "got %s ref %s" % (F.exp_utility(x, a=1.0).flatten().tolist(), ref_u), x)
ref_l = [math.fsum(math.exp(-v) for v in c) / len(c) for c in cols(x)]
got_l = [float(v) for v in pnn.EntropicLoss(1.0)(x)]
if any(abs(a_ - b_) > 1e-9 * abs(b_) for a_, b_ in zip(got_l, ref_l)): note("EntropicLoss heavy losses float64", "got %s ref %s" % (got_l, ref_l), x)
result = {"got": bad, "ref": []}
'''


def battery_ob(tier, seed):
    def check():
        t0 = time.time()
        r = None
        for sd in ([seed] if tier == 'quick' else [seed + i for i in range(4)]):
            r = real_exec(VALUES_REAL, {'seed': sd}, timeout=3000)
            if not r.get('ok') or r['result']['got']:
                break
        if not r.get('ok'):
            real_raise = r.get('exception') not in (None, 'NoResult', 'Timeout') and '/pfhedge/' in (r.get('traceback') or '')
            return Verdict('refuted' if real_raise else 'unknown', 'bounded: real torch battery', time.time() - t0, 'the value battery raised on the real code: %s' % str(r)[:400],
                           witness={'exception': r.get('exception')}, replay={'real': r, 'confirmed': real_raise})
        got = r['result']['got']
        if got:
            return Verdict('refuted', 'bounded: real torch battery', time.time() - t0, '%d value(s) differ from the definition, first: %s: %s' % (len(got), got[0]['what'], got[0]['detail'][:300]),
                           witness={'instance': got[0]}, replay={'real': r, 'confirmed': True})
        return Verdict('proved', 'bounded: real torch battery', time.time() - t0, 'values equal the definitions on the battery', sample={'claim': 'BOUNDED: values vs double-precision references on real torch'})
    return Obligation('RK/values/float-battery[bounded]', 'post', 'pfhedge.nn.functional', check, [PROP], bounded=True,
                      clause='BOUNDED: entropic risk, expected shortfall, extreme-level value at risk, exponential/isoelastic utilities and the four loss modules (with a target) equal their definitions computed with math.fsum on real torch, '
                             'float32 and float64: N in {1,2,5,40}, trailing shapes (), (3,), (2,2), normal / tied / constant / heavy-tailed samples, magnitudes 1e-6..1e6, columns on levels 0, -2000, 1500, 1e6, heavy losses a|x| up to 650 in float64; expected shortfall on samples of 5000-6000 outcomes with many ties at the k-th worst one')


def build(tier, seed):
    from pfv.torchlib import import_pfhedge
    import_pfhedge()
    obs = risk.c05_obligations(seed, tier) + [battery_ob(tier, seed)]
    return {'obligations': obs, 'functions': risk.FUNCTIONS,
            'assumptions': [
                'A3 torch contracts: logsumexp(y, dim) = log sum exp(y) and is finite for finite y (the only anchor of "without overflow"); topk(k, largest=False).values = the k smallest order statistics; quantile(q) = linear interpolation between order statistics floor/ceil(q(n-1)); mean/sum/min/max along a dim',
                'A2 exp/log axioms incl. log of products/quotients and exp of sums (instantiated structurally)',
                'A1 reals for floats: ceil(p N) over the reals; the borderline-p carve-out of the property (fl(p N) crossing an integer) is not separately decided; float behaviour (overflow, underflow, stabilising shifts) is seen only by the bounded battery',
                'order statistics are an uninterpreted sort-of-the-sample primitive: what is proved is WHICH statistics are taken (k = ceil(pN), along dim 0, of input - target) and how they are combined',
                'quadratic CVaR: stationarity condition and returned value proved for every sample size N (symbolic sample and lam); that a stationary point of the convex objective is its minimiser is proved in Lean for C04 (qcvar_*), here a trusted convexity lemma; value_at_risk monotonicity in p between the regimes is not decided',
            ],
            'level': 'proof', 'trusted_base': ['pfv executor + torch shim', 'Sigma-normaliser', 'z3 NRA/UF', 'pfv/diff.py'],
            'bounded_note': 'RK/values/float-battery[bounded]: finite battery of samples on real torch against math.fsum references (4 seeds in the thorough tier)',
            'note': 'functional forms and loss modules run from /repo on (N,) and (N,M) samples with symbolic N, M.'}
