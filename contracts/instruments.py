"""Contracts of the instruments shared by C11, C13, C17: simulate() wiring of the eight primaries,
BaseDerivative.simulate / to / dtype / device, BasePrimary.to / register_buffer representation
invariant, time_to_maturity grid."""
import time

from pfv import terms as tm
from pfv import smt, fc
from pfv.framework import Obligation, Verdict, real_exec
from pfv.proxies import explore, SReal, SInt, Unsupported, ctx, lift
import functools as _ft
_explore_raw = explore
explore = _ft.partial(_explore_raw, enforce_bounds=True)     # shim range assumptions (slices / indices) must be provable on every returning path

NP, HOR, DT = tm.var('n_paths', 'I'), tm.var('horizon'), tm.var('dt')
BASE = [tm.ge(NP, tm.IONE), tm.ge(HOR, tm.ZERO), tm.gt(DT, tm.ZERO)]

# class name -> (module, generator name, constructor params -> generator kwarg, documented buffers, result fields)
PRIMARIES = {
    'BrownianStock': ('brownian', 'generate_geometric_brownian', {'sigma': 'sigma', 'mu': 'mu'}, ['spot'], None),
    'HestonStock': ('heston', 'generate_heston', {'kappa': 'kappa', 'theta': 'theta', 'sigma': 'sigma', 'rho': 'rho'}, ['spot', 'variance'], ('spot', 'variance')),
    'CIRRate': ('cir', 'generate_cir', {'kappa': 'kappa', 'theta': 'theta', 'sigma': 'sigma'}, ['spot'], None),
    'VasicekRate': ('vasicek', 'generate_vasicek', {'kappa': 'kappa', 'theta': 'theta', 'sigma': 'sigma'}, ['spot'], None),
    'MertonJumpStock': ('merton_jump', 'generate_merton_jump', {'mu': 'mu', 'sigma': 'sigma', 'jump_per_year': 'jump_per_year', 'jump_mean': 'jump_mean', 'jump_std': 'jump_std'}, ['spot'], None),
    'KouJumpStock': ('kou_jump', 'generate_kou_jump', {'sigma': 'sigma', 'mu': 'mu', 'jump_per_year': 'jump_per_year', 'jump_mean_up': 'jump_mean_up', 'jump_mean_down': 'jump_mean_down', 'jump_up_prob': 'jump_up_prob'}, ['spot'], None),
    'RoughBergomiStock': ('rough_bergomi', 'generate_rough_bergomi', {'alpha': 'alpha', 'rho': 'rho', 'eta': 'eta', 'xi': 'xi'}, ['spot', 'variance'], ('spot', 'variance')),
    'LocalVolatilityStock': ('local_volatility', 'generate_local_volatility_process', {}, ['spot', 'volatility'], ('spot', 'volatility')),
}
DEFAULT_INIT = {
    'BrownianStock': lambda p: (1.0,), 'HestonStock': lambda p: (1.0, p['theta']), 'CIRRate': lambda p: (p['theta'],), 'VasicekRate': lambda p: (p['theta'],),
    'MertonJumpStock': lambda p: (1.0,), 'KouJumpStock': lambda p: (1.0,), 'RoughBergomiStock': lambda p: (1.0, p['xi']), 'LocalVolatilityStock': lambda p: (1.0,),
}
FUNCTIONS = ['pfhedge.instruments.primary.%s.%s.simulate' % (PRIMARIES[c][0], c) for c in PRIMARIES] + \
            ['pfhedge.instruments.primary.%s.%s.default_init_state' % (PRIMARIES[c][0], c) for c in PRIMARIES] + [
    'pfhedge.instruments.derivative.base.BaseDerivative.simulate', 'pfhedge.instruments.derivative.base.BaseDerivative.to',
    'pfhedge.instruments.derivative.base.BaseDerivative.dtype', 'pfhedge.instruments.derivative.base.BaseDerivative.device',
    'pfhedge.instruments.derivative.base.OptionMixin.time_to_maturity',
    'pfhedge.instruments.primary.base.BasePrimary.to', 'pfhedge.instruments.primary.base.BasePrimary._parse_to', 'pfhedge.instruments.primary.base.BasePrimary.register_buffer',
    'pfhedge.instruments.primary.base.BasePrimary.named_buffers', 'pfhedge.instruments.primary.base.BasePrimary.buffers',
    'pfhedge.instruments.base.BaseInstrument.float', 'pfhedge.instruments.base.BaseInstrument.double', 'pfhedge.instruments.base.BaseInstrument.half',
    'pfhedge.instruments.base.BaseInstrument.bfloat16', 'pfhedge.instruments.base.BaseInstrument.cpu',
]


def _mk_primary(clsname, dtype=None, sym=True):
    import importlib
    mod = importlib.import_module('pfhedge.instruments.primary.' + PRIMARIES[clsname][0])
    cls = getattr(mod, clsname)
    params = {}
    kw = {}
    for p_ in PRIMARIES[clsname][2]:
        params[p_] = SReal(tm.var('p_' + p_)) if sym else 0.3
        kw[p_] = params[p_]
    if clsname == 'LocalVolatilityStock':
        kw['sigma_fn'] = _sigma_fn
    kw['dt'] = SReal(DT) if sym else 0.01
    if dtype is not None:
        kw['dtype'] = dtype
    return mod, cls(**kw), params


def _sigma_fn(time_, spot):
    return spot * 0.0 + 0.2


def simulate_wiring_ob(clsname):
    modname, gen, pmap, buffers, fields = PRIMARIES[clsname]

    def check():
        t0 = time.time()
        import torch
        from collections import namedtuple
        from pfv.torchlib.tensor import Tensor
        for use_default in (True, False):
            seen = {}

            def run(c):
                mod, inst, params = _mk_primary(clsname, dtype=torch.float64)
                calls = []

                def stub(**kw):
                    calls.append(kw)
                    outs = [Tensor.input('gen_%s%d' % (b, len(calls)), (kw['n_paths'], kw['n_steps']), torch.float64) for b in buffers]
                    if fields is None:
                        return outs[0]
                    return namedtuple('Out', fields)(*outs)
                old = getattr(mod, gen)
                setattr(mod, gen, stub)
                try:
                    # a previous simulation with other sizes: buffers must be replaced entirely
                    inst.simulate(n_paths=3, time_horizon=0.05)
                    init = None if use_default else tuple(SReal(tm.var('init%d' % k)) for k in range(len(DEFAULT_INIT[clsname]({p: 0 for p in pmap} or {'theta': 0, 'xi': 0}))))
                    inst.simulate(n_paths=SInt(NP), time_horizon=SReal(HOR), init_state=init)
                finally:
                    setattr(mod, gen, old)
                seen.update(calls=calls, inst=inst, params=params, init=init)
                return dict(inst.named_buffers())
            paths = explore(run, BASE, max_paths=8)
            if len(paths) != 1 or paths[0].outcome() != 'returns':
                return Verdict('unknown', 'engine', time.time() - t0, str([(p.outcome(), str(p.exception)[:200], p.traceback[-400:]) for p in paths]))
            p = paths[0]
            kw = seen['calls'][-1]
            facts = p.facts(BASE)
            # the time grid: n_steps = ceil(horizon/dt) + 1 (the property's formula), n_paths passed on
            goals = [('n_steps == ceil(horizon/dt) + 1', tm.eq(lift(kw['n_steps']), tm.add(tm.ceil(tm.div(HOR, DT)), tm.IONE))),
                     ('n_paths passed on', tm.eq(lift(kw['n_paths']), NP)), ('dt passed on', tm.eq(lift(kw['dt']), DT))]
            for pname, gname in pmap.items():
                goals.append(('parameter %s passed on' % pname, tm.eq(lift(kw[gname]), tm.var('p_' + pname))))
            init = kw['init_state']
            want_init = seen['init'] if not use_default else DEFAULT_INIT[clsname]({k_: v_ for k_, v_ in seen['params'].items()})
            if len(init) != len(want_init):
                return Verdict('refuted', 'structural', time.time() - t0, 'init_state of length %d' % len(init), witness={}, replay={'confirmed': False})
            for k, (a, b) in enumerate(zip(init, want_init)):
                goals.append(('init_state[%d] %s' % (k, 'default' if use_default else 'as requested'), tm.eq(tm.toreal(lift(a)), tm.toreal(lift(b)))))
            for (label, g) in goals:
                r = smt.prove(facts, g, timeout_ms=10000)
                if r.status != 'unsat':
                    rp = _replay_simulate(clsname)
                    return Verdict('refuted' if r.status == 'sat' else 'unknown', r.backend, time.time() - t0, '%s.simulate: %s fails' % (clsname, label), witness={'vc': label}, replay=rp)
            if kw['dtype'] is not torch.float64 or set(kw) - {'n_paths', 'n_steps', 'init_state', 'dt', 'dtype', 'device', 'engine', 'sigma_fn'} - set(pmap.values()):
                return Verdict('refuted', 'structural', time.time() - t0, 'generator kwargs %s / dtype %s' % (sorted(kw), kw['dtype']), witness={}, replay={'confirmed': False})
            bufs = p.result
            if not set(buffers) <= set(bufs):        # registration order and additional (derived) buffers are not part of the contract
                return Verdict('refuted', 'structural', time.time() - t0, 'buffers after simulate: %s, documented: %s' % (list(bufs), buffers), witness={'buffers': list(bufs)}, replay=_replay_simulate(clsname))
            for b in buffers:
                sh = bufs[b]._shape
                okn = smt.prove(facts, tm.and_(tm.eq(lift(sh[0]) if not isinstance(sh[0], int) else tm.const(sh[0], 'I'), NP),
                                               tm.eq(lift(sh[1]) if not isinstance(sh[1], int) else tm.const(sh[1], 'I'), tm.add(tm.ceil(tm.div(HOR, DT)), tm.IONE))), timeout_ms=10000)
                fresh_series = getattr(bufs[b], 'name', '').startswith('gen_%s2' % b)
                if okn.status == 'unsat' and not fresh_series:
                    # not the generator's tensor object itself: accept any tensor holding its values (a copy, a cast to the same dtype)
                    n_, k_ = tm.var('n', 'I'), tm.var('k', 'I')
                    rng_ = [tm.le(tm.IZERO, n_), tm.lt(n_, NP), tm.le(tm.IZERO, k_), tm.lt(k_, tm.add(tm.ceil(tm.div(HOR, DT)), tm.IONE))]
                    try:
                        fresh_series = fc.prove_eq(facts + rng_, bufs[b].at((n_, k_)), tm.sel('gen_%s2' % b, n_, k_), timeout_ms=10000).status == 'unsat'
                    except Exception:
                        fresh_series = False
                if okn.status != 'unsat' or not fresh_series:
                    return Verdict('refuted', 'structural+z3', time.time() - t0, 'buffer %s is not the freshly generated (n_paths, ceil(h/dt)+1) series: shape %s name %s' % (b, sh, getattr(bufs[b], 'name', None)),
                                   witness={'buffer': b}, replay=_replay_simulate(clsname))
        return Verdict('proved', 'z3 + structural', time.time() - t0, '', sample={'claim': '%s.simulate wiring' % clsname, 'goals': [g_[0] for g_ in goals]})
    return Obligation('INS/%s.simulate/wiring' % clsname, 'post', 'pfhedge.instruments.primary.%s.%s.simulate' % (modname, clsname), check, ['C13', 'C11'],
                      clause='%s.simulate(n, horizon, init): generator called with n_paths=n, n_steps=ceil(horizon/dt)+1, init_state=init or the documented default, the instrument\'s parameters, dt, dtype, device; '
                             'exactly the documented buffers %s are (re)registered with the new series' % (clsname, buffers))


SIM_REPLAY = '''
import math
from fractions import Fraction
import pfhedge.instruments as pi
torch.manual_seed(0)
cls = getattr(pi, W["cls"])
kw = {"sigma_fn": (lambda t, s: torch.full_like(s, 0.2))} if W["cls"] == "LocalVolatilityStock" else {}
bad = []
for (hn, hd, dn, dd) in ((20, 250, 1, 250), (3, 10, 1, 10), (1, 3, 1, 12), (5, 100, 2, 100)):
    inst = cls(dt=dn / dd, **kw)
    inst.simulate(n_paths=2, time_horizon=0.02)
    inst.simulate(n_paths=3, time_horizon=hn / hd)
    want = math.ceil(Fraction(hn, hd) / Fraction(dn, dd)) + 1
    for name, b in inst.named_buffers():
        if tuple(b.shape) != (3, want): bad.append((name, tuple(b.shape), want))
result = {"got": [str(b) for b in bad], "ref": []}
'''


def _replay_simulate(clsname):
    r = real_exec(SIM_REPLAY, {'cls': clsname}, timeout=300)
    ok = r.get('ok') and r['result']['got'] == []
    return {'real': r, 'confirmed': not ok, 'note': 'replay: real simulate twice with different sizes; buffer shapes against exact rational ceil(M/dt)+1'}


MULTI_UL_REPLAY = '''
import math
from fractions import Fraction
import pfhedge.instruments as pi
bad = []
for (dta, dtb, M) in ((Fraction(1, 12), Fraction(1, 250), Fraction(10, 250)), (Fraction(1, 10), Fraction(1, 365), Fraction(7, 365)), (Fraction(1, 250), Fraction(1, 12), Fraction(1, 2))):
    a = pi.BrownianStock(dt=float(dta)); b = pi.BrownianStock(dt=float(dtb))
    d = pi.EuropeanOption(a, maturity=float(M)); d.register_underlier("second", b)
    for init in (None, (1.25,), 0.8):
        d.simulate(n_paths=2, init_state=init)
        for (u, dt) in ((a, dta), (b, dtb)):
            want = math.ceil(M / dt) + 1
            if u.spot.size(1) != want: bad.append((str(dta), str(dtb), str(M), "init_state=%r" % (init,), u.spot.size(1), want))
            if init is not None and abs(float(u.spot[0, 0]) - (init[0] if isinstance(init, tuple) else init)) > 1e-6: bad.append(("init_state=%r not used" % (init,), float(u.spot[0, 0])))
result = {"got": [str(x) for x in bad], "ref": []}
'''


def derivative_simulate_ob():
    def check():
        t0 = time.time()
        import torch
        import pfhedge.instruments as pi
        seen = []
        dta, dtb, M = tm.var('dta'), tm.var('dtb'), tm.var('M')

        def run(c):
            del seen[:]

            class Rec(pi.BrownianStock):
                def simulate(self, **kw):
                    seen.append((self, kw))
            a, b = Rec(dt=SReal(dta)), Rec(dt=SReal(dtb))        # two underliers with DIFFERENT step sizes
            d = pi.EuropeanOption(a, maturity=SReal(M))
            d.register_underlier('second', b)
            init = (SReal(tm.var('i0')),)
            d.simulate(n_paths=SInt(NP), init_state=init)
            return a, b, init, list(seen)
        hyps = BASE + [tm.gt(dta, tm.ZERO), tm.gt(dtb, tm.ZERO), tm.gt(M, tm.ZERO)]
        paths = explore(run, hyps, max_paths=16)
        rows = []
        for p in paths:
            if p.outcome() != 'returns':
                return Verdict('unknown', 'engine', time.time() - t0, str([(q.outcome(), q.traceback[-400:]) for q in paths]))
            a, b, init, calls = p.result
            if not (len(calls) == 2 and {id(calls[0][0]), id(calls[1][0])} == {id(a), id(b)}):
                return Verdict('refuted', 'structural', time.time() - t0, 'underlier simulate calls: %d (expected exactly one per underlier)' % len(calls), witness={'calls': len(calls)},
                               replay={'confirmed': False})
            facts = p.facts(hyps)
            for (u, kw) in calls:
                dt_ = dta if u is a else dtb
                st_ = kw.get('init_state')
                same_init = st_ is init or (isinstance(st_, (tuple, list)) and len(st_) == len(init) and all(tm.as_term(lift(x_)) is tm.as_term(lift(y_)) for x_, y_ in zip(st_, init)))
                if smt.prove(facts, tm.eq(tm.as_term(lift(kw['n_paths'])), NP), timeout_ms=5000).status != 'unsat' or not same_init:
                    return Verdict('refuted', 'structural', time.time() - t0, 'n_paths / init_state not forwarded unchanged', witness={}, replay={'confirmed': False})
                if 'time_horizon' in kw:
                    h = tm.as_term(lift(kw['time_horizon']))
                else:
                    # not passed: the underlier simulates over ITS OWN default horizon
                    import inspect
                    h = tm.const(float(inspect.signature(pi.BrownianStock.simulate).parameters['time_horizon'].default))
                # what matters for the time grid: the number of time points this underlier will get
                got = tm.ceil(tm.add(tm.div(h, dt_), tm.ONE))
                want = tm.ceil(tm.add(tm.div(M, dt_), tm.ONE))
                r = smt.prove(facts, tm.eq(got, want), timeout_ms=20000)
                rows.append(('underlier with step %s gets ceil(maturity/dt + 1) time points (time_horizon = %s)' % (tm.show(dt_), tm.show(h)[:60]), r))
        for (label, r) in rows:
            if r.status == 'sat':
                rr = real_exec(MULTI_UL_REPLAY, {}, timeout=600)
                conf = not (rr.get('ok') and rr['result']['got'] == [])
                return Verdict('refuted' if conf else 'unknown', r.backend, time.time() - t0, label + ': not for all maturities / step sizes', witness={'vc': label}, replay={'real': rr, 'confirmed': conf})
            if r.status != 'unsat':
                return Verdict('unknown', r.backend, time.time() - t0, label)
        return Verdict('proved', 'structural + z3 (LIRA)', time.time() - t0, '%d path(s)' % len(paths),
                       sample={'claim': 'BaseDerivative.simulate simulates EVERY underlier, in registration order, over the maturity (n_paths, init_state unchanged), whatever the underliers\' own step sizes'})
    return Obligation('INS/BaseDerivative.simulate/wiring', 'post', 'pfhedge.instruments.derivative.base.BaseDerivative.simulate', check, ['C13'],
                      clause='simulating a derivative with several underliers of different step sizes gives each of them ceil(maturity/dt + 1) time points, the same n_paths / init_state')


def ttm_ob():
    """time_to_maturity: (T-1-i)*dt for every path, strictly decreasing, exactly zero at the last step."""
    def check():
        t0 = time.time()
        from contracts import hedging as Hh
        N, T, I = Hh.N, Hh.T, Hh.I
        hyps = Hh.DIMS + [tm.le(tm.neg(T), I), tm.lt(I, T)]      # negative indices accepted: -T <= i < T

        def run(c):
            d = Hh.mk_derivative()
            return d.time_to_maturity(SInt(I)), d.time_to_maturity(None)
        paths = explore(run, hyps, max_paths=8)
        n, j = tm.var('n', 'I'), tm.var('j', 'I')
        rng = [tm.le(tm.IZERO, n), tm.lt(n, N), tm.le(tm.IZERO, j), tm.lt(j, T)]
        nvc = 0
        for p in paths:
            if p.outcome() != 'returns':
                return Verdict('unknown', 'engine', time.time() - t0, str((p.outcome(), p.exception, p.traceback[-400:])))
            a, b = p.result
            facts = p.facts(hyps) + rng
            imod = tm.ite(tm.lt(I, tm.IZERO), tm.add(I, T), I)
            goals = [
                ('step form: (T-1-(i mod T)) dt for every path', tm.eq(a.at((n, tm.IZERO)), tm.mul(tm.toreal(tm.sub(tm.sub(T, tm.IONE), imod)), Hh.DT))),
                ('all-steps form: (T-1-j) dt', tm.eq(b.at((n, j)), tm.mul(tm.toreal(tm.sub(tm.sub(T, tm.IONE), j)), Hh.DT))),
                ('strictly decreasing in the step', tm.implies(tm.lt(tm.add(j, tm.IONE), T), tm.gt(b.at((n, j)), b.at((n, tm.add(j, tm.IONE)))))),
                ('exactly zero at the last step', tm.eq(b.at((n, tm.sub(T, tm.IONE))), tm.ZERO)),
            ]
            from pfv.torchlib.tensor import ti
            goals.append(('shapes (N,1) and (N,T)', tm.and_(tm.eq(ti(a._shape[0]), N), tm.eq(ti(a._shape[1]), tm.IONE), tm.eq(ti(b._shape[0]), N), tm.eq(ti(b._shape[1]), T))))
            for (label, g) in goals:
                nvc += 1
                r = smt.prove(facts, g, timeout_ms=20000)
                if r.status != 'unsat':
                    rp = real_exec(TTM_REPLAY, {})
                    return Verdict('refuted' if r.status == 'sat' else 'unknown', r.backend, time.time() - t0, 'time_to_maturity: %s fails' % label, witness={'vc': label},
                                   replay={'real': rp, 'confirmed': not (rp.get('ok') and rp['result']['got'] == [])})
        return Verdict('proved', 'z3 (LIA/LRA)', time.time() - t0, '%d VCs' % nvc, sample={'claim': 'time to maturity grid', 'goals': [g_[0] for g_ in goals]})
    return Obligation('INS/time_to_maturity/post', 'post+lemma', 'pfhedge.instruments.derivative.base.OptionMixin.time_to_maturity', check, ['C13'],
                      clause='time_to_maturity(i)[n] == (T-1-(i mod T)) dt, (None)[n,j] == (T-1-j) dt; strictly decreasing; exactly 0 at the last step; same for every path')


TTM_REPLAY = '''
from pfhedge.instruments import BrownianStock, EuropeanOption
bad = []
for dt, M in ((0.01, 0.07), (1/250, 20/250), (1/12, 0.5), (0.1, 0.3)):
    d = EuropeanOption(BrownianStock(dt=dt, dtype=torch.float64), maturity=M); d.simulate(n_paths=2)
    Tn = d.ul().spot.size(1)
    full = d.time_to_maturity()
    for i in range(-Tn, Tn):
        want = (Tn - 1 - (i % Tn)) * dt
        if abs(float(d.time_to_maturity(i)[0, 0]) - want) > 1e-12 or abs(float(full[1, i % Tn]) - want) > 1e-12: bad.append((dt, M, i))
    if float(full[0, -1]) != 0.0: bad.append((dt, M, "nonzero at last step"))
result = {"got": [str(b) for b in bad], "ref": []}
'''


# ------------------------------------------------------------------ bit-precise step count (C13's rounding clause)

def fp_steps_ob(clsname='BrownianStock', tier='quick'):
    """The n_steps expression is taken from the AST of the real simulate() and decided in IEEE doubles:
    (1) native enumeration over common step sizes (Python floats are doubles) - finds miscounts fast;
    (2) if none is found, z3 QF_FP over the full double domain decides `for all k, dt`."""
    modname = PRIMARIES[clsname][0]

    def check():
        import importlib
        from pfv import fpx
        t0 = time.time()
        mod = importlib.import_module('pfhedge.instruments.primary.' + modname)
        try:
            node, text = fpx.find_expr(getattr(mod, clsname).simulate, fpx.kwarg_expr('n_steps'))
        except Exception as e:
            return Verdict('unknown', 'engine', time.time() - t0, 'cannot bind the n_steps expression: %s' % e)
        sample = {'claim': 'maturity = fl(k*dt) => k+1 time points, in IEEE doubles', 'expression_from_source': text}
        grid = [1 / 250, 1 / 365, 1 / 252, 1 / 12, 1 / 52, 0.1, 0.01, 0.05, 1 / 360]
        kmax = 400 if tier == 'quick' else 4000
        try:
            failing = []
            for dt in grid:
                for k in range(1, 401):          # the signature always uses k <= 400 so that it is tier-independent
                    got = fpx.native(node, {'time_horizon': k * dt, 'self.dt': dt})
                    if got != k + 1:
                        failing.append((repr(dt), k, got))
            if failing:
                import hashlib
                sig = '%d:%s' % (len(failing), hashlib.sha1(repr(failing).encode()).hexdigest()[:12])
                dt0, k0, got0 = failing[0]
                rr = real_exec(STEPS_REPLAY, {'k': k0, 'dt': float(dt0), 'cls': clsname})
                ok = rr.get('ok') and rr['result']['got'] != rr['result']['ref']
                return Verdict('refuted', 'native IEEE-double enumeration of the source expression', time.time() - t0,
                               '%s: %d of %d (dt, k<=400) pairs miscount, first: maturity = %d*dt, dt = %s gives %s time points, expected %d' % (text, len(failing), 400 * len(grid), k0, dt0, got0, k0 + 1),
                               witness={'k': k0, 'dt': float(dt0), 'points': got0, 'failing_pairs': len(failing), 'signature': sig}, replay={'real': rr, 'confirmed': bool(ok)}, sample=sample)
            for dt in grid:
                for k in range(401, kmax + 1):
                    got = fpx.native(node, {'time_horizon': k * dt, 'self.dt': dt})
                    if got != k + 1:
                        rr = real_exec(STEPS_REPLAY, {'k': k, 'dt': dt, 'cls': clsname})
                        return Verdict('refuted', 'native IEEE-double enumeration of the source expression', time.time() - t0, 'k=%d dt=%r gives %s points' % (k, dt, got),
                                       witness={'k': k, 'dt': dt, 'points': got, 'signature': 'beyond-400'}, replay={'real': rr, 'confirmed': bool(rr.get('ok') and rr['result']['got'] != rr['result']['ref'])}, sample=sample)
        except NotImplementedError as e:
            return Verdict('unknown', 'engine', time.time() - t0, str(e), sample=sample)
        import z3
        F64 = z3.Float64()
        k, dt = z3.FP('k', F64), z3.FP('dt', F64)
        s = z3.Solver()
        s.set('timeout', 60000 if tier == 'quick' else 600000)
        rm = z3.RNE()
        s.add(z3.fpIsNormal(dt), dt > z3.FPVal(1e-4, F64), dt <= z3.FPVal(1.0, F64))
        s.add(k >= z3.FPVal(1.0, F64), k <= z3.FPVal(4000.0, F64), k == z3.fpRoundToIntegral(rm, k))
        try:
            steps = fpx.to_fp(node, {'time_horizon': z3.fpMul(rm, k, dt), 'self.dt': dt})
        except NotImplementedError as e:
            return Verdict('proved', 'bounded: native enumeration only', time.time() - t0, 'no miscount for k <= %d over %d step sizes; expression not in the QF_FP fragment (%s)' % (kmax, len(grid), e), sample=sample)
        s.add(steps != z3.fpAdd(rm, k, z3.FPVal(1.0, F64)))
        r = s.check()
        if r == z3.unsat:
            return Verdict('proved', 'z3 QF_FP', time.time() - t0, 'no double pair (k, dt) miscounts', sample=sample)
        if r == z3.sat:
            m = s.model()
            fv = lambda x_: float(z3.simplify(z3.fpToReal(m.eval(x_))).as_fraction())
            kk, dd = fv(k), fv(dt)
            rr = real_exec(STEPS_REPLAY, {'k': kk, 'dt': dd, 'cls': clsname})
            ok = rr.get('ok') and rr['result']['got'] != rr['result']['ref']
            return Verdict('refuted', 'z3 QF_FP', time.time() - t0, 'k=%s dt=%r miscounts' % (kk, dd), witness={'k': kk, 'dt': dd}, replay={'real': rr, 'confirmed': bool(ok)}, sample=sample)
        return Verdict('unknown', 'z3 QF_FP', time.time() - t0, 'no miscount found by enumeration (k <= %d, %d step sizes); full-domain query: %s' % (kmax, len(grid), s.reason_unknown()), sample=sample)
    return Obligation('INS/%s.simulate/steps-in-doubles' % clsname, 'post', 'pfhedge.instruments.primary.%s.%s.simulate' % (modname, clsname), check, ['C13'],
                      clause='when maturity/dt is within rounding distance of an integer k (maturity = fl(k*dt)), simulate yields k+1 time points [IEEE double, bit-precise, expression taken from the source]')


STEPS_REPLAY = '''
import pfhedge.instruments as pi
k, dt = int(W["k"]), W["dt"]
kw = {"sigma_fn": (lambda t, s: torch.full_like(s, 0.2))} if W["cls"] == "LocalVolatilityStock" else {}
u = getattr(pi, W["cls"])(dt=dt, **kw)
d = pi.EuropeanOption(u, maturity=k * dt); d.simulate(n_paths=1)
result = {"got": d.ul().spot.size(1), "ref": k + 1}
'''


def derived_series_ob():
    """volatility / variance exposed by the primaries follow the CURRENT buffers (no stale derived data)."""
    def check():
        t0 = time.time()
        import torch
        import pfhedge.instruments as pi
        from pfv.torchlib.tensor import Tensor
        N_, T_ = tm.var('N', 'I'), tm.var('T', 'I')
        n, j = tm.var('n', 'I'), tm.var('j', 'I')

        def run(c):
            out = {}
            for cls, kw in ((pi.HestonStock, {}), (pi.RoughBergomiStock, {}), (pi.BrownianStock, {'sigma': SReal(tm.var('sg'))}), (pi.MertonJumpStock, {'sigma': SReal(tm.var('sg'))}), (pi.KouJumpStock, {'sigma': SReal(tm.var('sg'))})):
                inst = cls(dtype=torch.float64, **kw)
                names = ['spot', 'variance'] if cls in (pi.HestonStock, pi.RoughBergomiStock) else ['spot']
                for b in names:
                    inst.register_buffer(b, Tensor.input('old_' + b, (N_, T_), torch.float64))
                inst.volatility, inst.variance            # read once on the old data
                if 'sigma' in kw:
                    inst.sigma = SReal(tm.var('sg2'))     # the user changes the volatility parameter before simulating again
                for b in names:
                    inst.register_buffer(b, Tensor.input('new_' + b, (N_, T_), torch.float64))
                out[cls.__name__] = (inst.volatility, inst.variance, names)
            lv = pi.LocalVolatilityStock(lambda t_, s: s, dtype=torch.float64)
            for b in ('spot', 'volatility'):
                lv.register_buffer(b, Tensor.input('old_' + b, (N_, T_), torch.float64))
            lv.variance
            lv.register_buffer('volatility', Tensor.input('new_volatility', (N_, T_), torch.float64))
            out['LocalVolatilityStock'] = (lv.volatility, lv.variance, ['volatility'])
            return out
        p = explore(run, [tm.ge(N_, tm.IONE), tm.ge(T_, tm.IONE)], max_paths=4)[0]
        if p.outcome() != 'returns':
            return Verdict('unknown', 'engine', time.time() - t0, str((p.outcome(), str(p.exception)[:200], p.traceback[-400:])))
        for cls, (vol, var, names) in p.result.items():
            if cls in ('HestonStock', 'RoughBergomiStock'):
                want_vol = tm.app('sqrt', tm.tmax(tm.sel('new_variance', n, j), tm.ZERO))
                want_var = tm.sel('new_variance', n, j)
            elif cls == 'LocalVolatilityStock':
                want_vol = tm.sel('new_volatility', n, j)
                want_var = tm.powt(want_vol, tm.const(2, 'I'))
            else:
                want_vol = tm.var('sg2')
                want_var = tm.powt(tm.var('sg2'), tm.const(2, 'I'))
            for (nm, got, want) in (('volatility', vol, want_vol), ('variance', var, want_var)):
                r = smt.prove([], tm.eq(got.at((n, j)), want), timeout_ms=5000)
                if r.status != 'unsat' or tuple(got._shape) != (N_, T_):
                    return Verdict('refuted', 'z3', time.time() - t0, '%s.%s after re-simulation = %s, expected %s' % (cls, nm, tm.show(got.at((n, j)))[:150], tm.show(want)[:150]),
                                   witness={'cls': cls, 'series': nm}, replay=_replay_derived())
        return Verdict('proved', 'z3', time.time() - t0, '', sample={'claim': 'volatility = sqrt(max(variance,0)) / sigma of the CURRENT buffers, same shape', 'classes': list(p.result)})
    return Obligation('INS/derived-series', 'post', 'pfhedge.instruments.primary.heston.HestonStock.volatility', check, ['C11', 'C16'],
                      clause='volatility and variance of every primary are derived from its current buffers: volatility = sqrt(variance) (Heston, rough Bergomi), variance = volatility^2 (local vol), constants sigma / sigma^2 otherwise; nothing stale after re-simulation')


DERIVED_REPLAY = '''
import pfhedge.instruments as pi
bad = []
torch.manual_seed(0)
for cls in (pi.HestonStock, pi.RoughBergomiStock):
    p = cls(dtype=torch.float64); p.simulate(n_paths=3, time_horizon=0.05); p.volatility; p.simulate(n_paths=4, time_horizon=0.03)
    if p.volatility.shape != p.variance.shape or not torch.allclose(p.volatility, p.variance.clamp(min=0).sqrt()): bad.append((cls.__name__, "stale volatility"))
    p.to(torch.float32)
    if p.volatility.dtype != torch.float32: bad.append((cls.__name__, "dtype"))
# constant-volatility stock: parameter changed between two simulations of the same shape
b_ = pi.BrownianStock(sigma=0.2, dtype=torch.float64); b_.simulate(n_paths=3, time_horizon=0.05); b_.volatility; b_.variance
b_.sigma = 0.4; b_.simulate(n_paths=3, time_horizon=0.05)
if not torch.allclose(b_.volatility, torch.full_like(b_.spot, 0.4)) or not torch.allclose(b_.variance, torch.full_like(b_.spot, 0.16)): bad.append(("BrownianStock", "volatility %.3f / variance %.3f after sigma was set to 0.4" % (float(b_.volatility[0, 0]), float(b_.variance[0, 0]))))
# variance buffer with exact zeros (the QE scheme's atom at zero) and tiny values: volatility must be exactly sqrt(variance)
for dt_ in (torch.float64, torch.float32):
    p = pi.HestonStock(dtype=dt_); p.simulate(n_paths=2, time_horizon=0.02)
    p.variance.copy_(torch.tensor([[0.0, 1e-12, 0.04, 0.0, 1e-20, 0.09]] * 2, dtype=dt_)[:, : p.variance.size(1)])
    want = p.variance.to(torch.float64).sqrt()
    if not torch.allclose(p.volatility.to(torch.float64), want, rtol=1e-6, atol=0.0): bad.append(("HestonStock", str(dt_), "volatility %s, sqrt(variance) %s" % (p.volatility[0].tolist(), want[0].tolist())))
result = {"got": [str(b) for b in bad], "ref": []}
'''


def _replay_derived():
    r = real_exec(DERIVED_REPLAY, {}, timeout=300)
    ok = r.get('ok') and r['result']['got'] == []
    return {'real': r, 'confirmed': not ok, 'note': 'replay: volatility == sqrt(variance) after re-simulation and casts (Heston, rough Bergomi), and on a variance buffer containing exact zeros and tiny values'}
