"""C16 - computations never mutate market data nor depend on call history.

`modifies nothing` frames on an alias-aware heap: each tensor has a storage; basic indexing /
unsqueeze / transpose / expand / squeeze are views of the same storage, advanced indexing and
arithmetic allocate; an in-place primitive writes the storage of its receiver.  The obligation per
function: every in-place write on every path targets a storage allocated inside the call."""
from contracts import hedging

PROP = 'C16'


def build(tier, seed):
    from pfv.torchlib import import_pfhedge
    import_pfhedge()
    obs = [o for o in hedging.feature_obligations(seed) + hedging.hedger_obligations(seed, tier) if PROP in o.props] + hedging.c16_obligations(seed, tier)
    obs.extend(functional_frames(seed))
    obs.append(canary())
    return {'obligations': obs, 'functions': hedging.FEATURE_FUNCTIONS + hedging.HEDGER_FUNCTIONS + ['pfhedge.nn.functional.pl', 'pfhedge.instruments.derivative.base.BaseDerivative.payoff'],
            'assumptions': [
                'A3 torch view/copy table as encoded in pfv/torchlib/tensor.py (basic indexing, unsqueeze, transpose, expand, squeeze, to() without change = alias; list/tensor indexing, arithmetic, cat, where, clone, *_like = fresh)',
                'a user pricer / module / clause is itself frame-clean (precondition); the worst case "pricer returns an alias of the underlier buffer" is what the listed-derivative feature cases use',
                'history independence is checked for a hedger reused on a second derivative with a different number of paths (symbolic N, N2; T=3), against a fresh hedger with the same parameters',
                'autogreek sets requires_grad on a caller-supplied tensor: a metadata write, not a value write; reported here, not counted as a violation',
            ],
            'level': 'proof', 'trusted_base': ['pfv executor + storage/view alias analysis', 'z3'],
            'note': 'frames are decided structurally by the executor (which storage an in-place op targets is not symbolic), on every path.'}


def functional_frames(seed):
    import torch
    from pfv import terms as tm
    from pfv.proxies import SReal
    H = hedging
    obs = []

    def mk(fname, builder, clause):
        def run(c):
            import pfhedge.nn.functional as F
            return builder(F)
        return H.frame_ob('C16/%s/frame' % fname, 'pfhedge.nn.functional.' + fname, run, H.DIMS, clause)

    def T2(name):
        from pfv.torchlib.tensor import Tensor
        return Tensor.input(name, (H.N, H.T), torch.float64)

    def T3(name):
        from pfv.torchlib.tensor import Tensor
        return Tensor.input(name, (H.N, tm.var('Hh', 'I'), H.T), torch.float64)
    for fn in ('european_payoff', 'lookback_payoff', 'american_binary_payoff', 'european_binary_payoff'):
        for call in (True, False):
            obs.append(mk('%s[%s]' % (fn, call), lambda F, fn=fn, call=call: getattr(F, fn)(T2('X'), call=call, strike=SReal(H.K)), '%s modifies nothing' % fn))
    obs.append(mk('european_forward_start_payoff', lambda F: F.european_forward_start_payoff(T2('X'), strike=SReal(H.K), start_index=1), 'modifies nothing'))
    obs.append(mk('realized_variance', lambda F: F.realized_variance(T2('X'), dt=SReal(H.DT)), 'modifies nothing'))
    obs.append(mk('leaky_clamp', lambda F: F.leaky_clamp(T2('X'), T2('LO'), T2('HI'), clamped_slope=SReal(tm.var('s'))), 'modifies nothing'))
    obs.append(mk('clamp', lambda F: F.clamp(T2('X'), T2('LO'), T2('HI')), 'modifies nothing'))
    obs.append(mk('bs_european_delta', lambda F: F.bs_european_delta(T2('X'), T2('TT'), T2('VV')), 'modifies nothing (raising paths included)'))
    obs.append(mk('entropic_risk_measure', lambda F: F.entropic_risk_measure(T2('X'), a=SReal(tm.var('a'))), 'modifies nothing'))
    obs.append(mk('expected_shortfall', lambda F: F.expected_shortfall(T2('X'), 0.5, dim=0), 'modifies nothing'))
    return obs


def canary():
    import torch
    from pfv import terms as tm
    H = hedging

    def run(c):
        d = H.mk_derivative()
        out = d.ul().spot[:, ...].unsqueeze(-1)
        out.log_()
        return out
    ob = H.frame_ob('C16/canary/log_-on-a-view', '', run, H.DIMS, 'CANARY (must be refuted): log_() on a view of the spot buffer modifies nothing (the defect fixed in 0b383ce)')
    ob.kind = 'canary'
    return ob
