"""C16 - computations never mutate market data nor depend on call history.

`modifies nothing` frames on an alias-aware heap: each tensor has a storage; basic indexing /
unsqueeze / transpose / expand / squeeze are views of the same storage, advanced indexing and
arithmetic allocate; an in-place primitive writes the storage of its receiver.  The obligation per
function: every in-place write on every path targets a storage allocated inside the call."""
from contracts import hedging

PROP = 'C16'


def build(tier, seed):
    from pfv.torchlib import import_pfhedge
    import_pfhedge()
    obs = [o for o in hedging.feature_obligations(seed) + hedging.hedger_obligations(seed, tier) if PROP in o.props] + hedging.c16_obligations(seed, tier)
    obs.extend(functional_frames(seed))
    obs.extend(functional_history(seed))
    obs.append(canary())
    return {'obligations': obs, 'functions': hedging.FEATURE_FUNCTIONS + hedging.HEDGER_FUNCTIONS + ['pfhedge.nn.functional.pl', 'pfhedge.instruments.derivative.base.BaseDerivative.payoff'],
            'assumptions': [
                'A3 torch view/copy table as encoded in pfv/torchlib/tensor.py (basic indexing, unsqueeze, transpose, expand, squeeze, to() without change = alias; list/tensor indexing, arithmetic, cat, where, clone, *_like = fresh)',
                'a user pricer / module / clause is itself frame-clean (precondition); the worst case "pricer returns an alias of the underlier buffer" is what the listed-derivative feature cases use',
                'history independence is checked for a hedger reused on a second derivative with a different number of paths (symbolic N, N2; T=3), against a fresh hedger with the same parameters',
                'autogreek sets requires_grad on a caller-supplied tensor: a metadata write, not a value write; reported here, not counted as a violation',
            ],
            'level': 'proof', 'trusted_base': ['pfv executor + storage/view alias analysis', 'z3'],
            'note': 'frames are decided structurally by the executor (which storage an in-place op targets is not symbolic), on every path.'}


FUNC_FRAME_REPLAY = '''
import pfhedge.nn as pnn
import pfhedge.nn.functional as F
torch.manual_seed(4)
bad = []
def chk(name, fn, *tensors):
    saved = [t.clone() for t in tensors]
    try:
        fn(*tensors)
    except Exception as e:
        bad.append((name, "raised " + type(e).__name__)); return
    for k, (t, s_) in enumerate(zip(tensors, saved)):
        if not torch.equal(t, s_): bad.append((name, "argument %d was modified in place" % k))
X = lambda *shape: torch.randn(*shape, dtype=torch.float64) * 3.0
P = lambda *shape: torch.rand(*shape, dtype=torch.float64) + 0.5
chk("quadratic_cvar[dim=0]", lambda x: F.quadratic_cvar(x, 2.0, dim=0), X(30, 2))
chk("quadratic_cvar[dim=None]", lambda x: F.quadratic_cvar(x, 2.0), X(30))
chk("QuadraticCVaR.forward", lambda x, z: pnn.QuadraticCVaR(2.0)(x, z), X(30, 2), X(30, 2))
chk("entropic_risk_measure", lambda x: F.entropic_risk_measure(x, a=1.5), X(30, 2))
chk("expected_shortfall", lambda x: F.expected_shortfall(x, 0.3, dim=0), X(30, 2))
chk("value_at_risk", lambda x: F.value_at_risk(x, 0.3, dim=0), X(30, 2))
chk("exp_utility", lambda x: F.exp_utility(x, a=0.5), X(30, 2))
chk("isoelastic_utility", lambda x: F.isoelastic_utility(x, 0.5), P(30, 2))
chk("pl", lambda s, u, p: F.pl(s, u, cost=[0.01, 0.02], payoff=p), P(5, 2, 7), X(5, 2, 7), X(5))
chk("realized_volatility", lambda x: F.realized_volatility(x, dt=0.01), P(5, 7))
chk("ww_width", lambda g, x: F.ww_width(g, x, 0.01, a=1.0), X(5, 7), P(5, 7))
for nm in ("bs_european_price", "bs_european_gamma", "bs_european_vega", "bs_european_theta", "bs_european_binary_price", "bs_european_binary_delta"):
    kw = {"strike": 1.2} if nm.split("_")[-1] in ("gamma", "vega", "theta") else {}
    chk(nm, lambda x, t, v, nm=nm, kw=kw: getattr(F, nm)(x, t, v, **kw), X(5, 7) * 0.1, P(5, 7), P(5, 7) * 0.3)
for nm in ("bs_american_binary_price", "bs_american_binary_delta", "bs_lookback_price"):
    kw = {} if nm == "bs_american_binary_price" else {"strike": 1.2}
    x = X(5, 7) * 0.1
    chk(nm, lambda x, m, t, v, nm=nm, kw=kw: getattr(F, nm)(x, m, t, v, **kw), x, x.clamp(min=0) + 0.05, P(5, 7), P(5, 7) * 0.3)
for (nm, crit) in (("EntropicRiskMeasure", pnn.EntropicRiskMeasure(1.5)), ("ExpectedShortfall", pnn.ExpectedShortfall(0.3)), ("EntropicLoss", pnn.EntropicLoss(0.5))):
    chk(nm + ".forward", lambda x, z, crit=crit: crit(x, z), X(30, 2), X(30, 2))
    chk(nm + ".cash", lambda x, crit=crit: crit.cash(x), X(30, 2))
result = {"got": [str(b) for b in bad], "ref": []}
'''


def _replay_functional():
    from pfv.framework import real_exec
    r = real_exec(FUNC_FRAME_REPLAY, {}, timeout=600)
    ok = r.get('ok') and r['result']['got'] == []
    return {'real': r, 'confirmed': not ok, 'note': 'replay: every functional form / criterion called on random tensors under real torch; arguments compared bit-wise before and after'}


def functional_frames(seed):
    import torch
    from pfv import terms as tm
    from pfv.proxies import SReal
    H = hedging
    obs = []

    def mk(fname, builder, clause):
        def run(c):
            import pfhedge.nn.functional as F
            return builder(F)
        return H.frame_ob('C16/%s/frame' % fname, 'pfhedge.nn.functional.' + fname, run, H.DIMS, clause, replay=_replay_functional)

    def T2(name):
        from pfv.torchlib.tensor import Tensor
        return Tensor.input(name, (H.N, H.T), torch.float64)

    def T3(name):
        from pfv.torchlib.tensor import Tensor
        return Tensor.input(name, (H.N, tm.var('Hh', 'I'), H.T), torch.float64)
    for fn in ('european_payoff', 'lookback_payoff', 'american_binary_payoff', 'european_binary_payoff'):
        for call in (True, False):
            obs.append(mk('%s[%s]' % (fn, call), lambda F, fn=fn, call=call: getattr(F, fn)(T2('X'), call=call, strike=SReal(H.K)), '%s modifies nothing' % fn))
    obs.append(mk('european_forward_start_payoff', lambda F: F.european_forward_start_payoff(T2('X'), strike=SReal(H.K), start_index=1), 'modifies nothing'))
    obs.append(mk('realized_variance', lambda F: F.realized_variance(T2('X'), dt=SReal(H.DT)), 'modifies nothing'))
    obs.append(mk('leaky_clamp', lambda F: F.leaky_clamp(T2('X'), T2('LO'), T2('HI'), clamped_slope=SReal(tm.var('s'))), 'modifies nothing'))
    obs.append(mk('clamp', lambda F: F.clamp(T2('X'), T2('LO'), T2('HI')), 'modifies nothing'))
    obs.append(mk('bs_european_delta', lambda F: F.bs_european_delta(T2('X'), T2('TT'), T2('VV')), 'modifies nothing (raising paths included)'))
    obs.append(mk('entropic_risk_measure', lambda F: F.entropic_risk_measure(T2('X'), a=SReal(tm.var('a'))), 'modifies nothing'))
    obs.append(mk('expected_shortfall', lambda F: F.expected_shortfall(T2('X'), 0.5, dim=0), 'modifies nothing'))
    # the remaining risk measures / utilities / criteria: the caller's P&L tensor is never written
    from contracts.training import _with_bisect_stub

    def T1(name):
        from pfv.torchlib.tensor import Tensor
        return Tensor.input(name, (H.N,), torch.float64)
    obs.append(mk('quadratic_cvar[dim=0]', lambda F: _with_bisect_stub(lambda: F.quadratic_cvar(T2('X'), SReal(tm.var('lam')), dim=0)), 'modifies nothing (bisect under its contract stub)'))
    obs.append(mk('quadratic_cvar[dim=None]', lambda F: _with_bisect_stub(lambda: F.quadratic_cvar(T1('X'), SReal(tm.var('lam')))), 'modifies nothing, also through the flatten() view taken for dim=None'))
    obs.append(mk('value_at_risk', lambda F: F.value_at_risk(T2('X'), 0.5, dim=0), 'modifies nothing'))
    obs.append(mk('exp_utility', lambda F: F.exp_utility(T2('X'), a=SReal(tm.var('a'))), 'modifies nothing'))
    obs.append(mk('isoelastic_utility', lambda F: F.isoelastic_utility(T2('X'), 0.5), 'modifies nothing'))
    obs.append(mk('pl', lambda F: F.pl(T3('S3'), T3('U3'), cost=[0.01], payoff=T1('P')), 'pl modifies neither prices, positions nor the payoff'))
    obs.append(mk('realized_volatility', lambda F: F.realized_volatility(T2('X'), dt=SReal(H.DT)), 'modifies nothing'))
    obs.append(mk('ww_width', lambda F: F.ww_width(T2('G'), T2('X'), SReal(tm.var('c1')), a=SReal(tm.var('a'))), 'modifies nothing'))
    for bsf in ('bs_european_price', 'bs_european_gamma', 'bs_european_vega', 'bs_european_theta', 'bs_european_binary_price', 'bs_european_binary_delta'):
        obs.append(mk(bsf, lambda F, bsf=bsf: getattr(F, bsf)(T2('X'), T2('TT'), T2('VV'), **({'strike': SReal(H.K)} if bsf in ('bs_european_vega', 'bs_european_theta', 'bs_european_gamma') else {})), 'modifies nothing (raising paths included)'))
    for bsf in ('bs_american_binary_price', 'bs_american_binary_delta', 'bs_lookback_price'):
        obs.append(mk(bsf, lambda F, bsf=bsf: getattr(F, bsf)(T2('X'), T2('MM'), T2('TT'), T2('VV'), **({'strike': SReal(H.K)} if bsf != 'bs_american_binary_price' else {})), 'modifies nothing (raising paths included)'))

    def mkmod(name, builder, clause):
        def run(c):
            import pfhedge.nn as pnn
            return builder(pnn)
        return H.frame_ob('C16/%s/frame' % name, 'pfhedge.nn.modules.loss.' + name.split('.')[0], run, H.DIMS, clause, replay=_replay_functional)
    obs.append(mkmod('EntropicRiskMeasure.forward', lambda pnn: pnn.EntropicRiskMeasure(SReal(tm.var('a')))(T2('X'), T1('Z0').sum()), 'input and target are not written'))
    obs.append(mkmod('ExpectedShortfall.forward', lambda pnn: pnn.ExpectedShortfall(0.5)(T2('X'), T1('Z0').sum()), 'input and target are not written'))
    obs.append(mkmod('QuadraticCVaR.forward', lambda pnn: _with_bisect_stub(lambda: pnn.QuadraticCVaR(SReal(tm.var('lam')))(T2('X'), T1('Z0').sum())), 'input and target are not written'))
    obs.append(mkmod('EntropicLoss.forward', lambda pnn: pnn.EntropicLoss(SReal(tm.var('a')))(T2('X'), T1('Z0').sum()), 'input and target are not written'))
    obs.append(mkmod('EntropicRiskMeasure.cash', lambda pnn: pnn.EntropicRiskMeasure(SReal(tm.var('a'))).cash(T2('X')), 'input is not written'))
    obs.append(mkmod('ExpectedShortfall.cash', lambda pnn: pnn.ExpectedShortfall(0.5).cash(T2('X')), 'input is not written'))
    return obs


HISTORY_FN_REPLAY = '''
import pfhedge.nn.functional as F
bad = []
x = T([-0.1, 0.02, 0.05]); m = T([0.03, 0.04, 0.09]); t = T([0.01, 0.2, 0.5]); v = T([0.2, 0.3, 0.25])
cases = {"bs_european_price": lambda a: F.bs_european_price(a[0], a[2], a[3], strike=1.3), "bs_european_delta": lambda a: F.bs_european_delta(a[0], a[2], a[3]),
         "bs_european_gamma": lambda a: F.bs_european_gamma(a[0], a[2], a[3], strike=1.3), "bs_european_binary_price": lambda a: F.bs_european_binary_price(a[0], a[2], a[3]),
         "bs_american_binary_price": lambda a: F.bs_american_binary_price(a[0] - 0.2, a[1] - 0.1, a[2], a[3]), "bs_lookback_price": lambda a: F.bs_lookback_price(a[0], a[1], a[2], a[3], strike=1.3),
         "entropic_risk_measure": lambda a: F.entropic_risk_measure(a[0], a=2.0), "expected_shortfall": lambda a: F.expected_shortfall(a[0], 0.5), "d1": lambda a: F.d1(a[0], a[2], a[3]), "d2": lambda a: F.d2(a[0], a[2], a[3])}
for name, fn in cases.items():
    a = [x.clone(), m.clone(), t.clone(), v.clone()]
    fn(a)
    a[2].fill_(1.0); a[3].mul_(2.0); a[0].add_(0.01); a[1].add_(0.01)          # the caller updates its own tensors in place and evaluates again
    got = fn(a)
    ref = fn([z.clone() for z in a])
    if not torch.allclose(got, ref, atol=1e-12, equal_nan=True): bad.append((name, got.tolist(), ref.tolist()))
result = {"got": [str(b) for b in bad][:8], "ref": []}
'''


def _replay_history_fn():
    from pfv.framework import real_exec
    r = real_exec(HISTORY_FN_REPLAY, {}, timeout=300)
    ok = r.get('ok') and r['result']['got'] == []
    return {'real': r, 'confirmed': not ok, 'note': 'replay: each function evaluated, its argument tensors updated in place by the caller, evaluated again on the same objects and compared with the evaluation on copies'}


def functional_history(seed):
    """no dependence on call history for the functional forms: f(args); the caller updates the SAME tensor objects in place;
    f(args) again must be f of the current values (nothing remembered by object identity or in module-level state)."""
    import time
    import torch
    from pfv import terms as tm
    from pfv import fc
    from pfv.framework import Obligation, Verdict
    from pfv.proxies import explore, SReal, Unsupported
    H = hedging
    obs = []
    N = H.N

    def mk(fname, names, call, positive=(), order=()):
        def check():
            t0 = time.time()
            import pfhedge.nn.functional as F
            from pfv.torchlib.tensor import Tensor

            def run(c):
                args = [Tensor.input(nm, (N,), torch.float64) for nm in names]
                i_ = c.fresh('hi', 'I')
                for nm in positive:
                    c.assume(tm.forall(i_, tm.IZERO, N, tm.gt(tm.sel(nm, i_), tm.ZERO)))
                for (lo_, hi_) in order:
                    c.assume(tm.forall(i_, tm.IZERO, N, tm.le(tm.sel(lo_, i_), tm.sel(hi_, i_))))
                call(F, *args)
                for a in args:
                    a.mul_(2.0)                       # the caller's own in-place update between the two evaluations
                again = call(F, *args)
                fresh = [Tensor.fresh(lambda idx, nm=nm: tm.mul(tm.const(2.0), tm.sel(nm, idx[0])), (N,), torch.float64) for nm in names]
                return again, call(F, *fresh)
            try:
                paths = explore(run, H.DIMS, max_paths=16)
            except Unsupported as e:
                return Verdict('unknown', 'engine', time.time() - t0, 'out of reach: %s' % e)
            n = tm.var('n', 'I')
            nvc = 0
            for p in paths:
                if p.outcome() != 'returns':
                    if p.outcome().startswith('raises:ValueError'):
                        continue                      # the validity checks of the Black-Scholes functions on a path with negative t / v
                    return Verdict('unknown', 'engine', time.time() - t0, str((p.outcome(), str(p.exception)[:200], p.traceback[-300:])))
                a, b = p.result
                idx = (n,) if len(a._shape) == 1 else ()
                r = fc.prove_eq(p.facts(H.DIMS) + [tm.le(tm.IZERO, n), tm.lt(n, N)], a.at(idx), b.at(idx), timeout_ms=20000)
                nvc += 1
                if r.status != 'unsat':
                    rp = _replay_history_fn()
                    return Verdict('refuted' if (r.status == 'sat' or rp.get('confirmed')) else 'unknown', r.backend, time.time() - t0,
                                   '%s evaluated again after the caller updated its tensors in place: %s; on fresh tensors with the same values: %s' % (fname, tm.show(a.at(idx))[:200], tm.show(b.at(idx))[:200]),
                                   witness={'again': tm.show(a.at(idx))[:300], 'fresh': tm.show(b.at(idx))[:300]}, replay=rp)
            if not nvc:
                return Verdict('unknown', 'engine', time.time() - t0, 'no returning path')
            return Verdict('proved', 'z3', time.time() - t0, '%d VCs' % nvc, sample={'claim': '%s: second evaluation on the same (updated) tensor objects == evaluation on fresh tensors' % fname})
        return Obligation('C16/%s/history[arguments updated in place]' % fname, 'post', 'pfhedge.nn.functional.' + fname.split('[')[0], check, [PROP],
                          clause='%s called twice on the same tensor objects, updated in place by the caller in between, returns the value for the current contents' % fname)
    K = SReal(H.K)
    pos = ('TT', 'VV')
    obs.append(mk('d1', ('X', 'TT', 'VV'), lambda F, x, t, v: F.d1(x, t, v), pos))
    obs.append(mk('d2', ('X', 'TT', 'VV'), lambda F, x, t, v: F.d2(x, t, v), pos))
    for bsf in ('bs_european_price', 'bs_european_delta', 'bs_european_gamma', 'bs_european_vega', 'bs_european_theta', 'bs_european_binary_price', 'bs_european_binary_delta'):
        kw = {'strike': K} if bsf.split('_')[-1] in ('gamma', 'vega', 'theta') or bsf == 'bs_european_price' else {}
        obs.append(mk(bsf, ('X', 'TT', 'VV'), lambda F, x, t, v, bsf=bsf, kw=kw: getattr(F, bsf)(x, t, v, **kw), pos))
    for bsf in ('bs_american_binary_price', 'bs_american_binary_delta', 'bs_lookback_price'):
        kw = {} if bsf == 'bs_american_binary_price' else {'strike': K}
        obs.append(mk(bsf, ('X', 'MM', 'TT', 'VV'), lambda F, x, m, t, v, bsf=bsf, kw=kw: getattr(F, bsf)(x, m, t, v, **kw), pos, order=(('X', 'MM'),)))
    obs.append(mk('entropic_risk_measure', ('X',), lambda F, x: F.entropic_risk_measure(x, a=SReal(tm.var('a')))))
    obs.append(mk('expected_shortfall', ('X',), lambda F, x: F.expected_shortfall(x, 0.5)))
    obs.append(mk('exp_utility', ('X',), lambda F, x: F.exp_utility(x, a=SReal(tm.var('a')))))
    return obs


def canary():
    import torch
    from pfv import terms as tm
    H = hedging

    def run(c):
        d = H.mk_derivative()
        out = d.ul().spot[:, ...].unsqueeze(-1)
        out.log_()
        return out
    ob = H.frame_ob('C16/canary/log_-on-a-view', '', run, H.DIMS, 'CANARY (must be refuted): log_() on a view of the spot buffer modifies nothing (the defect fixed in 0b383ce)')
    ob.kind = 'canary'
    return ob
