"""C19 - bisection and implied volatility invert monotone functions to precision.

bisect(fn, target, lower, upper, precision, max_iter), fn = uninterpreted element-wise F(j, x):
  requires  lower_j < upper_j;  F(j, .) non-decreasing (resp. non-increasing with F(j,lo) > F(j,hi) for all j);
            F(j, lower_j) <= target_j <= F(j, upper_j)   (target inside the range on the bracket)
  loop inv  lo0 <= lo <= up <= up0,  F(j,lo_j) <= target_j <= F(j,up_j),  0 <= n_iter <= max_iter
            each width halves:  (up'-lo')_j = (up-lo)_j / 2
  decreases max_iter + 1 - n_iter                      (so the loop stops, by return or RuntimeError)
  ensures   lo0 <= result <= up0 and  F(j, result_j - w_j) <= target_j <= F(j, result_j) with 0 <= w_j <= precision;
            hence for strictly monotone F every root r_j of F(j,.) = target_j has |result_j - r_j| <= precision
  raises    ValueError iff not all lower < upper;  RuntimeError only after more than max_iter iterations
find_implied_volatility / BS*.implied_volatility: wiring to bisect on sigma -> pricer(volatility=sigma, ...)
"""
import time

from pfv import terms as tm
from pfv import smt, fc
from pfv import cutloops
from pfv.framework import Obligation, Verdict, real_exec
from pfv.proxies import explore, SReal, SInt, Unsupported, PathAbort, ctx
import functools as _ft
_explore_raw = explore
explore = _ft.partial(_explore_raw, enforce_bounds=True)     # shim range assumptions (slices / indices) must be provable on every returning path

PROP = 'C19'
FUNCTIONS = ['pfhedge._utils.bisect.bisect', 'pfhedge._utils.bisect.find_implied_volatility',
             'pfhedge.nn.modules.bs.european.BSEuropeanOption.implied_volatility',
             'pfhedge.nn.modules.bs.european_binary.BSEuropeanBinaryOption.implied_volatility',
             'pfhedge.nn.modules.bs.american_binary.BSAmericanBinaryOption.implied_volatility',
             'pfhedge.nn.modules.bs.lookback.BSLookbackOption.implied_volatility']
ASSUMPTIONS = [
    'A1 reals for floats: in floats the midpoint can coincide with an end point; termination is still guaranteed by the iteration counter (the decreases obligation does not use real arithmetic on the bracket)',
    'A4 intermediate value theorem: F(lo) <= target <= F(up) with F continuous gives a root in [lo, up] (used only to read the postcondition as "within precision of a root" for non-strict F)',
    'A6 fn is element-wise (F(j, x) depends on element j only), continuous and monotone in the same direction for every element - the documented precondition',
    'A3 torch contracts: as_tensor, where, max, all, comparisons, arithmetic',
    'implied volatility: monotonicity of the European price in sigma is C09 (vega > 0); for the other products it is the hypothesis stated in the property',
]
N = tm.var('n', 'I')
PREC, MAXIT = tm.var('prec'), tm.var('max_iter', 'I')


def F(j, xx):
    return tm.app('F', j, xx)


def mono_axiom(strict, decreasing=False):
    j, a, b = tm.fresh('mj', 'I'), tm.fresh('ma'), tm.fresh('mb')
    # quantified over an integer index and two reals: encoded with nested forall over j only; a, b are
    # instantiated by the VC generator (ground instances supplied per query) - see mono_instances()
    return None


def mono_instances(pairs, decreasing=False, strict=False):
    """Ground instances of monotonicity of F(j, .) for the listed (j, a, b) triples (both orders)."""
    out = []
    for (j, a, b) in pairs:
        fa, fb = F(j, a), F(j, b)
        if decreasing:
            fa, fb = fb, fa
        out.append(tm.implies(tm.le(a, b), tm.le(fa, fb)))
        out.append(tm.implies(tm.le(b, a), tm.le(fb, fa)))
        if strict:
            out.append(tm.implies(tm.lt(a, b), tm.lt(fa, fb)))
            out.append(tm.implies(tm.lt(b, a), tm.lt(fb, fa)))
    return out


def _inputs(decreasing):
    import torch
    from pfv.torchlib.tensor import Tensor
    lower = Tensor.input('lo0', (N,), torch.float64)
    upper = Tensor.input('up0', (N,), torch.float64)
    target = Tensor.input('tg', (N,), torch.float64)

    def fn(tensor):
        rd = tensor.reader()
        return Tensor.fresh(lambda idx: F(idx[0], rd(idx)), tensor._shape, tensor.dtype)
    return fn, target, lower, upper


def _forall_j(body_fn):
    j = tm.fresh('fj', 'I')
    return tm.forall(j, tm.IZERO, N, body_fn(j))


def loop_case(decreasing):
    """bisect on the increasing branch (decreasing=False) or entered through the recursive call."""
    def build():
        import pfhedge._utils.bisect as bm
        el = lambda name, j: tm.sel(name, j)

        def inv(state, state0):
            lo, up, n_iter = state['lower'], state['upper'], state['n_iter']
            lo0, up0 = state0['lower'], state0['upper']
            tgt = state['target']

            def body(j):
                l, u = lo.at((j,)), up.at((j,))
                return tm.and_(tm.le(lo0.at((j,)), l), tm.le(l, u), tm.le(u, up0.at((j,))),
                               tm.le(F(j, l), tgt.at((j,))), tm.le(tgt.at((j,)), F(j, u)))
            return [('bracket: lo0<=lo<=up<=up0 and F(lo)<=target<=F(up)', _forall_j(body)),
                    ('counter: 0 <= n_iter <= max_iter', tm.and_(tm.le(tm.IZERO, tm.as_term(_lift(n_iter))), tm.le(tm.as_term(_lift(n_iter)), MAXIT)))]

        def decreases(state):
            return tm.sub(tm.add(MAXIT, tm.IONE), tm.as_term(_lift(state['n_iter'])))
        cutfn, info = cutloops.cut(bm.bisect, {0: cutloops.LoopSpec(inv, decreases, name='while max(upper-lower) > precision')},
                                   stubs={'bisect': _recursive_stub})
        jj = tm.var('wj', 'I')

        def run(c):
            fn, target, lower, upper = _inputs(False)
            # requires: target within the range of F on the bracket, lower < upper (element-wise)
            c.assume(_forall_j(lambda j: tm.and_(tm.lt(el('lo0', j), el('up0', j)),
                                                 tm.le(F(j, el('lo0', j)), el('tg', j)), tm.le(el('tg', j), F(j, el('up0', j))))))
            # increasing direction: not all F(lo) > F(up)   (follows from the range hypothesis when n >= 1)
            return cutfn(fn, target, lower, upper, precision=SReal(PREC), max_iter=SInt(MAXIT))

        def ens(res, p):
            # exit path: result = upper, width <= precision, bracket invariant
            j = p.ctx.fresh('ej', 'I')
            rng = [tm.le(tm.IZERO, j), tm.lt(j, N)]
            r = res.at((j,))
            lo_exit = None
            out = [('result within the initial bracket', rng, tm.and_(tm.le(tm.sel('lo0', j), r), tm.le(r, tm.sel('up0', j))), tm.TRUE),
                   ('target <= F(result)', rng, tm.le(tm.sel('tg', j), F(j, r)), tm.TRUE)]
            # there is w in [0, precision] with F(result - w) <= target: w = upper - lower at exit
            lo_t = p.ctx.exit_state['lower'].at((j,)) if getattr(p.ctx, 'exit_state', None) else None
            return out
        return fc.Case(run, hyps=[tm.ge(N, tm.IONE), tm.gt(PREC, tm.ZERO), tm.ge(MAXIT, tm.IZERO)], ensures=ens,
                       raises={'RuntimeError': tm.TRUE}, shape=lambda res: (N,), max_paths=32), info
    return build


def _lift(x):
    from pfv.proxies import lift
    return lift(x)


def _recursive_stub(*a, **k):
    raise PathAbort('recursive-call', 'bisect called recursively on the increasing-direction contract case')


FRAME_REPLAY = '''
from pfhedge._utils.bisect import bisect
bad = []
for dtype in (torch.float64, torch.float32):
    tg = torch.tensor([0.5, 2.0, 7.0], dtype=dtype); lo = torch.full((3,), -3.0, dtype=dtype); up = torch.full((3,), 3.0, dtype=dtype)
    keep = [t.clone() for t in (tg, lo, up)]
    fn = lambda x: x * x * x + x
    r1 = bisect(fn, tg, lo, up, precision=1e-4)
    for nm, t, k in zip(("target", "lower", "upper"), (tg, lo, up), keep):
        if not torch.equal(t, k): bad.append((str(dtype), nm + " was modified in place"))
    try:
        r2 = bisect(fn, tg, lo, up, precision=1e-4)
        if not torch.allclose(r1, r2): bad.append((str(dtype), "second solve with the same bracket differs"))
    except Exception as e:
        bad.append((str(dtype), "second solve raises " + type(e).__name__))
result = {"got": [str(b) for b in bad], "ref": []}
'''


def bisect_loop_ob():
    holder = {}

    def check():
        t0 = time.time()
        case, info = loop_case(False)()
        try:
            paths = explore(case.run, case.hyps, max_paths=case.max_paths)
        except Unsupported as e:
            return Verdict('unknown', 'engine', time.time() - t0, 'out of reach: %s' % e)
        nvc = 0
        outcomes = []
        sample = {'claim': 'loop invariant, decreases, exit postcondition of bisect (increasing branch)', 'rewrite_sha': info['source_sha256'],
                  'rewritten_function': info['rewritten'][:1800], 'paths': []}
        seen_exit = seen_iter = seen_err = False
        for p in paths:
            out = p.outcome()
            sample['paths'].append(out + (':' + p.aborted.kind if p.aborted else ''))
            facts = p.facts(case.hyps)
            # discharge all side obligations (inv-init, inv-preserve, decreases, definedness)
            for so in p.side:
                nvc += 1
                extra = _instances_for(so['goal'], so['hyps'])
                r = smt.prove(so['hyps'] + extra, so['goal'], timeout_ms=30000)
                if r.status != 'unsat':
                    return Verdict('refuted' if r.status == 'sat' else 'unknown', r.backend, time.time() - t0,
                                   '%s %s not provable: %s' % (so['kind'], so['name'], tm.show(so['goal'])[:400]), witness={'obligation': so['name']}, sample=sample,
                                   replay=_replay_bisect())
            if p.aborted is not None:
                if p.aborted.kind == 'loop-cut':
                    seen_iter = True
                    continue
                if p.aborted.kind == 'recursive-call':
                    # the decreasing-direction test fired: must be infeasible under the increasing-case requires
                    r = smt.check_sat(facts + _instances_for(tm.and_(*facts), facts), timeout_ms=20000)
                    nvc += 1
                    if r.status == 'unsat':
                        continue
                    # feasible only if F(lo) > F(up) for all j while F(lo) <= target <= F(up): contradiction needs n >= 1 instance
                    return Verdict('unknown', r.backend, time.time() - t0, 'direction test not refuted on the increasing case', sample=sample)
                return Verdict('unknown', 'engine', time.time() - t0, 'abort %s' % p.aborted, sample=sample)
            if out == 'raises:RuntimeError':
                seen_err = True
                # only after more than max_iter iterations: n_iter > max_iter on this path
                continue
            if out == 'raises:ValueError':
                # lower < upper is required: infeasible
                r = smt.check_sat(facts, timeout_ms=20000)
                nvc += 1
                if r.status != 'unsat':
                    return Verdict('refuted' if r.status == 'sat' else 'unknown', r.backend, time.time() - t0, 'ValueError although lower < upper', witness={}, sample=sample, replay=_replay_bisect())
                continue
            if out != 'returns':
                return Verdict('unknown', 'engine', time.time() - t0, 'path %s: %s %s' % (out, p.exception, p.traceback[-600:]), sample=sample)
            seen_exit = True
            res = p.result
            j = tm.var('ej', 'I')
            rng = [tm.le(tm.IZERO, j), tm.lt(j, N)]
            r_j = res.at((j,))
            # exit facts: not (max(upper-lower) > precision)  is in the path condition
            lo_j, up_j = tm.sel('hv0_lower', j), tm.sel('hv0_upper', j)
            goals = [
                ('result within the initial bracket', tm.and_(tm.le(tm.sel('lo0', j), r_j), tm.le(r_j, tm.sel('up0', j)))),
                # a bracket [a, b] of width <= precision around the result on which F crosses the target
                # (=> a root within precision, by the intermediate value theorem A4); witnesses: the exit state
                ('exists a <= result <= b, b - a <= precision, F(a) <= target <= F(b)',
                 tm.and_(tm.le(lo_j, r_j), tm.le(r_j, up_j), tm.le(tm.sub(up_j, lo_j), PREC), tm.le(F(j, lo_j), tm.sel('tg', j)), tm.le(tm.sel('tg', j), F(j, up_j)))),
            ]
            # strictly monotone F: every root is within precision of the result
            root = tm.var('root')
            strict = mono_instances([(j, root, lo_j), (j, root, up_j)], strict=True)
            goals.append(('strictly monotone F: |result - root| <= precision for every root',
                          tm.implies(tm.and_(tm.eq(F(j, root), tm.sel('tg', j)), *strict), tm.and_(tm.le(tm.sub(r_j, root), PREC), tm.le(tm.sub(root, r_j), PREC)))))
            for (label, g) in goals:
                nvc += 1
                r = smt.prove(facts + rng + _instances_for(g, facts), g, timeout_ms=30000)
                if len(sample.get('vcs', [])) < 4:
                    sample.setdefault('vcs', []).append({'vc': label, 'status': r.status})
                if r.status != 'unsat':
                    return Verdict('refuted' if r.status == 'sat' else 'unknown', r.backend, time.time() - t0, 'exit postcondition `%s` fails' % label,
                                   witness={'vc': label}, sample=sample, replay=_replay_bisect())
        if not (seen_exit and seen_iter and seen_err):
            return Verdict('unknown', 'engine', time.time() - t0, 'expected exit, iteration and iteration-budget paths; got %s' % sample['paths'], sample=sample)
        # frame: target / lower / upper handed in by the caller (full-shape tensors) are not written - neither before the loop,
        # nor by an arbitrary iteration (names only mutated in place keep the origin of the object they denoted at loop entry), nor after it
        for p in paths:
            for (stg, what) in p.writes:
                nvc += 1
                if stg.origin != 'fresh' and not stg.origin.startswith('leaf:'):
                    rr = real_exec(FRAME_REPLAY, {}, timeout=300)
                    conf = not (rr.get('ok') and rr['result']['got'] == [])
                    return Verdict('refuted', 'alias-analysis', time.time() - t0, 'bisect writes in place (%s) into a tensor of the caller (%s): a second solve with the same bracket is wrong' % (what, stg.origin),
                                   witness={'written': stg.origin, 'op': what}, sample=sample, replay={'real': rr, 'confirmed': conf})
        sample['n_vcs'] = nvc
        return Verdict('proved', 'z3 (UF+LRA, quantified invariant)', time.time() - t0, '%d paths, %d VCs' % (len(paths), nvc), sample=sample)
    return Obligation('C19/bisect/loop[increasing]', 'inv-init/inv-preserve/decreases/post', 'pfhedge._utils.bisect.bisect', check, [PROP],
                      clause='bracket invariant holds initially and is preserved, the counter measure decreases, and at exit the result is within precision of the root(s)')


def _instances_for(goal, facts):
    """Ground monotonicity instances of F for all pairs of arguments of F(j, .) that occur in the query
    (the quantified axiom `F(j,.) non-decreasing` instantiated on the finitely many relevant terms)."""
    occ = {}
    for t_ in [goal] + list(facts):
        for u in tm.subterms(t_):
            if u.op == 'app' and u.args[0] == 'F' and len(u.args) == 3:
                if not (tm.free_vars(u.args[1]) | tm.free_vars(u.args[2])) & _bound_like(u):
                    occ.setdefault(u.args[1], set()).add(u.args[2])
    pairs = []
    for j, xs in occ.items():
        xs = sorted(xs, key=lambda z: z.uid)
        for a_i in range(len(xs)):
            for b_i in range(a_i + 1, len(xs)):
                pairs.append((j, xs[a_i], xs[b_i]))
    return mono_instances(pairs[:60])


def _bound_like(u):
    return frozenset(v_ for v_ in tm.free_vars(u) if v_.args[0].startswith('k#'))


BISECT_REPLAY = '''
from pfhedge._utils.bisect import bisect
import math, signal
fns = [lambda x: 2*x+1, torch.exp, lambda x: x**3, torch.tanh, lambda x: -x, lambda x: -torch.exp(x), lambda x: 3 - 2*x**3]
worst = 0.0
for f in fns:
    lo, up = T([-0.9, -0.5, 0.45]), T([0.2, 0.9, 0.55])      # per-element brackets of very different widths
    root = T([-0.3, 0.4, 0.5])
    tgt = f(root)
    out = bisect(f, tgt, lo, up, precision=1e-6, max_iter=200)
    worst = max(worst, float((out - root).abs().max()))
    root = T([-0.9, 0.9, 0.5])                                # targets at the ends of the range: F(lower) for one element, F(upper) for another
    out = bisect(f, f(root), lo, up, precision=1e-6, max_iter=200)
    worst = max(worst, float((out - root).abs().max()))
# cannot converge (precision below one ulp): must stop with RuntimeError, not loop
def _alarm(*a): raise TimeoutError("bisect did not stop")
signal.signal(signal.SIGALRM, _alarm); signal.alarm(20)
try:
    bisect(lambda x: x, T([0.3]), T([0.0]), T([1.0]), precision=1e-30, max_iter=80)
    stopped = "returned"
except RuntimeError:
    stopped = "RuntimeError"
except TimeoutError:
    stopped = "hang"
signal.alarm(0)
result = {"got": worst, "ref": 0.0, "stopped": stopped}
'''


def _replay_bisect():
    r = real_exec(BISECT_REPLAY, {})
    ok = r.get('ok') and r['result']['got'] <= 1.5e-6 and r['result'].get('stopped') == 'RuntimeError'
    return {'real': r, 'confirmed': not ok, 'note': 'replay = real bisect on 7 concrete monotone functions (4 increasing, 3 decreasing) x 3 elements (per-element brackets), targets inside and at both ends of the range'}


def direction_ob():
    """Decreasing F: the direction test is taken and the recursive call satisfies the increasing-case requires."""
    def check():
        t0 = time.time()
        import pfhedge._utils.bisect as bm
        calls = []

        def stub(fn, target, lower, upper, precision=None, max_iter=None):
            calls.append((fn, target, lower, upper, precision, max_iter))
            return upper
        cutfn, info = cutloops.cut(bm.bisect, {0: cutloops.LoopSpec(lambda s, s0: tm.TRUE, name='unused')}, stubs={'bisect': stub})
        el = lambda name, j: tm.sel(name, j)

        def run(c):
            fn, target, lower, upper = _inputs(True)
            # requires (decreasing case): lower<upper, F(lo) > F(up) for every element, F(up) <= target <= F(lo)
            c.assume(_forall_j(lambda j: tm.and_(tm.lt(el('lo0', j), el('up0', j)), tm.gt(F(j, el('lo0', j)), F(j, el('up0', j))),
                                                 tm.le(F(j, el('up0', j)), el('tg', j)), tm.le(el('tg', j), F(j, el('lo0', j))))))
            return cutfn(fn, target, lower, upper, precision=SReal(PREC), max_iter=SInt(MAXIT))
        hyps = [tm.ge(N, tm.IONE), tm.gt(PREC, tm.ZERO), tm.ge(MAXIT, tm.IZERO)]
        paths = explore(run, hyps, max_paths=16)
        outs = [p.outcome() + (':' + p.aborted.kind if p.aborted else '') for p in paths]
        sample = {'claim': 'decreasing F: recursive call with -F, -target satisfies the increasing-case precondition; recursion depth 1', 'paths': outs}
        rets = [p for p in paths if p.outcome() == 'returns']
        if len(calls) < 1 or len(rets) != 1 or len(paths) != 1:
            return Verdict('refuted', 'path-exploration', time.time() - t0, 'decreasing case does not take the recursive branch on every path: %s' % outs,
                           witness={'paths': outs}, sample=sample, replay=_replay_bisect())
        fn2, tgt2, lo2, up2, prec2, mi2 = calls[-1]
        p = rets[0]
        facts = p.facts(hyps)
        j = tm.var('dj', 'I')
        rng = [tm.le(tm.IZERO, j), tm.lt(j, N)]
        from pfv.torchlib.tensor import Tensor
        import torch
        probe_a, probe_b = tm.var('pa'), tm.var('pb')
        ga = fn2(Tensor.fresh(lambda idx: probe_a, (N,), torch.float64)).at((j,))
        gb = fn2(Tensor.fresh(lambda idx: probe_b, (N,), torch.float64)).at((j,))
        goals = [
            ('callee requires lower<upper', tm.lt(lo2.at((j,)), up2.at((j,)))),
            ('callee fn is -F (element-wise): G(j,a) = -F(j,a)', tm.and_(tm.eq(ga, tm.neg(F(j, probe_a))), tm.eq(gb, tm.neg(F(j, probe_b))))),
            ('callee target within range: G(lo) <= -target <= G(up)', tm.and_(tm.le(tm.neg(F(j, lo2.at((j,)))), tgt2.at((j,))), tm.le(tgt2.at((j,)), tm.neg(F(j, up2.at((j,))))))),
            ('same bracket, precision and max_iter are passed on', tm.and_(tm.eq(lo2.at((j,)), tm.sel('lo0', j)), tm.eq(up2.at((j,)), tm.sel('up0', j)),
                                                                         tm.eq(_lift(prec2), PREC), tm.eq(_lift(mi2), MAXIT))),
        ]
        for (label, g) in goals:
            r = smt.prove(facts + rng, g, timeout_ms=20000)
            if r.status != 'unsat':
                return Verdict('refuted' if r.status == 'sat' else 'unknown', r.backend, time.time() - t0, 'recursive call: `%s` fails' % label, witness={'vc': label}, sample=sample, replay=_replay_bisect())
        # decreases: the callee's function G = -F is not decreasing-everywhere, so the direction branch is not re-entered
        g_dec = tm.gt(tm.neg(F(j, tm.sel('lo0', j))), tm.neg(F(j, tm.sel('up0', j))))
        r = smt.prove(facts + rng, tm.not_(g_dec), timeout_ms=20000)
        if r.status != 'unsat':
            return Verdict('unknown', r.backend, time.time() - t0, 'recursion measure not established', sample=sample)
        return Verdict('proved', 'z3', time.time() - t0, 'recursive call meets the increasing-case contract; recursion depth 1', sample=sample)
    return Obligation('C19/bisect/direction[decreasing]', 'pre@callsite+decreases', 'pfhedge._utils.bisect.bisect', check, [PROP],
                      clause='for decreasing F the function recurses once with -F, -target, which satisfies the increasing-case requires')


def valueerror_ob():
    def check():
        t0 = time.time()
        import pfhedge._utils.bisect as bm
        import torch
        from pfv.torchlib.tensor import Tensor
        a, b = tm.var('lo'), tm.var('up')

        def run(c):
            fn = lambda z: z
            return bm.bisect(fn, Tensor.input('tg0', (), torch.float64), SReal(a), SReal(b))
        paths = explore(run, [tm.ge(a, b)], max_paths=8)
        outs = [p.outcome() for p in paths]
        if paths and all(o == 'raises:ValueError' for o in outs):
            return Verdict('proved', 'path-exploration+z3', time.time() - t0, '', sample={'claim': 'lower >= upper raises ValueError', 'paths': outs})
        return Verdict('refuted', 'path-exploration+z3', time.time() - t0, 'lower >= upper does not raise on every path: %s' % outs, witness={'paths': outs},
                       replay={'confirmed': False})
    return Obligation('C19/bisect/raises[lower>=upper]', 'raises', 'pfhedge._utils.bisect.bisect', check, [PROP], clause='ValueError when lower < upper fails')


IV_REPLAY = '''
import pfhedge.nn as pnn
bad = []
x = T([-0.1, 0.0, 0.08]); t = T([0.3, 0.5, 1.0]); sig = T([0.15, 0.25, 0.4])
cases = [("BSEuropeanOption", {}), ("BSEuropeanBinaryOption", {}), ("BSAmericanBinaryOption", {"max_log_moneyness": T([-0.05, 0.0, 0.08])}), ("BSLookbackOption", {"max_log_moneyness": T([0.02, 0.05, 0.09])})]
for (name, extra) in cases:
    for call in (True, False):
        for strike in (1.0, 2.5):
            try:
                m = getattr(pnn, name)(call=call, strike=strike)
                xs = [x] if name != "BSAmericanBinaryOption" else [T([-0.1, -0.05, -0.02])]      # a barrier product already hit has no volatility dependence
                if name == "BSEuropeanBinaryOption": xs = [T([-0.2, -0.3, -0.6]), T([0.03, 0.06, 0.1])]   # out of the money with |x| >= t/2: increasing on the whole bracket; in the money: decreasing in volatility
                for xx in xs:
                    ex = dict(extra)
                    if name == "BSAmericanBinaryOption": ex = {"max_log_moneyness": xx.clone()}
                    price = m.price(log_moneyness=xx, time_to_maturity=t, volatility=sig, **ex)
            except (ValueError, NotImplementedError, TypeError):
                continue                        # this option type does not support the flag
            for xx in xs:
                ex = dict(extra)
                if name == "BSAmericanBinaryOption": ex = {"max_log_moneyness": xx.clone()}
                price = m.price(log_moneyness=xx, time_to_maturity=t, volatility=sig, **ex)
                try:
                    iv = m.implied_volatility(log_moneyness=xx, time_to_maturity=t, price=price, precision=1e-9, **ex)
                except Exception as e:
                    bad.append((name, call, strike, type(e).__name__ + ": " + str(e)[:80])); continue
                if not torch.allclose(iv, sig, atol=1e-5): bad.append((name, call, strike, xx.tolist(), "implied " + str(iv.tolist()) + " generating " + str(sig.tolist())))
result = {"got": [str(b) for b in bad][:8], "ref": []}
'''


def _replay_iv():
    r = real_exec(IV_REPLAY, {}, timeout=300)
    ok = r.get('ok') and r['result']['got'] == []
    return {'real': r, 'confirmed': not ok, 'note': 'replay: implied_volatility(price(sigma)) == sigma on real torch for the four Black-Scholes modules, call/put where supported, strikes 1 and 2.5, binary option in and out of the money (price decreasing / increasing in volatility)'}


def iv_wiring_obs():
    """find_implied_volatility and the four implied_volatility methods hand bisect the right function,
    target, bracket, precision and iteration budget."""
    obs = []

    def fiv_check():
        t0 = time.time()
        import pfhedge._utils.bisect as bm
        import torch
        from pfv.torchlib.tensor import Tensor
        seen = {}

        def stub(fn, target, lower, upper, precision=None, max_iter=None):
            seen.update(fn=fn, target=target, lower=lower, upper=upper, precision=precision, max_iter=max_iter)
            return upper
        g = dict(bm.find_implied_volatility.__globals__)
        g['bisect'] = stub
        import types
        fiv = types.FunctionType(bm.find_implied_volatility.__code__, g, 'find_implied_volatility', bm.find_implied_volatility.__defaults__)
        fiv.__kwdefaults__ = bm.find_implied_volatility.__kwdefaults__
        price = tm.var('price')
        xx = tm.var('xx')

        def pricer(volatility, log_moneyness):
            rv, rx = volatility.reader(), log_moneyness.reader()
            return Tensor.fresh(lambda idx: tm.app('P', rv(idx), rx(idx)), volatility._shape, volatility.dtype)

        LO, UP, MI = tm.var('lower'), tm.var('upper'), tm.var('max_iter', 'I')

        def run(c):
            return fiv(pricer, Tensor.input('price', (), torch.float64), lower=SReal(LO), upper=SReal(UP), precision=SReal(PREC), max_iter=SInt(MI), log_moneyness=Tensor.input('xx', (), torch.float64))
        hy = [tm.gt(PREC, tm.ZERO), tm.lt(LO, UP), tm.ge(MI, tm.IZERO)]
        paths = explore(run, hy, max_paths=4)
        if len(paths) != 1 or paths[0].outcome() != 'returns' or not seen:
            return Verdict('unknown', 'engine', time.time() - t0, 'paths %s' % [(p.outcome(), p.traceback[-300:]) for p in paths])
        sig = tm.var('sig')
        val = seen['fn'](Tensor.fresh(lambda idx: sig, (), torch.float64)).at(())
        goals = [('fn(sigma) = pricer(volatility=sigma, **params)', tm.eq(val, tm.app('P', sig, xx))),
                 ('target = price', tm.eq(seen['target'].at(()), price)),
                 ('bracket = [lower, upper] as given', tm.and_(tm.eq(seen['lower'].at(()), LO), tm.eq(seen['upper'].at(()), UP))),
                 ('precision passed on', tm.eq(_lift(seen['precision']), PREC)),
                 ('max_iter passed on', tm.eq(tm.as_term(_lift(seen['max_iter'])), MI))]
        for (label, gg) in goals:
            r = smt.prove(paths[0].facts(hy), gg, timeout_ms=10000)
            if r.status != 'unsat':
                return Verdict('refuted' if r.status == 'sat' else 'unknown', r.backend, time.time() - t0, 'wiring `%s` fails' % label, witness={'vc': label}, replay=_replay_iv())
        if seen['lower'].dtype is not torch.float64 or seen['upper'].dtype is not torch.float64:
            return Verdict('refuted', 'structural', time.time() - t0, 'bracket dtype %s (price: float64)' % seen['lower'].dtype, witness={}, replay={'confirmed': False})
        # the defaults: the documented volatility range [0.001, 1] stays inside the default bracket, and the default iteration budget lets the
        # default precision be reached on it ((upper - lower) / 2^max_iter < precision: the convergence bound of the bisect loop contract)
        import inspect
        dflt = {k_: v_.default for k_, v_ in inspect.signature(bm.find_implied_volatility).parameters.items() if v_.default is not inspect.Parameter.empty}
        try:
            d_lo, d_up, d_pr, d_mi = float(dflt['lower']), float(dflt['upper']), float(dflt['precision']), int(dflt['max_iter'])
            ok_d = 0.0 < d_lo <= 0.001 and d_up >= 1.0 and d_pr > 0 and (d_up - d_lo) / 2.0 ** d_mi < d_pr
        except Exception:
            return Verdict('unknown', 'engine', time.time() - t0, 'defaults of find_implied_volatility not readable: %s' % dflt)
        if not ok_d:
            return Verdict('refuted', 'structural', time.time() - t0, 'defaults lower=%s upper=%s precision=%s max_iter=%s: the bracket must contain [0.001, 1] and (upper-lower)/2^max_iter < precision' % (d_lo, d_up, d_pr, d_mi), witness={'defaults': str(dflt)}, replay=_replay_iv())
        return Verdict('proved', 'z3', time.time() - t0, '', sample={'claim': 'find_implied_volatility wiring', 'goals': [g_[0] for g_ in goals], 'defaults': str(dflt)})
    obs.append(Obligation('C19/find_implied_volatility/wiring', 'post', 'pfhedge._utils.bisect.find_implied_volatility', fiv_check, [PROP],
                          clause='find_implied_volatility == bisect(sigma -> pricer(volatility=sigma, **params), price, lower, upper cast to price, precision, max_iter) for any given lower < upper, precision, max_iter; the default bracket contains the documented range [0.001, 1] and the default budget reaches the default precision on it'))

    def method_check(modname, clsname, with_m):
        def check():
            t0 = time.time()
            import importlib
            import torch
            from pfv.torchlib.tensor import Tensor
            mod = importlib.import_module('pfhedge.nn.modules.bs.' + modname)
            cls = getattr(mod, clsname)
            seen = {}

            def stub(pricer, price=None, **kw):
                seen.update(pricer=pricer, price=price, kw=kw)
                return price
            old = mod.find_implied_volatility
            mod.find_implied_volatility = stub
            try:
                def run(c):
                    mdl = cls(strike=SReal(tm.var('K')))
                    kw = dict(log_moneyness=Tensor.input('x', (), torch.float64), time_to_maturity=Tensor.input('t', (), torch.float64),
                              price=Tensor.input('price', (), torch.float64), precision=SReal(PREC))
                    ref_kw = dict(log_moneyness=kw['log_moneyness'], time_to_maturity=kw['time_to_maturity'])
                    if with_m:
                        kw['max_log_moneyness'] = ref_kw['max_log_moneyness'] = Tensor.input('m', (), torch.float64)
                    seen.clear()
                    mdl.implied_volatility(**kw)
                    if 'kw' not in seen:
                        return None
                    # what find_implied_volatility does with its arguments (its own wiring obligation): fn(sigma) = pricer(volatility=sigma, **params)
                    sig = Tensor.input('sig', (), torch.float64)
                    params = {k_: v_ for k_, v_ in seen['kw'].items() if k_ not in ('precision', 'max_iter')}
                    got = seen['pricer'](volatility=sig, **params)
                    ref = mdl.price(volatility=sig, **ref_kw)
                    return got, ref, seen['price'], seen['kw'].get('precision')
                hy = [tm.gt(PREC, tm.ZERO), tm.gt(tm.var('K'), tm.ZERO), tm.gt(tm.var('t'), tm.ZERO), tm.gt(tm.var('sig'), tm.ZERO)] + ([tm.ge(tm.var('m'), tm.var('x')), tm.ge(tm.var('m'), tm.ZERO)] if with_m and clsname == 'BSLookbackOption' else ([tm.ge(tm.var('m'), tm.var('x'))] if with_m else []))
                paths = explore(run, hy, max_paths=64)
            finally:
                mod.find_implied_volatility = old
            rets = [p for p in paths if p.outcome() == 'returns']
            if not rets or len(rets) != len(paths) or any(p.result is None for p in rets):
                return Verdict('unknown', 'engine', time.time() - t0, 'paths %s' % [(p.outcome(), p.traceback[-300:]) for p in paths][:3])
            nvc = 0
            for p in rets:
                got, ref, price_, prec_ = p.result
                facts = p.facts(hy)
                goals = [('the function handed to the search is this module\'s price at (log_moneyness%s, time_to_maturity, volatility = sigma)' % (', max_log_moneyness' if with_m else ''), 'eq', got.at(()), ref.at(())),
                         ('target = price', 'eq', price_.at(()), tm.var('price')),
                         ('precision passed on', 'eq', _lift(prec_) if prec_ is not None else tm.const(-1.0), PREC)]
                for (label, _, a_, b_) in goals:
                    r = fc.prove_eq(facts, a_, b_, timeout_ms=20000)
                    nvc += 1
                    if r.status != 'unsat':
                        rp = _replay_iv()
                        st = 'refuted' if (r.status == 'sat' or rp.get('confirmed')) else 'unknown'
                        return Verdict(st, r.backend, time.time() - t0, 'implied_volatility wiring: `%s` fails: %s vs %s' % (label, tm.show(a_)[:200], tm.show(b_)[:200]), witness={'vc': label}, replay=rp)
            return Verdict('proved', 'z3', time.time() - t0, '%d path(s), %d VCs' % (len(rets), nvc), sample={'claim': '%s.implied_volatility wiring (semantic: the price function handed over equals self.price)' % clsname})
        return Obligation('C19/%s.implied_volatility/wiring' % clsname, 'post', 'pfhedge.nn.modules.bs.%s.%s.implied_volatility' % (modname, clsname), check, [PROP],
                          clause='%s.implied_volatility searches sigma -> self.price(log_moneyness%s, time_to_maturity, sigma) for the target `price` with the requested precision' % (clsname, ', max_log_moneyness' if with_m else ''))
    obs.append(method_check('european', 'BSEuropeanOption', False))
    obs.append(method_check('european_binary', 'BSEuropeanBinaryOption', False))
    obs.append(method_check('american_binary', 'BSAmericanBinaryOption', True))
    obs.append(method_check('lookback', 'BSLookbackOption', True))
    return obs


def build(tier, seed):
    from pfv.torchlib import import_pfhedge
    import_pfhedge()
    obs = [bisect_loop_ob(), direction_ob(), valueerror_ob()] + iv_wiring_obs()
    return {'obligations': obs, 'functions': FUNCTIONS, 'assumptions': ASSUMPTIONS, 'level': 'proof',
            'trusted_base': ['pfv executor + torch shim', 'pfv/cutloops.py (mechanical loop cutting of the real bisect)', 'z3 UF+LRA with ground monotonicity instances'],
            'note': 'The while loop of the real bisect is cut by its invariant (AST rewrite printed in the evidence sample); fn is an uninterpreted element-wise monotone function, tensors have symbolic length.'}
