"""Executor / torch-shim conformance (guard against an unsound verifier, DESIGN 2.8-1).

The same snippet - calls of REAL pfhedge functions on concrete inputs - is run twice:
  (a) by the verifier's executor: real pfhedge from the tree under test over the torch CONTRACT SHIM, with the
      concrete inputs as constant tensors; the result terms are closed and evaluated exactly (rationals / mpmath);
  (b) by real torch under /venv/bin/python on the same tree.
Disagreement means that an assumed torch contract (or the executor) is wrong for an operation the functions
under contract actually use: the run is then ENGINE-UNSOUND (exit 3) - it is not a finding about pfhedge.
The obligations have kind `cover` (must hold; never counted as discharged obligations of the property).
"""
import random
import time

from pfv import terms as tm
from pfv import evalc
from pfv.framework import Obligation, Verdict, real_exec
from pfv.proxies import explore, Unsupported

TOL = 1e-7


def _flatten(x):
    from pfv.torchlib.tensor import Tensor
    if isinstance(x, Tensor):
        shape = []
        for d in x._shape:
            if not isinstance(d, int) or hasattr(d, '_term'):
                d = int(evalc.evaluate(tm.as_term(d), {}))
            shape.append(d)
        out = []

        def rec(prefix, k):
            if k == len(shape):
                v = evalc.evaluate(x.at(tuple(tm.const(i, 'I') for i in prefix)), {})
                out.append(float(v) if not isinstance(v, bool) else v)
                return
            for i in range(shape[k]):
                rec(prefix + [i], k + 1)
        rec([], 0)
        return out if shape else out[0]
    if isinstance(x, (list, tuple)):
        return [_flatten(v) for v in x]
    if isinstance(x, dict):
        return {k: _flatten(v) for k, v in x.items()}
    if hasattr(x, '_term'):
        v = evalc.evaluate(x._term, {})
        return float(v) if not isinstance(v, bool) else v
    return x


def shim_exec(snippet, W):
    import torch      # the shim (installed by import_pfhedge)
    import pfhedge

    def T(x, dtype=torch.float64):
        return torch.tensor(x, dtype=dtype)
    holder = {}

    def run(c):
        env = {'torch': torch, 'pfhedge': pfhedge, 'T': T, 'W': W, 'result': None}
        exec(compile(snippet, '<conformance>', 'exec'), env)
        holder['r'] = env['result']
        return env['result']
    paths = explore(run, [], max_paths=8)
    rets = [p for p in paths if p.outcome() == 'returns']
    if len(rets) != 1 or len(paths) != 1:
        raise Unsupported('conformance snippet has %d paths: %s' % (len(paths), [(p.outcome(), str(p.exception)[:200], (p.traceback or '')[-300:]) for p in paths]))
    return _flatten(rets[0].result)


def _close(a, b):
    if isinstance(a, (list, tuple)) or isinstance(b, (list, tuple)):
        if not isinstance(a, (list, tuple)) or not isinstance(b, (list, tuple)) or len(a) != len(b):
            return False
        return all(_close(x, y) for x, y in zip(a, b))
    if isinstance(a, dict) or isinstance(b, dict):
        return isinstance(a, dict) and isinstance(b, dict) and a.keys() == b.keys() and all(_close(a[k], b[k]) for k in a)
    if isinstance(a, str) or isinstance(b, str):
        return a == b
    if isinstance(a, bool) or isinstance(b, bool):
        return bool(a) == bool(b)
    try:
        return abs(float(a) - float(b)) <= TOL * max(1.0, abs(float(a)), abs(float(b)))
    except Exception:
        return False


def _inputs(seed):
    rnd = random.Random(seed)
    g = lambda lo, hi: rnd.uniform(lo, hi)
    N, H, Tn = 3, 2, 5
    spot = [[[1.0 + 0.3 * g(-1, 1) for _ in range(Tn)] for _ in range(H)] for _ in range(N)]
    path = [[1.0] + [1.0 + 0.25 * g(-1, 1) for _ in range(Tn - 1)] for _ in range(N)]
    return {
        'spot3': spot, 'unit3': [[[g(-1, 1) for _ in range(Tn)] for _ in range(H)] for _ in range(N)], 'payoff': [g(0, 0.3) for _ in range(N)],
        'cost': [0.001, 0.02], 'path': path, 'var': [[0.04 + 0.02 * g(0, 1) for _ in range(Tn)] for _ in range(N)],
        'X': [[g(-1, 1), g(-2, 2)] for _ in range(6)], 'Xties': [[0.0, 1.0], [0.0, -1.0], [1.0, 1.0], [0.0, 1.0], [-1.0, -1.0], [1.0, 0.5]],
        'Xpos': [[g(0.2, 2), g(0.2, 3)] for _ in range(6)],
        's': [g(-0.4, 0.4) for _ in range(4)], 't': [g(0.05, 1.5) for _ in range(4)], 'v': [g(0.05, 0.6) for _ in range(4)],
        'm': [g(0.0, 0.3) for _ in range(4)], 'z': [[g(-1.5, 1.5) for _ in range(Tn)] for _ in range(N)],
        'a': g(0.5, 2.0), 'p': rnd.choice([0.1, 0.3, 0.5, 0.8]), 'K': g(0.8, 1.3),
    }


CASES = {
    'C01': ['''
import pfhedge.nn.functional as F
result = [F.pl(T(W["spot3"]), T(W["unit3"]), cost=W["cost"], payoff=T(W["payoff"])), F.pl(T(W["spot3"]), T(W["unit3"]), deduct_first_cost=False),
          F.terminal_value(T(W["spot3"]), T(W["unit3"]), cost=W["cost"], payoff=T(W["payoff"]))]
''', '''
import pfhedge.nn as pnn
from pfhedge.instruments import BrownianStock, EuropeanOption
und = BrownianStock(sigma=0.3, dt=0.05, cost=0.002, dtype=torch.float64); und.register_buffer("spot", T(W["path"]))
d = EuropeanOption(und, strike=W["K"], maturity=0.2)
m = pnn.BlackScholes(d); h = pnn.Hedger(m, m.inputs())
result = [h.compute_hedge(d), h.compute_pl(d), h.compute_portfolio(d)]
'''],
    'C02': ['''
from pfhedge.features import get_feature
from pfhedge.instruments import HestonStock, EuropeanOption, LookbackOption
und = HestonStock(dt=0.05, dtype=torch.float64); und.register_buffer("spot", T(W["path"])); und.register_buffer("variance", T(W["var"]))
d = LookbackOption(und, strike=W["K"], maturity=0.2)
names = ["moneyness", "log_moneyness", "max_moneyness", "max_log_moneyness", "time_to_maturity", "volatility", "variance", "underlier_spot", "zeros"]
result = [[get_feature(n).of(d).get(None), get_feature(n).of(d).get(2)] for n in names]
''', '''
import pfhedge.nn as pnn
from pfhedge.instruments import BrownianStock, EuropeanOption
und = BrownianStock(sigma=0.3, dt=0.05, cost=0.002, dtype=torch.float64); und.register_buffer("spot", T(W["path"]))
d = EuropeanOption(und, strike=W["K"], maturity=0.2)
m = pnn.WhalleyWilmott(d); h = pnn.Hedger(m, m.inputs())
result = h.compute_hedge(d)
'''],
    'C05': ['''
import pfhedge.nn.functional as F
import pfhedge.nn as pnn
X, Xt, Xp, a, p = T(W["X"]), T(W["Xties"]), T(W["Xpos"]), W["a"], W["p"]
result = [F.entropic_risk_measure(X, a=a), F.expected_shortfall(X, p, dim=0), F.expected_shortfall(Xt, p, dim=0), F.value_at_risk(Xt, 0.5, dim=0), F.exp_utility(X, a=a),
          F.isoelastic_utility(Xp, 0.5), F.isoelastic_utility(Xp, 1.0), F.topp(Xt, 0.5, dim=0).values, pnn.EntropicRiskMeasure(a)(X, T(0.1)), pnn.ExpectedShortfall(p)(X, T(0.1)),
          pnn.EntropicLoss(a)(X), pnn.IsoelasticLoss(0.5)(Xp), pnn.EntropicRiskMeasure(a).cash(X), pnn.ExpectedShortfall(p).cash(X), pnn.EntropicLoss(a).cash(X)]
'''],
    'C07': ['''
import pfhedge.nn.functional as F
s, t, v, m, K = T(W["s"]), T(W["t"]), T(W["v"]), T(W["m"]), W["K"]
mm = torch.maximum(s, torch.zeros_like(s)) + m
out = []
for call in (True, False):
    out += [F.bs_european_price(s, t, v, strike=K, call=call), F.bs_european_delta(s, t, v, call=call), F.bs_european_theta(s, t, v, strike=K), F.bs_european_binary_price(s, t, v, call=call),
            F.bs_european_binary_delta(s, t, v, call=call, strike=K)]
out += [F.bs_european_gamma(s, t, v, strike=K), F.bs_european_vega(s, t, v, strike=K), F.bs_european_binary_gamma(s, t, v, strike=K), F.bs_european_binary_vega(s, t, v, strike=K),
        F.bs_european_binary_theta(s, t, v, strike=K), F.bs_american_binary_price(s, mm, t, v), F.bs_american_binary_delta(s, mm, t, v, strike=K), F.bs_american_binary_gamma(s, mm, t, v, strike=K),
        F.bs_american_binary_vega(s, mm, t, v, strike=K), F.bs_american_binary_theta(s, mm, t, v, strike=K), F.bs_lookback_price(s, mm, t, v, strike=K), F.d1(s, t, v), F.d2(s, t, v), F.ncdf(s), F.npdf(s)]
result = out
'''],
    'C12': ['''
from pfhedge.instruments import BrownianStock, EuropeanOption, LookbackOption, AmericanBinaryOption, EuropeanBinaryOption, VarianceSwap, EuropeanForwardStartOption
und = BrownianStock(sigma=0.3, dt=0.05, dtype=torch.float64); und.register_buffer("spot", T(W["path"]))
K = W["K"]
result = [EuropeanOption(und, strike=K, maturity=0.2).payoff(), EuropeanOption(und, call=False, strike=K, maturity=0.2).payoff(), LookbackOption(und, strike=K, maturity=0.2).payoff(),
          LookbackOption(und, call=False, strike=K, maturity=0.2).payoff(), AmericanBinaryOption(und, strike=K, maturity=0.2).payoff(), AmericanBinaryOption(und, call=False, strike=K, maturity=0.2).payoff(),
          EuropeanBinaryOption(und, strike=K, maturity=0.2).payoff(), VarianceSwap(und, strike=0.04, maturity=0.2).payoff(), EuropeanForwardStartOption(und, strike=1.0, maturity=0.2, start=0.1).payoff(),
          EuropeanOption(und, strike=K, maturity=0.2).moneyness(), EuropeanOption(und, strike=K, maturity=0.2).time_to_maturity(), LookbackOption(und, strike=K, maturity=0.2).max_log_moneyness()]
'''],
    'C19': ['''
from pfhedge._utils.bisect import bisect
fn = lambda x: x * x * x + x
result = [bisect(fn, T([0.5, 2.0, -1.0]), T([-2.0, -2.0, -2.0]), T([2.0, 2.0, 2.0]), precision=1e-4), bisect(lambda x: -x, T([0.25]), T([-1.0]), T([1.0]), precision=1e-3)]
'''],
    'C20': ['''
import pfhedge.nn.functional as F
x = T(W["s"]) * 3.0
lo, hi = T([-0.5, 0.2, 0.1, -1.0]), T([0.5, 0.1, 0.1, 1.0])
out = [F.leaky_clamp(x, lo, hi, clamped_slope=0.1), F.leaky_clamp(x, lo, hi, clamped_slope=0.3, inverted_output="max"), F.clamp(x, lo, hi), F.clamp(x, lo, hi, inverted_output="max"), F.clamp(x, min=lo), F.clamp(x, max=hi),
       F.ww_width(T(W["s"]), T(W["v"]) + 1.0, W["cost"][1], a=1.3), F.svi_variance(T(W["s"]), 0.02, 0.1, -0.4, 0.1, 0.2), F.realized_variance(T(W["path"]), 0.05), F.realized_volatility(T(W["path"]), 0.05),
       F.leaky_relu(x, 0.2) if hasattr(F, "leaky_relu") else x]
result = out
'''],
    'C10': ['''
import pfhedge.stochastic as ps
eng = lambda *size, **kw: T(W["z"]).to(kw.get("dtype") or torch.float64)
result = [ps.generate_brownian(3, 5, init_state=(0.1,), sigma=0.3, mu=0.05, dt=0.02, dtype=torch.float64, engine=eng),
          ps.generate_geometric_brownian(3, 5, init_state=(1.2,), sigma=0.3, mu=0.05, dt=0.02, dtype=torch.float64, engine=eng)]
'''],
}
CASES['C03'] = CASES['C02']
CASES['C16'] = CASES['C02']
CASES['C08'] = CASES['C07']
CASES['C09'] = CASES['C07']
CASES['C18'] = CASES['C07']
CASES['C04'] = CASES['C05']
CASES['C06'] = CASES['C05']
CASES['C11'] = CASES['C10']
CASES['C13'] = CASES['C12']


def conformance_ob(prop, seed=0):
    snippets = CASES.get(prop)
    if not snippets:
        return None

    def check():
        t0 = time.time()
        n = 0
        for k, snip in enumerate(snippets):
            for sd in (seed, seed + 1):
                W = _inputs(sd * 7 + k)
                try:
                    got = shim_exec(snip, W)
                except Unsupported as e:
                    return Verdict('unknown', 'engine', time.time() - t0, 'conformance snippet %d outside the executor: %s' % (k, str(e)[:500]))
                except Exception as e:
                    import traceback
                    return Verdict('unknown', 'engine', time.time() - t0, 'conformance snippet %d: executor raised %s: %s' % (k, type(e).__name__, traceback.format_exc()[-600:]))
                r = real_exec(snip, W, timeout=600)
                if not r.get('ok'):
                    return Verdict('unknown', 'engine', time.time() - t0, 'conformance snippet %d: real code raised: %s' % (k, str(r)[:500]))
                ref = r['result']
                if not _close(got, ref):
                    return Verdict('refuted', 'executor vs real torch', time.time() - t0, 'snippet %d (seed %d): executor %s vs real torch %s' % (k, sd, str(got)[:400], str(ref)[:400]),
                                   witness={'snippet': k, 'seed': sd}, replay={'real': r, 'confirmed': True})
                n += len(str(ref).split(','))
        return Verdict('proved', 'executor (shim, exact evaluation) == real torch', time.time() - t0, '%d snippet(s) x 2 input sets, ~%d values compared' % (len(snippets), n),
                       sample={'claim': 'the executor and real torch agree on the functions under contract at concrete points', 'values': n})
    return Obligation('ENG/conformance[%s]' % prop, 'cover', 'pfv executor + torch shim', check, [prop],
                      clause='COVER (engine guard): real pfhedge functions run by the verifier\'s executor over the torch contract shim give the same values as under real torch (concrete inputs, exact evaluation, tolerance 1e-7)')
