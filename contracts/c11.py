"""C11 - simulated buffers are well-formed for every generator and instrument."""
from contracts import generators as G
from contracts import instruments as ins

PROP = 'C11'


def build(tier, seed):
    from pfv.torchlib import import_pfhedge
    import_pfhedge()
    obs = G.c11_obligations(seed, tier) + [ins.simulate_wiring_ob(c) for c in ins.PRIMARIES] + [ins.derived_series_ob()]
    return {'obligations': obs, 'functions': G.FUNCTIONS + [f for f in ins.FUNCTIONS if 'simulate' in f or 'default_init_state' in f],
            'assumptions': [
                'A3 random sources: randn/engine i.i.d. N(0,1), rand_like in [0, 1 - 2^-24] (a float uniform generator never returns 1), Poisson counts >= 0, as named symbolic inputs',
                'A1 reals for floats: "all finite" is decided as definedness of every sqrt/log/division on the SELECTED branch (guard-aware, terms.partial_ops) plus sign invariants; overflow to inf and underflow to 0 in floats are outside (only the bounded battery sees them)',
                'loops of CIR / Vasicek / Heston / local volatility are cut mechanically by invariants with index-wise lemma chains (proved at a fresh path index, then assumed for all); Heston uses the contract of generate_cir at its call site (proved separately)',
                'generate_kou_jump (boolean-mask assignment + prod over the jump axis) is executed symbolically with a symbolic jump-count bound (LAW/kou_jump/post+moments: shape, first column, positivity as exp of a real); BOUNDED: generate_rough_bergomi (conv1d, MultivariateNormal) is outside the executor: checked on a fixed battery of real runs together with Kou, labelled bounded, not counted as discharged',
                'known finding D11: generate_rough_bergomi(n_steps=1) raises RuntimeError (torch.arange(2, 1)): its own bounded obligation; the battery runs rough Bergomi for n_steps >= 2',
                'simulate() of the eight primaries: buffers are exactly the generator outputs, all of shape (n_paths, ceil(h/dt)+1), replacing the previous ones (wiring obligations shared with C13)',
            ],
            'level': 'proof', 'trusted_base': ['pfv executor + torch shim', 'pfv/cutloops.py', 'z3 NRA+UF with exp/log/sqrt axioms'],
            'bounded_note': 'Kou and rough Bergomi: battery of 3 shapes x 2 dtypes with non-default initial states on real torch',
            'note': 'generators run from /repo with symbolic n_paths, n_steps and parameters.'}
