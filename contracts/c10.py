"""C10 - simulated paths follow the law of the model they are named after."""
from contracts import generators as G

PROP = 'C10'


def build(tier, seed):
    from pfv.torchlib import import_pfhedge
    import_pfhedge()
    obs = G.c10_obligations(seed, tier)
    return {'obligations': obs, 'functions': G.FUNCTIONS,
            'assumptions': [
                'A3 random-source contracts: engine/randn i.i.d. N(0,1), rand_like U(0,1), Poisson(rate) counts, Exponential(rate), independent of each other; the laws R1-R4 in contracts/generators.py (normal moments/MGF, compound-Poisson MGF, exponential MGFs) are classical facts, assumed',
                '(a) exact path-wise statements (Brownian, geometric Brownian, Merton and Kou at zero intensity, Vasicek/local-vol/Heston steps) are identities of the terms produced by running the real generators on symbolic (n_paths, n_steps) inputs - for all sizes',
                '(b) moment identities are derived from those terms by the moment calculus and discharged by z3 / sympy: GBM mean and log-variance, Merton mean and log-variance, Kou mean with the compensator checked against the SAMPLED jump law, CIR QE one-step mean and variance on both branches, Vasicek one-step mean/variance around theta from any start, local-vol martingale step (affine in a zero-mean normal)',
                'multi-step means/variances follow from the one-step conditional moments by the tower property (affine conditional moments => closed-form mean reversion): trusted induction, not mechanised',
                'Heston: each log-spot step is proved equal to the trapezoid discretisation of the exact representation d log S = -v/2 dt + (rho/sigma)(dv - kappa(theta - v)dt) + sqrt(1-rho^2) sqrt(v) dW_perp, so the return loads on the variance move with rho/sigma (sign and size of the coupling) and the orthogonal noise has conditional variance (1-rho^2) dt (v+v\')/2; the variance is the CIR process of the caller\'s parameters and time grid (callee contract)',
                'NOT decided by this technique (stated, not approximated): the martingale property of the DISCRETISED Heston spot (Andersen\'s scheme is not exactly martingale) and the sample correlation as a number, rough-Bergomi forward variance beyond the bounded Monte-Carlo stand-in, antithetic/Sobol engines\' marginal laws',
            ],
            'level': 'proof', 'trusted_base': ['pfv executor + torch shim', 'moment calculus rules R1-R4', 'sympy (polynomial moments, integration over U)', 'z3 NRA'],
            'bounded_note': 'rough-Bergomi forward variance: seeded Monte Carlo on real torch (4e4 paths, horizons 0.5y and 1y)',
            'note': 'laws derived from the path-wise terms of the real generators.'}
