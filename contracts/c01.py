"""C01 - hedging P&L is the self-financing wealth identity.

pl(spot, unit, cost, payoff, deduct_first_cost)         spot, unit: (N, H, T); payoff: (N,) | None; cost: H rates | None
  requires  N >= 1, H >= 1, T >= 2
  ensures   result[n] = - Z[n]
                        + sum_h sum_{t<T-1} unit[n,h,t] (spot[n,h,t+1] - spot[n,h,t])
                        - sum_h sum_{t<T-1} c[h] |unit[n,h,t+1] - unit[n,h,t]| spot[n,h,t+1]
                        - [first] sum_h c[h] |unit[n,h,0]| spot[n,h,0]                       (all N, H, T)
  raises    RuntimeError iff unit's shape differs from spot's, or payoff is not 1-D of length N
  frame     modifies nothing (C16);   shape (N,)
terminal_value == pl;  Hedger.compute_pl / compute_portfolio == pl(stack of hedge spots, compute_hedge, hedge costs, payoff | None)
"""
from pfv import terms as tm
from pfv import fc
from pfv.proxies import SReal, SInt

PROP = 'C01'
FUNCTIONS = ['pfhedge.nn.functional.pl', 'pfhedge.nn.functional.terminal_value',
             'pfhedge.nn.modules.hedger.Hedger.compute_pl', 'pfhedge.nn.modules.hedger.Hedger.compute_portfolio',
             'pfhedge.nn.modules.hedger.Hedger._get_hedge']
ASSUMPTIONS = [
    'A1 reals for floats (float32/float64 rounding of the sums is not modelled)',
    'A3 torch contracts: slicing/list indexing, diff, abs, mul, sum over dims, unsqueeze, in-place -= on a fresh tensor, torch.tensor(list).to(spot), torch.stack',
    'pl is verified for all N, H, T (symbolic); the hedger wiring (compute_pl / compute_portfolio) for all N, T and H enumerated in {1, 2, 3} (the hedge list is a concrete Python list), once with the real compute_hedge (all-at-once branch, all T; step-by-step T = 3) and once modularly against the CONTRACT of compute_hedge - an arbitrary (N, H, T) tensor, the shape being proved for both branches and every T by the HS/compute_hedge obligations of C02',
    'a listed derivative used as hedge: its pricer is a pure deterministic function of the instrument state (it is called once per use of .spot)',
]
N, H, T = tm.var('N', 'I'), tm.var('H', 'I'), tm.var('T', 'I')
DIMS = [tm.ge(N, tm.IONE), tm.ge(H, tm.IONE), tm.ge(T, tm.const(2, 'I'))]


class SymCostList(list):
    """A list of H symbolic cost rates for symbolic H: torch.tensor(...) turns it into the (H,) tensor c."""
    def __init__(self, name, n):
        super().__init__()
        self.name, self.n = name, n

    def _as_tensor(self):
        import torch
        from pfv.torchlib.tensor import Tensor
        return Tensor.input(self.name, (self.n,), torch.float64)


def PL(S, U, Z, c, first, n, ctx):
    """The property statement as a Sigma-term; S, U, Z, c: index -> T."""
    h, t_ = ctx.fresh('h', 'I'), ctx.fresh('t', 'I')
    gain = tm.tsum(h, tm.IZERO, H, tm.tsum(t_, tm.IZERO, tm.sub(T, tm.IONE),
                                             tm.mul(U(n, h, t_), tm.sub(S(n, h, tm.add(t_, tm.IONE)), S(n, h, t_)))))
    out = gain
    if Z is not None:
        out = tm.sub(out, Z(n))
    if c is not None:
        h2, t2 = ctx.fresh('h', 'I'), ctx.fresh('t', 'I')
        trade = tm.tsum(h2, tm.IZERO, H, tm.tsum(t2, tm.IZERO, tm.sub(T, tm.IONE),
                                                   tm.mul(c(h2), tm.tabs(tm.sub(U(n, h2, tm.add(t2, tm.IONE)), U(n, h2, t2))), S(n, h2, tm.add(t2, tm.IONE)))))
        out = tm.sub(out, trade)
        if first:
            h3 = ctx.fresh('h', 'I')
            out = tm.sub(out, tm.tsum(h3, tm.IZERO, H, tm.mul(c(h3), tm.tabs(U(n, h3, tm.IZERO)), S(n, h3, tm.IZERO))))
    return out


REAL_PL = '''
import pfhedge.nn.functional as F
S=T(W["S"]); U=T(W["U"])
Z=T(W["Z"]) if W.get("has_payoff") else None
c=list(W["c"]) if W.get("has_cost") else None
kw={} if W.get("first") is None else {"deduct_first_cost": W["first"]}
got=%s(S,U,cost=c,payoff=Z,**kw)
first = True if W.get("first") is None else W["first"]
ref=[]
for n in range(len(W["S"])):
    v=-(W["Z"][n] if Z is not None else 0.0)
    for h in range(len(W["S"][n])):
        s=W["S"][n][h]; u=W["U"][n][h]
        for t in range(len(s)-1):
            v+=u[t]*(s[t+1]-s[t])
            if c is not None: v-=c[h]*abs(u[t+1]-u[t])*s[t+1]
        if c is not None and first: v-=c[h]*abs(u[0])*s[0]
    ref.append(v)
result={"got": got, "ref": ref}
'''


def pl_case(has_cost, has_payoff, first, fname='pl'):
    def build():
        import torch
        import pfhedge.nn.functional as F
        from pfv.torchlib.tensor import Tensor
        fn = getattr(F, fname)

        def run(c_):
            spot = Tensor.input('S', (N, H, T), torch.float64)
            unit = Tensor.input('U', (N, H, T), torch.float64)
            kw = {}
            if has_cost:
                kw['cost'] = SymCostList('c', H)
            if has_payoff:
                kw['payoff'] = Tensor.input('Z', (N,), torch.float64)
            if first is not None:
                kw['deduct_first_cost'] = first
            return fn(spot, unit, **kw)

        def ens(res, p):
            n = p.ctx.fresh('n', 'I')
            spec = PL(lambda a, b, c__: tm.sel('S', a, b, c__), lambda a, b, c__: tm.sel('U', a, b, c__),
                      (lambda a: tm.sel('Z', a)) if has_payoff else None, (lambda a: tm.sel('c', a)) if has_cost else None,
                      True if first is None else first, n, p.ctx)
            return [('result[n] == PL(n)', [tm.le(tm.IZERO, n), tm.lt(n, N)], res.at((n,)), spec)]
        snippet = REAL_PL % ('F.' + fname)
        w0 = {'has_cost': has_cost, 'has_payoff': has_payoff, 'first': first}
        case = fc.Case(run, hyps=DIMS, ensures=ens, shape=lambda res: (N,), scalars=[], tensors={'S': ((N, H, T), 'R'), 'U': ((N, H, T), 'R'), 'Z': ((N,), 'R'), 'c': ((H,), 'R')},
                       real_snippet=snippet, dtype=torch.float64)
        case.witness_extra = w0
        return case
    return build


PL_BATTERY = '''
import pfhedge.nn.functional as F
g = torch.Generator().manual_seed(int(W.get("seed", 0)))
bad = []
def ref(spot, unit, cost, payoff, first):
    N_, H_, T_ = spot.shape
    out = []
    for n in range(N_):
        acc = 0.0 if payoff is None else -float(payoff[n])
        for h in range(H_):
            c = 0.0 if cost is None else cost[h]
            s, u = spot[n, h].tolist(), unit[n, h].tolist()
            for t in range(T_ - 1):
                acc += u[t] * (s[t + 1] - s[t]) - c * abs(u[t + 1] - u[t]) * s[t + 1]
            if first: acc -= c * abs(u[0]) * s[0]
        out.append(acc)
    return out
for dtype in (torch.float64, torch.float32):
    for (N_, H_, T_) in ((1, 1, 2), (2, 3, 21), (3, 1, 257), (2, 2, 258), (2, 1, 300), (1, 4, 513), (2, 1, 777), (1, 2, 1030)):
        spot = (torch.rand(N_, H_, T_, generator=g, dtype=torch.float64) + 0.5).to(dtype)
        unit = (torch.randn(N_, H_, T_, generator=g, dtype=torch.float64)).to(dtype)
        payoff = torch.randn(N_, generator=g, dtype=torch.float64).to(dtype)
        for cost in (None, [0.0] * H_, [2.0 ** -10 * (k + 1) for k in range(H_)]):
            for pay in (None, payoff):
                for first in (True, False):
                    for fn in ("pl", "terminal_value"):
                        got = getattr(F, fn)(spot, unit, cost=cost, payoff=pay, deduct_first_cost=first)
                        want = ref(spot.to(torch.float64), unit.to(torch.float64), cost, None if pay is None else pay.to(torch.float64), first)
                        tol = (1e-9 if dtype == torch.float64 else 2e-3) * max(1.0, max(abs(w_) for w_ in want))
                        if tuple(got.shape) != (N_,) or got.dtype != dtype or any(abs(float(a_) - b_) > tol for a_, b_ in zip(got, want)):
                            bad.append((fn, str(dtype)[6:], "N,H,T=%s" % ((N_, H_, T_),), "cost=%s" % (None if cost is None else "rates"), "payoff=%s" % (pay is not None), "first=%s" % first,
                                        "max error %.3g" % max(abs(float(a_) - b_) for a_, b_ in zip(got, want))))
result = {"got": [str(b) for b in bad][:8], "ref": []}
'''


def battery_ob(tier, seed):
    """bounded stand-in next to the symbolic proof: real torch against a plain Python loop on LONG horizons (up to 1030 steps) - the route that
    still decides when a change puts pl out of the executor's reach (e.g. a new loop over blocks of time steps)"""
    import time
    from pfv.framework import Obligation, Verdict, real_exec

    def check():
        t0 = time.time()
        r = real_exec(PL_BATTERY, {'seed': seed}, timeout=1200)
        if not r.get('ok'):
            real_raise = r.get('exception') not in (None, 'NoResult', 'Timeout') and '/pfhedge/' in (r.get('traceback') or '')
            return Verdict('refuted' if real_raise else 'unknown', 'bounded: real torch battery', time.time() - t0, 'the battery raised: %s' % str(r)[:300], witness={'exception': r.get('exception')}, replay={'real': r, 'confirmed': real_raise})
        got = r['result']['got']
        if got:
            return Verdict('refuted', 'bounded: real torch battery', time.time() - t0, '%d case(s) differ from the wealth identity, first: %s' % (len(got), got[0][:300]), witness={'instance': got[0]}, replay={'real': r, 'confirmed': True})
        return Verdict('proved', 'bounded: real torch battery', time.time() - t0, 'equal on the battery', sample={'claim': 'BOUNDED: pl / terminal_value vs a Python loop on real torch'})
    return Obligation('C01/pl/long-horizon-battery[bounded]', 'post', 'pfhedge.nn.functional.pl', check, [PROP], bounded=True,
                      clause='BOUNDED: pl and terminal_value equal the wealth identity computed by a plain Python loop on real torch for (N,H,T) up to (2,4,1030) - horizons 2, 21, 257, 258, 300, 513, 777, 1030 - float32/float64, cost None / zeros / positive, payoff or not, both first-cost flags')


def build(tier, seed):
    from pfv.torchlib import import_pfhedge
    import_pfhedge()
    obs = []
    for has_cost in (False, True):
        for has_payoff in (False, True):
            for first in ((None, True, False) if has_cost else (None,)):
                tag = 'cost=%s,payoff=%s,first=%s' % (has_cost, has_payoff, 'default' if first is None else first)
                obs.append(fc.contract_ob('C01/pl/post[%s]' % tag, 'pfhedge.nn.functional.pl', [PROP], pl_case(has_cost, has_payoff, first),
                                          'pl == wealth identity for all N, H, T [%s]' % tag))
    obs.append(fc.contract_ob('C01/terminal_value/post', 'pfhedge.nn.functional.terminal_value', [PROP], pl_case(True, True, False, 'terminal_value'),
                              'terminal_value == pl (same five arguments)'))
    obs.append(fc.contract_ob('C01/pl/raises[shape]', 'pfhedge.nn.functional.pl', [PROP], raises_case('unit'), 'RuntimeError iff unit.size() != spot.size()', kind='raises'))
    obs.append(fc.contract_ob('C01/pl/raises[payoff]', 'pfhedge.nn.functional.pl', [PROP], raises_case('payoff'), 'RuntimeError iff payoff is not of shape (N,)', kind='raises'))
    obs.append(fc.contract_ob('C01/canary/cost-at-old-price', '', [PROP], canary_case(), 'CANARY (must be refuted): cost charged at the price before the trade', kind='canary'))
    obs.append(battery_ob(tier, seed))
    try:
        from contracts import hedging
        obs.extend(hedging.c01_obligations(seed))
    except ImportError:
        pass
    return {'obligations': obs, 'functions': FUNCTIONS, 'assumptions': ASSUMPTIONS, 'level': 'proof',
            'trusted_base': ['pfv executor + torch shim', 'Sigma-normaliser (linearity, range grouping, point-wise reduction)', 'z3 QF_NRA+UF'],
            'bounded_note': 'C01/pl/long-horizon-battery[bounded]: finite battery on real torch against a Python loop (never counted as discharged)',
            'note': 'pl runs from /repo on (N,H,T) tensors with symbolic N, H, T; the equality with the Sigma-term of the property is reduced to point-wise obligations in a fresh (n,h,t).'}


def raises_case(which):
    def build():
        import torch
        import pfhedge.nn.functional as F
        from pfv.torchlib.tensor import Tensor
        N2 = tm.var('N2', 'I')

        def run(c_):
            spot = Tensor.input('S', (N, H, T), torch.float64)
            if which == 'unit':
                return F.pl(spot, Tensor.input('U', (N2, H, T), torch.float64))
            return F.pl(spot, Tensor.input('U', (N, H, T), torch.float64), payoff=Tensor.input('Z', (N2,), torch.float64))
        return fc.Case(run, hyps=DIMS + [tm.ge(N2, tm.IONE)], raises={'RuntimeError': tm.ne(N2, N)}, max_paths=16)
    return build


def canary_case():
    def build():
        case = pl_case(True, False, True)()
        old = case.ensures

        def ens(res, p):
            n = p.ctx.fresh('n', 'I')
            S = lambda a, b, c__: tm.sel('S', a, b, c__)
            U = lambda a, b, c__: tm.sel('U', a, b, c__)
            h, t_ = p.ctx.fresh('h', 'I'), p.ctx.fresh('t', 'I')
            good = PL(S, U, None, None, True, n, p.ctx)
            h2, t2 = p.ctx.fresh('h', 'I'), p.ctx.fresh('t', 'I')
            trade = tm.tsum(h2, tm.IZERO, H, tm.tsum(t2, tm.IZERO, tm.sub(T, tm.IONE),
                                                       tm.mul(tm.sel('c', h2), tm.tabs(tm.sub(U(n, h2, tm.add(t2, tm.IONE)), U(n, h2, t2))), S(n, h2, t2))))
            h3 = p.ctx.fresh('h', 'I')
            firstc = tm.tsum(h3, tm.IZERO, H, tm.mul(tm.sel('c', h3), tm.tabs(U(n, h3, tm.IZERO)), S(n, h3, tm.IZERO)))
            return [('wrong', [tm.le(tm.IZERO, n), tm.lt(n, N)], res.at((n,)), tm.sub(tm.sub(good, trade), firstc))]
        case.ensures = ens
        return case
    return build
