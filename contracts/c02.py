"""C02 - hedges are non-anticipative and never trade at maturity.

Decided as a `reads` frame condition: every access to a market-data buffer (spot, variance,
volatility) in the element term of a feature / of the hedge at time index j lies at a column <= j
(<= T-2 for the final index), and hedge[:, :, T-1] == hedge[:, :, T-2].  Soundness: a term whose
buffer accesses all lie at columns <= j has the same value on any two stores agreeing up to j."""
from contracts import hedging

PROP = 'C02'


def build(tier, seed):
    from pfv.torchlib import import_pfhedge
    import_pfhedge()
    obs = [o for o in hedging.feature_obligations(seed) + hedging.hedger_obligations(seed, tier) if PROP in o.props]
    obs.append(canary())
    return {'obligations': obs, 'functions': hedging.FEATURE_FUNCTIONS + hedging.HEDGER_FUNCTIONS,
            'assumptions': [
                'A3 torch contracts: indexing (basic = view, list = copy), cummax/cummin/max/min as big operators, cat, transpose, in-place column copy, Module.__call__ runs forward then the forward hooks',
                'user modules are point-wise in time on the all-steps-at-once branch (the documented (N,*,F)->(N,*,H) contract); modelled as an uninterpreted function of the features at the same (n,t); no assumption is needed on the step-by-step branch',
                'the all-steps-at-once branch is verified for all N and T; the step-by-step loop of compute_hedge is CUT by an invariant (HS/compute_hedge/loop:*: every T, symbolic N; H in {1,2}): len(outputs) == time_step, and the ghost footprint invariant "outputs[k] and the heap cell prev_output read market data of columns <= k only", established for the output of an arbitrary step by access analysis of its term (buffers at columns <= i, earlier outputs at indices < i); the same loop is additionally unrolled for T in {2,3} (quick) / {2..5} (thorough) as a second route; the per-feature obligations are for every step i and every T',
                'a listed derivative\'s pricer and a local-volatility function are user code: their own non-anticipativity is a precondition',
                'A1 reals for floats',
            ],
            'level': 'proof',
            'trusted_base': ['pfv executor + torch shim', 'guard-aware access collection (pfv/terms.accesses)', 'z3 LIA/UF'],
            'note': 'Real Hedger / FeatureList / features / BlackScholes / WhalleyWilmott / Naked / Linear from /repo executed on instruments whose buffers are symbolic (N,T) tensors.'}


def canary():
    """A feature that peeks one column ahead must be refuted by the same footprint analysis."""
    import time
    from pfv import terms as tm, smt
    from pfv.framework import Obligation, Verdict
    from pfv.proxies import explore, SInt

    def check():
        t0 = time.time()
        H = hedging

        def run(c):
            d = H.mk_derivative()
            return d.ul().spot[:, [SInt(H.I) + 1]]
        hyps = H.DIMS + H.STEP + [tm.lt(tm.add(H.I, tm.IONE), H.T)]
        p = explore(run, hyps)[0]
        n = tm.var('n', 'I')
        el = p.result.at((n, tm.IZERO))
        for (g, acc) in H._buffer_accesses(el):
            r = smt.prove(p.facts(hyps) + [g], tm.le(acc.args[2], H.I), timeout_ms=5000)
            if r.status == 'sat':
                return Verdict('refuted', r.backend, time.time() - t0, 'peeking access %s refuted as expected' % tm.show(acc), witness={})
        return Verdict('proved', 'z3', time.time() - t0, 'engine failed to flag a look-ahead access')
    return Obligation('C02/canary/look-ahead-feature', 'canary', '', check, [PROP], clause='CANARY (must be refuted): spot[:, i+1] reads only columns <= i')
