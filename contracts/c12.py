"""C12 - payoffs equal their contractual definitions and ordering.

Contracts (x: (N, T) price paths, all N >= 1, T >= 1; K strike):
  european_payoff          call: max(x[n,T-1]-K, 0)        put: max(K-x[n,T-1], 0)
  lookback_payoff          call: max(max_t x[n,t]-K, 0)    put: max(K-min_t x[n,t], 0)
  european_binary_payoff   call: [x[n,T-1] >= K]           put: [x[n,T-1] <= K]           (1/0 in the input dtype)
  american_binary_payoff   call: [max_t x[n,t] >= K]       put: [min_t x[n,t] <= K]
  european_forward_start_payoff(x, K, s, e)  max(x[n,e]/x[n,s]-K, 0)
  variance swap            (1/(T-1)) sum_t (log x[t+1]-log x[t])^2 / dt - K
  <Derivative>.payoff_fn   the functional of the same name on ul().spot with the derivative's call/strike/dt/start
  payoff()                 clauses applied in registration order to payoff_fn(); one entry per path
lemmas   lookback >= european >= 0;  american binary >= european binary;  call - put == x[T-1]-K
"""
import time

from pfv import terms as tm
from pfv import fc, smt
from pfv.framework import Obligation, Verdict, real_exec
from pfv.proxies import explore, SReal, SInt
import functools as _ft
_explore_raw = explore
explore = _ft.partial(_explore_raw, enforce_bounds=True)     # shim range assumptions (slices / indices) must be provable on every returning path

PROP = 'C12'
F_ = 'pfhedge.nn.functional.'
FUNCTIONS = [F_ + n for n in ('european_payoff', 'lookback_payoff', 'american_binary_payoff', 'european_binary_payoff', 'european_forward_start_payoff',
                              'realized_variance')] + [
    'pfhedge.instruments.derivative.european.EuropeanOption.payoff_fn', 'pfhedge.instruments.derivative.lookback.LookbackOption.payoff_fn',
    'pfhedge.instruments.derivative.european_binary.EuropeanBinaryOption.payoff_fn', 'pfhedge.instruments.derivative.american_binary.AmericanBinaryOption.payoff_fn',
    'pfhedge.instruments.derivative.cliquet.EuropeanForwardStartOption.payoff_fn', 'pfhedge.instruments.derivative.cliquet.EuropeanForwardStartOption._start_index',
    'pfhedge.instruments.derivative.variance_swap.VarianceSwap.payoff_fn',
    'pfhedge.instruments.derivative.base.BaseDerivative.payoff', 'pfhedge.instruments.derivative.base.BaseDerivative.add_clause',
    'pfhedge.instruments.derivative.base.BaseDerivative.named_clauses', 'pfhedge.instruments.derivative.base.BaseDerivative.clauses',
]
ASSUMPTIONS = [
    'A1 reals for floats (payoff values); the forward-start index floor(start/dt) is additionally decided bit-precisely in IEEE doubles on the expression taken from the source',
    'A3 torch contracts: indexing, max/min along a dim as big operators, comparison -> 0/1 in the input dtype via .to(input), relu, division',
    'OrderedDict iterates in first-insertion order and re-assignment keeps the position (CPython semantics; the real OrderedDict is executed)',
    'clause sequences are enumerated up to length 3 (incl. a repeated callable and a re-registered name); the payoff loop over clauses is executed, not cut',
]
N, T, K = tm.var('N', 'I'), tm.var('T', 'I'), tm.var('K')
DIMS = [tm.ge(N, tm.IONE), tm.ge(T, tm.IONE)]
X = lambda n, t_: tm.sel('X', n, t_)
LAST = tm.sub(T, tm.IONE)


def relu(t_):
    return tm.tmax(t_, tm.ZERO)


def ind(c):
    return tm.ite(c, tm.ONE, tm.ZERO)


def bmax(n, c):
    k = c.fresh('k', 'I')
    return tm.big('bmax', k, tm.IZERO, T, X(n, k))


def bmin(n, c):
    k = c.fresh('k', 'I')
    return tm.big('bmin', k, tm.IZERO, T, X(n, k))


SPECS = {
    ('european_payoff', True): lambda n, c: relu(tm.sub(X(n, LAST), K)),
    ('european_payoff', False): lambda n, c: relu(tm.sub(K, X(n, LAST))),
    ('lookback_payoff', True): lambda n, c: relu(tm.sub(bmax(n, c), K)),
    ('lookback_payoff', False): lambda n, c: relu(tm.sub(K, bmin(n, c))),
    ('european_binary_payoff', True): lambda n, c: ind(tm.ge(X(n, LAST), K)),
    ('european_binary_payoff', False): lambda n, c: ind(tm.le(X(n, LAST), K)),
    ('american_binary_payoff', True): lambda n, c: ind(tm.ge(bmax(n, c), K)),
    ('american_binary_payoff', False): lambda n, c: ind(tm.le(bmin(n, c), K)),
}
CLS = {'european_payoff': 'EuropeanOption', 'lookback_payoff': 'LookbackOption', 'european_binary_payoff': 'EuropeanBinaryOption', 'american_binary_payoff': 'AmericanBinaryOption'}

REAL = '''
import pfhedge.nn.functional as F
import pfhedge.instruments as pi
X = T(W["X"]); K = W.get("K", 1.0)
call = W["call"]
fn = W["fn"]
def ref_row(r):
    if fn == "european_payoff": return max(r[-1] - K, 0) if call else max(K - r[-1], 0)
    if fn == "lookback_payoff": return max(max(r) - K, 0) if call else max(K - min(r), 0)
    if fn == "european_binary_payoff": return float(r[-1] >= K) if call else float(r[-1] <= K)
    if fn == "american_binary_payoff": return float(max(r) >= K) if call else float(min(r) <= K)
if W.get("via") == "history":
    u0 = pi.BrownianStock(dtype=torch.float64); u0.register_buffer("spot", X * 0.5 + 0.3)
    d = getattr(pi, W["cls"])(u0, call=call, strike=K); d.ul(); d.payoff()
    u = pi.BrownianStock(dtype=torch.float64); u.register_buffer("spot", X * 2.0)
    d.register_underlier("underlier", u); d.payoff()
    u.register_buffer("spot", X)
    got = d.payoff()
elif W.get("via") == "derivative":
    u = pi.BrownianStock(dtype=torch.float64); u.register_buffer("spot", X)
    got = getattr(pi, W["cls"])(u, call=call, strike=K).payoff()
else:
    got = getattr(F, fn)(X, call=call, strike=K)
result = {"got": got, "ref": [ref_row(r) for r in W["X"]]}
'''


def payoff_case(fname, call, via):
    def build():
        import torch
        import pfhedge.nn.functional as F
        import pfhedge.instruments as pi
        from pfv.torchlib.tensor import Tensor

        def run(c):
            x = Tensor.input('X', (N, T), torch.float64)
            if via == 'function':
                return getattr(F, fname)(x, call=call, strike=SReal(K))
            u = pi.BrownianStock(dtype=torch.float64)
            if via == 'history':
                # call history: the derivative was built on ANOTHER stock and evaluated; then its underlier was replaced under the same
                # name by a stock that had itself been simulated before (its buffer replaced once): the payoff is on the current paths
                u0 = pi.BrownianStock(dtype=torch.float64)
                u0.register_buffer('spot', Tensor.input('X0', (N, T), torch.float64))
                d = getattr(pi, CLS[fname])(u0, call=call, strike=SReal(K))
                d.ul(); d.payoff(); d.payoff_fn()
                u.register_buffer('spot', Tensor.input('X1', (N, T), torch.float64))
                d.register_underlier('underlier', u)
                d.payoff()
                u.register_buffer('spot', x)
                return d.payoff()
            u.register_buffer('spot', x)
            d = getattr(pi, CLS[fname])(u, call=call, strike=SReal(K))
            return d.payoff_fn() if via == 'payoff_fn' else d.payoff()

        def ens(res, p):
            n = p.ctx.fresh('n', 'I')
            return [('payoff[n]', [tm.le(tm.IZERO, n), tm.lt(n, N)], res.at((n,)), SPECS[(fname, call)](n, p.ctx))]
        case = fc.Case(run, hyps=DIMS, ensures=ens, shape=lambda res: (N,), dtype=torch.float64, scalars=['K'], tensors={'X': ((N, T), 'R')}, real_snippet=REAL)
        case.witness_extra = {'fn': fname, 'call': call, 'via': 'history' if via == 'history' else ('derivative' if via != 'function' else 'function'), 'cls': CLS[fname]}
        return case
    return build


def payoff_case_leading_dims(fname, call):
    """the documented input shape is (*, T): with two leading dimensions (B, N, T) the payoff has one entry per leading index
    and is taken along the LAST axis (time)"""
    def build():
        import torch
        import pfhedge.nn.functional as F
        from pfv.torchlib.tensor import Tensor
        Bd = tm.var('B', 'I')
        X3 = lambda b, n, k: tm.sel('X3', b, n, k)
        LAST3 = tm.sub(T, tm.IONE)

        def run(c):
            return getattr(F, fname)(Tensor.input('X3', (Bd, N, T), torch.float64), call=call, strike=SReal(K))

        def spec(b, n, c):
            k = c.fresh('k', 'I')
            mx = tm.big('bmax', k, tm.IZERO, T, X3(b, n, k))
            mn = tm.big('bmin', k, tm.IZERO, T, X3(b, n, k))
            return {('european_payoff', True): relu(tm.sub(X3(b, n, LAST3), K)), ('european_payoff', False): relu(tm.sub(K, X3(b, n, LAST3))),
                    ('lookback_payoff', True): relu(tm.sub(mx, K)), ('lookback_payoff', False): relu(tm.sub(K, mn)),
                    ('european_binary_payoff', True): ind(tm.ge(X3(b, n, LAST3), K)), ('european_binary_payoff', False): ind(tm.le(X3(b, n, LAST3), K)),
                    ('american_binary_payoff', True): ind(tm.ge(mx, K)), ('american_binary_payoff', False): ind(tm.le(mn, K))}[(fname, call)]

        def ens(res, p):
            b, n = p.ctx.fresh('b', 'I'), p.ctx.fresh('n', 'I')
            return [('payoff[b, n]', [tm.le(tm.IZERO, b), tm.lt(b, Bd), tm.le(tm.IZERO, n), tm.lt(n, N)], res.at((b, n)), spec(b, n, p.ctx))]
        return fc.Case(run, hyps=DIMS + [tm.ge(Bd, tm.IONE)], ensures=ens, shape=lambda res: (Bd, N), dtype=torch.float64, scalars=['K'], tensors={'X3': ((Bd, N, T), 'R')},
                       real_snippet='import pfhedge.nn.functional as F\nX=T(W["X3"]); K=W.get("K",1.0); call=%r\ngot=F.%s(X, call=call, strike=K)\n'
                                    'def row(r):\n    fn=%r\n    if fn=="european_payoff": return max(r[-1]-K,0) if call else max(K-r[-1],0)\n    if fn=="lookback_payoff": return max(max(r)-K,0) if call else max(K-min(r),0)\n'
                                    '    if fn=="european_binary_payoff": return float(r[-1]>=K) if call else float(r[-1]<=K)\n    return float(max(r)>=K) if call else float(min(r)<=K)\n'
                                    'result={"got": got, "ref": [[row(r) for r in blk] for blk in W["X3"]]}' % (call, fname, fname))
    return build


def forward_start_obs():
    obs = []
    s_, DT, START = tm.var('s', 'I'), tm.var('dt'), tm.var('start')

    def fn_case():
        import torch
        import pfhedge.nn.functional as F
        from pfv.torchlib.tensor import Tensor

        def run(c):
            x = Tensor.input('X', (N, T), torch.float64)
            i_, j_ = c.fresh('pi', 'I'), c.fresh('pj', 'I')
            c.assume(tm.forall(i_, tm.IZERO, N, tm.forall(j_, tm.IZERO, T, tm.gt(tm.sel('X', i_, j_), tm.ZERO))))
            return F.european_forward_start_payoff(x, strike=SReal(K), start_index=SInt(s_))

        def ens(res, p):
            n = p.ctx.fresh('n', 'I')
            return [('payoff[n]', [tm.le(tm.IZERO, n), tm.lt(n, N)], res.at((n,)), relu(tm.sub(tm.div(X(n, LAST), X(n, s_)), K)))]
        return fc.Case(run, hyps=DIMS + [tm.le(tm.IZERO, s_), tm.lt(s_, T)], ensures=ens, shape=lambda res: (N,), scalars=['K', 's'], tensors={'X': ((N, T), 'R')},
                       real_snippet='import pfhedge.nn.functional as F\nX=T(W["X"])\ngot=F.european_forward_start_payoff(X, strike=W["K"], start_index=int(W["s"]))\n'
                                    'result={"got": got, "ref": [max(r[-1]/r[int(W["s"])]-W["K"],0) for r in W["X"]]}')
    obs.append(fc.contract_ob('C12/european_forward_start_payoff/post', F_ + 'european_forward_start_payoff', [PROP], fn_case,
                              'forward start payoff == max(x[T-1]/x[s] - K, 0) for every start index s'))

    def cls_case():
        import torch
        import pfhedge.instruments as pi
        from pfv.torchlib.tensor import Tensor

        def run(c):
            x = Tensor.input('X', (N, T), torch.float64)
            i_, j_ = c.fresh('pi', 'I'), c.fresh('pj', 'I')
            c.assume(tm.forall(i_, tm.IZERO, N, tm.forall(j_, tm.IZERO, T, tm.gt(tm.sel('X', i_, j_), tm.ZERO))))
            u = pi.BrownianStock(dt=SReal(DT), dtype=torch.float64)
            u.register_buffer('spot', x)
            d = pi.EuropeanForwardStartOption(u, strike=SReal(K), start=SReal(START))
            return d.payoff()

        def ens(res, p):
            n = p.ctx.fresh('n', 'I')
            idx = tm.floor(tm.div(START, DT))
            return [('payoff[n] uses the price at index floor(start/dt)', [tm.le(tm.IZERO, n), tm.lt(n, N)], res.at((n,)), relu(tm.sub(tm.div(X(n, LAST), X(n, idx)), K)))]
        return fc.Case(run, hyps=DIMS + [tm.gt(DT, tm.ZERO), tm.ge(START, tm.ZERO), tm.lt(tm.floor(tm.div(START, DT)), T)], ensures=ens, shape=lambda res: (N,),
                       scalars=['K', 'dt', 'start'], tensors={'X': ((N, T), 'R')},
                       real_snippet='import math\nimport pfhedge.instruments as pi\nX=T(W["X"])\nu=pi.BrownianStock(dt=W["dt"],dtype=torch.float64); u.register_buffer("spot",X)\n'
                                    'got=pi.EuropeanForwardStartOption(u, strike=W["K"], start=W["start"]).payoff()\n'
                                    'result={"got": got, "ref": [max(r[-1]/r[math.floor(W["start"]/W["dt"])]-W["K"],0) for r in W["X"]]}')
    obs.append(fc.contract_ob('C12/EuropeanForwardStartOption.payoff/post', 'pfhedge.instruments.derivative.cliquet.EuropeanForwardStartOption.payoff_fn', [PROP], cls_case,
                              'EuropeanForwardStartOption pays max(S_T/S_start - K, 0) with S_start the price at index floor(start/dt) (over the reals)'))
    obs.append(fp_start_index_ob())
    return obs


def fp_start_index_ob():
    """floor(start/dt) in IEEE doubles for start = fl(k*dt): must be k (the k-th grid point)."""
    def check():
        from pfv import fpx
        import pfhedge.instruments as pi
        import hashlib
        t0 = time.time()
        try:
            node, text = fpx.find_expr(pi.EuropeanForwardStartOption._start_index, fpx.return_expr)
        except Exception as e:
            return Verdict('unknown', 'engine', time.time() - t0, 'cannot bind the start-index expression: %s' % e)
        grid = [1 / 250, 1 / 365, 1 / 252, 1 / 12, 1 / 52, 0.1, 0.01, 0.05, 1 / 360]
        failing = []
        try:
            for dt in grid:
                for k in range(0, 401):
                    got = fpx.native(node, {'self.start': k * dt, 'self.ul().dt': dt})
                    if got != k:
                        failing.append((repr(dt), k, got))
        except NotImplementedError as e:
            return Verdict('unknown', 'engine', time.time() - t0, str(e))
        sample = {'claim': 'start = fl(k*dt) => start index k, in IEEE doubles', 'expression_from_source': text}
        if failing:
            sig = '%d:%s' % (len(failing), hashlib.sha1(repr(failing).encode()).hexdigest()[:12])
            dt0, k0, got0 = failing[0]
            rr = real_exec('from pfhedge.instruments import BrownianStock, EuropeanForwardStartOption\n'
                           'd=EuropeanForwardStartOption(BrownianStock(dt=W["dt"]), start=W["k"]*W["dt"], maturity=2*W["k"]*W["dt"]+W["dt"])\nresult={"got": d._start_index(), "ref": W["k"]}',
                           {'k': k0, 'dt': float(dt0)})
            ok = rr.get('ok') and rr['result']['got'] != rr['result']['ref']
            return Verdict('refuted', 'native IEEE-double enumeration of the source expression', time.time() - t0,
                           '%s: %d of %d (dt, k<=400) pairs give index != k; first: start = %d*dt, dt = %s -> index %s' % (text, len(failing), 401 * len(grid), k0, dt0, got0),
                           witness={'k': k0, 'dt': float(dt0), 'index': got0, 'failing_pairs': len(failing), 'signature': sig}, replay={'real': rr, 'confirmed': bool(ok)}, sample=sample)
        return Verdict('proved', 'bounded: native IEEE-double enumeration', time.time() - t0, 'index == k for all k <= 400 over %d step sizes' % len(grid), sample=sample)
    return Obligation('C12/EuropeanForwardStartOption._start_index/doubles', 'post', 'pfhedge.instruments.derivative.cliquet.EuropeanForwardStartOption._start_index', check, [PROP],
                      clause='a start time on the grid (start = k*dt) selects grid point k [IEEE double, expression taken from the source]')


def variance_swap_ob():
    def case():
        import torch
        import pfhedge.instruments as pi
        from pfv.torchlib.tensor import Tensor
        DT = tm.var('dt')

        def run(c):
            x = Tensor.input('X', (N, T), torch.float64)
            i_, j_ = c.fresh('pi', 'I'), c.fresh('pj', 'I')
            c.assume(tm.forall(i_, tm.IZERO, N, tm.forall(j_, tm.IZERO, T, tm.gt(tm.sel('X', i_, j_), tm.ZERO))))
            u = pi.BrownianStock(dt=SReal(DT), dtype=torch.float64)
            u.register_buffer('spot', x)
            return pi.VarianceSwap(u, strike=SReal(K)).payoff()

        def ens(res, p):
            n, k = p.ctx.fresh('n', 'I'), p.ctx.fresh('k', 'I')
            lr = tm.sub(tm.app('log', X(n, tm.add(k, tm.IONE))), tm.app('log', X(n, k)))
            rv = tm.div(tm.div(tm.toreal(tm.tsum(k, tm.IZERO, tm.sub(T, tm.IONE), tm.mul(lr, lr))), tm.toreal(tm.sub(T, tm.IONE))), DT)
            return [('payoff[n]', [tm.le(tm.IZERO, n), tm.lt(n, N)], res.at((n,)), tm.sub(rv, K))]
        return fc.Case(run, hyps=[tm.ge(N, tm.IONE), tm.ge(T, tm.const(2, 'I')), tm.gt(DT, tm.ZERO)], ensures=ens, shape=lambda res: (N,), scalars=['K', 'dt'], tensors={'X': ((N, T), 'R')},
                       real_snippet='import math\nimport pfhedge.instruments as pi\nX=T(W["X"])\nu=pi.BrownianStock(dt=W["dt"],dtype=torch.float64); u.register_buffer("spot",X)\n'
                                    'got=pi.VarianceSwap(u, strike=W["K"]).payoff()\nref=[sum((math.log(r[i+1])-math.log(r[i]))**2 for i in range(len(r)-1))/(len(r)-1)/W["dt"]-W["K"] for r in W["X"]]\nresult={"got":got,"ref":ref}')
    return fc.contract_ob('C12/VarianceSwap.payoff/post', 'pfhedge.instruments.derivative.variance_swap.VarianceSwap.payoff_fn', [PROP], case,
                          'variance swap pays the annualised mean squared log-return minus the strike')


def ordering_obs():
    """lookback >= european >= 0; american binary >= european binary; call - put = x[T-1] - K  (on the real functions' terms)."""
    def mk(oid, clause, goal_builder):
        def check():
            t0 = time.time()
            import torch
            import pfhedge.nn.functional as F
            from pfv.torchlib.tensor import Tensor

            def run(c):
                x = Tensor.input('X', (N, T), torch.float64)
                Ks = SReal(K)
                return {(fn, call): getattr(F, fn)(x, call=call, strike=Ks) for fn in CLS for call in (True, False)}
            paths = explore(run, DIMS, max_paths=4)
            if len(paths) != 1 or paths[0].outcome() != 'returns':
                return Verdict('unknown', 'engine', time.time() - t0, str([(p.outcome(), p.traceback[-300:]) for p in paths]))
            n = tm.var('n', 'I')
            vals = {k_: v_.at((n,)) for k_, v_ in paths[0].result.items()}
            goal = goal_builder(vals, n)
            r = smt.prove(paths[0].facts(DIMS) + [tm.le(tm.IZERO, n), tm.lt(n, N)], goal, timeout_ms=20000)
            if r.status == 'unsat':
                return Verdict('proved', r.backend, time.time() - t0, '', sample={'claim': clause, 'goal': tm.show(goal)[:500]})
            return Verdict('refuted' if r.status == 'sat' else 'unknown', r.backend, time.time() - t0, clause + ' fails', witness={'goal': tm.show(goal)[:400]}, replay={'confirmed': False})
        return Obligation(oid, 'lemma', F_ + 'european_payoff', check, [PROP], clause=clause)
    return [
        mk('C12/lemma/lookback>=european>=0', 'lookback payoff >= European payoff >= 0 (call and put)',
           lambda v, n: tm.and_(tm.ge(v[('lookback_payoff', True)], v[('european_payoff', True)]), tm.ge(v[('european_payoff', True)], tm.ZERO),
                                tm.ge(v[('lookback_payoff', False)], v[('european_payoff', False)]), tm.ge(v[('european_payoff', False)], tm.ZERO))),
        mk('C12/lemma/american>=european binary', 'American binary payoff >= European binary payoff (call and put)',
           lambda v, n: tm.and_(tm.ge(v[('american_binary_payoff', True)], v[('european_binary_payoff', True)]), tm.ge(v[('american_binary_payoff', False)], v[('european_binary_payoff', False)]))),
        mk('C12/lemma/call-put', 'European call payoff - put payoff == S_T - K',
           lambda v, n: tm.eq(tm.sub(v[('european_payoff', True)], v[('european_payoff', False)]), tm.sub(X(n, LAST), K))),
    ]


def clause_obs():
    """payoff() applies the registered clauses in registration order (uninterpreted clauses c_i)."""
    def mk(label, registrations, expected_order):
        def check():
            t0 = time.time()
            import torch
            import pfhedge.instruments as pi
            from pfv.torchlib.tensor import Tensor

            def clause(name):
                def c_(deriv, payoff):
                    rd = payoff.reader()
                    return Tensor.fresh(lambda idx: tm.app(name, rd(idx)), payoff._shape, payoff.dtype)
                return c_
            fns = {}

            def run(c):
                x = Tensor.input('X', (N, T), torch.float64)
                u = pi.BrownianStock(dtype=torch.float64)
                u.register_buffer('spot', x)
                d = pi.EuropeanOption(u, strike=SReal(K))
                for (nm, fn) in registrations:
                    if fn not in fns:
                        fns[fn] = clause(fn)
                    d.add_clause(nm, fns[fn])
                return d.payoff(), d.payoff_fn(), [nm for nm, _ in d.named_clauses()]
            paths = explore(run, DIMS, max_paths=4)
            if len(paths) != 1 or paths[0].outcome() != 'returns':
                return Verdict('unknown', 'engine', time.time() - t0, str([(p.outcome(), p.traceback[-300:]) for p in paths]))
            res, base, names = paths[0].result
            n = tm.var('n', 'I')
            want = base.at((n,))
            for fn in expected_order:
                want = tm.app(fn, want)
            from pfv.torchlib.tensor import ti
            okshape = len(res._shape) == 1 and smt.prove(paths[0].facts(DIMS), tm.eq(ti(res._shape[0]), N), timeout_ms=5000).status == 'unsat'
            r = smt.prove(paths[0].facts(DIMS) + [tm.le(tm.IZERO, n), tm.lt(n, N)], tm.eq(res.at((n,)), want), timeout_ms=10000)
            if r.status == 'unsat' and okshape:
                return Verdict('proved', r.backend, time.time() - t0, '', sample={'claim': 'payoff == ' + ' o '.join(reversed(expected_order)) + ' (payoff_fn)', 'registered': registrations})
            rp = real_exec(CLAUSE_REPLAY, {})
            return Verdict('refuted' if r.status == 'sat' or not okshape else 'unknown', r.backend, time.time() - t0,
                           'payoff() = %s, expected %s' % (tm.show(res.at((n,)))[:200], tm.show(want)[:200]), witness={'registered': registrations},
                           replay={'real': rp, 'confirmed': not (rp.get('ok') and rp['result']['got'] == [])})
        return Obligation('C12/payoff/clauses[%s]' % label, 'post', 'pfhedge.instruments.derivative.base.BaseDerivative.payoff', check, [PROP],
                          clause='registered clauses transform the payoff in registration order [%s]; one entry per path' % label)
    return [
        mk('none', [], []),
        mk('a', [('a', 'ca')], ['ca']),
        mk('a,b', [('a', 'ca'), ('b', 'cb')], ['ca', 'cb']),
        mk('a,b,c', [('a', 'ca'), ('b', 'cb'), ('c', 'cc')], ['ca', 'cb', 'cc']),
        mk('same callable twice', [('a', 'ca'), ('b', 'ca')], ['ca', 'ca']),
        mk('a,b,a (callable a under two names)', [('a', 'ca'), ('b', 'cb'), ('a2', 'ca')], ['ca', 'cb', 'ca']),
        mk('re-registered name keeps its position', [('a', 'ca'), ('b', 'cb'), ('a', 'cc')], ['cc', 'cb']),
    ]


CLAUSE_REPLAY = '''
import pfhedge.instruments as pi
torch.manual_seed(0)
bad = []
dbl = lambda d, p: p * 2.0
cap = lambda d, p: p.clamp(max=0.05)
fee = lambda d, p: p - 0.01
for seq in ([], [dbl], [dbl, cap], [cap, dbl], [dbl, dbl], [cap, dbl, cap], [fee, dbl, fee]):
    d = pi.EuropeanOption(pi.BrownianStock(sigma=0.5), strike=0.95); d.simulate(n_paths=6)
    ref = d.payoff_fn()
    for k, c in enumerate(seq):
        d.add_clause("c%d" % k, c); ref = c(d, ref)
    if not torch.allclose(d.payoff(), ref) or d.payoff().shape != (6,): bad.append([s.__code__.co_name for s in seq])
result = {"got": [str(b) for b in bad], "ref": []}
'''


def build(tier, seed):
    from pfv.torchlib import import_pfhedge
    import_pfhedge()
    obs = []
    for (fname, call) in SPECS:
        tag = 'call' if call else 'put'
        obs.append(fc.contract_ob('C12/%s/post[%s]' % (fname, tag), F_ + fname, [PROP], payoff_case(fname, call, 'function'),
                                  '%s(%s) == contractual definition for every path, all N, T >= 1 (ties with the strike included)' % (fname, tag)))
        obs.append(fc.contract_ob('C12/%s.payoff/post[%s]' % (CLS[fname], tag), 'pfhedge.instruments.derivative.%s.payoff_fn' % CLS[fname], [PROP], payoff_case(fname, call, 'payoff'),
                                  '%s(call=%s, strike=K).payoff() == the same definition on the underlier\'s spot' % (CLS[fname], call)))
        obs.append(fc.contract_ob('C12/%s/post[%s,leading dimensions (B,N,T)]' % (fname, tag), F_ + fname, [PROP], payoff_case_leading_dims(fname, call),
                                  '%s(%s) on a (B, N, T) input: one entry per (b, n), taken along the time axis' % (fname, tag)))
        if call:
            obs.append(fc.contract_ob('C12/%s.payoff/post[%s,after an evaluation on another underlier]' % (CLS[fname], tag), 'pfhedge.instruments.derivative.%s.payoff_fn' % CLS[fname], [PROP], payoff_case(fname, call, 'history'),
                                      '%s.payoff() follows the CURRENT underlier and its CURRENT paths: evaluated on another stock first, then re-targeted (register_underlier under the same name) and re-simulated' % CLS[fname]))
    obs += forward_start_obs() + [variance_swap_ob()] + ordering_obs() + clause_obs()
    obs.append(fc.contract_ob('C12/canary/binary-strict-at-tie', '', [PROP], _canary(), 'CANARY (must be refuted): European binary put pays on S_T < K only', kind='canary'))
    return {'obligations': obs, 'functions': FUNCTIONS, 'assumptions': ASSUMPTIONS, 'level': 'proof',
            'trusted_base': ['pfv executor + torch shim', 'z3 LRA/UF with max/min witness axioms', 'Sigma-normaliser'],
            'note': 'payoff functions and the six derivatives\' payoff() run from /repo on symbolic (N,T) paths; ties with the strike are exactly the point-wise obligations.'}


def _canary():
    def build():
        case = payoff_case('european_binary_payoff', False, 'function')()

        def ens(res, p):
            n = p.ctx.fresh('n', 'I')
            return [('wrong', [tm.le(tm.IZERO, n), tm.lt(n, N)], res.at((n,)), ind(tm.lt(X(n, LAST), K)))]
        case.ensures = ens
        return case
    return build
