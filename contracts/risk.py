"""Contracts of the risk measures / utilities / loss modules shared by C04, C05, C06.

Spec functions (written from the property statements; x: (N,) or (N, M), reduction along dim 0):
  rho_a(x)   = (1/a) log( (1/N) sum_n exp(-a x_n) )
  ES_p(x)    = -(1/k) sum_{j<k} sort_up(x)[j],   k = ceil(p N)
  VaR_p(x)   = min for p <= 1/N; max for p > 1-1/N; the k-th smallest when p N = k is integral
  Q_lam(x)   = min_w { w + lam mean( max(-w - x, 0)^2 ) }
  EL_a(x)    = -mean( -exp(-a x) ),  IL_a(x) = -mean( x^(1-a) ) (a != 1) | -mean(log x) (a = 1)
  OCE_u,w(x) = w - mean u(x + w)
Order statistics of a sample are the assumed contract of torch.topk / torch.quantile (`ostat_*` terms)."""
import time

from pfv import terms as tm
from pfv import smt, fc, diff as D
from pfv.framework import Obligation, Verdict, real_exec
from pfv.proxies import explore, SReal, SInt, Unsupported, ctx, lift

N, M = tm.var('N', 'I'), tm.var('M', 'I')
A, P, LAM = tm.var('a'), tm.var('p'), tm.var('lam')
DIMS = [tm.ge(N, tm.IONE), tm.ge(M, tm.IONE)]
F_ = 'pfhedge.nn.functional.'
L_ = 'pfhedge.nn.modules.loss.'
FUNCTIONS = [F_ + n for n in ('exp_utility', 'isoelastic_utility', 'entropic_risk_measure', 'topp', 'expected_shortfall', '_min_values', '_max_values', 'value_at_risk', 'quadratic_cvar')] + \
            [L_ + n for n in ('HedgeLoss.cash', 'EntropicRiskMeasure.forward', 'EntropicRiskMeasure.cash', 'EntropicRiskMeasure.__init__', 'EntropicLoss.forward', 'EntropicLoss.cash',
                              'IsoelasticLoss.forward', 'IsoelasticLoss.__init__', 'ExpectedShortfall.forward', 'ExpectedShortfall.cash', 'ExpectedShortfall.__init__',
                              'QuadraticCVaR.forward', 'QuadraticCVaR.cash', 'QuadraticCVaR.__init__', 'OCE.forward')]


def X2(n, m):
    return tm.sel('X', n, m)


def X1(n):
    return tm.sel('X', n)


def _inp(rank, name='X'):
    import torch
    from pfv.torchlib.tensor import Tensor
    return Tensor.input(name, (N,) if rank == 1 else (N, M), torch.float64)


def rho_spec(xf, c):
    n = c.fresh('n', 'I')
    return tm.div(tm.app('log', tm.div(tm.tsum(n, tm.IZERO, N, tm.app('exp', tm.neg(tm.mul(A, xf(n))))), tm.toreal(N))), A)


def es_spec(xf, c, k):
    n, j = c.fresh('n', 'I'), c.fresh('j', 'I')
    bag = tm.big('bag', n, tm.IZERO, N, xf(n))
    return tm.neg(tm.div(tm.tsum(j, tm.IZERO, k, tm.app('ostat_bot', j, bag)), tm.toreal(k)))


REAL_RISK = '''
import math
import pfhedge.nn.functional as F
import pfhedge.nn as pnn
X = T(W["X"]); fn = W["fn"]; a = W.get("a", 1.0); p = W.get("p", 0.5)
cols = list(zip(*W["X"])) if isinstance(W["X"][0], list) else [W["X"]]
def rho(col):
    m = max(-a * v for v in col); return (m + math.log(sum(math.exp(-a * v - m) for v in col) / len(col))) / a
def es(col):
    k = math.ceil(p * len(col)); s = sorted(col); return -sum(s[:k]) / k
if fn == "entropic_risk_measure": got = F.entropic_risk_measure(X, a=a); ref = [rho(c) for c in cols]
elif fn == "EntropicRiskMeasure": got = pnn.EntropicRiskMeasure(a)(X, T(W.get("Z", 0.0))); ref = [rho([v - W.get("Z", 0.0) for v in c]) for c in cols]
elif fn == "expected_shortfall": got = F.expected_shortfall(X, p, dim=0); ref = [es(c) for c in cols]
elif fn == "ExpectedShortfall": got = pnn.ExpectedShortfall(p)(X, T(W.get("Z", 0.0))); ref = [es([v - W.get("Z", 0.0) for v in c]) for c in cols]
if not isinstance(W["X"][0], list): ref = ref[0]
result = {"got": got, "ref": ref}
'''


def entropic_obs():
    obs = []
    for rank in (1, 2):
        for via in ('function', 'module'):
            def case(rank=rank, via=via):
                import pfhedge.nn.functional as F
                import pfhedge.nn as pnn

                def run(c):
                    x = _inp(rank)
                    if via == 'function':
                        return F.entropic_risk_measure(x, a=SReal(A))
                    return pnn.EntropicRiskMeasure(a=SReal(A))(x, SReal(tm.var('Z')))

                def ens(res, p):
                    z = tm.var('Z') if via == 'module' else tm.ZERO
                    if rank == 1:
                        return [('rho_a(x - z)', [], res.at(()), rho_spec(lambda n: tm.sub(X1(n), z), p.ctx))]
                    m = p.ctx.fresh('m', 'I')
                    return [('rho_a(x[:,m] - z)', [tm.le(tm.IZERO, m), tm.lt(m, M)], res.at((m,)), rho_spec(lambda n: tm.sub(X2(n, m), z), p.ctx))]

                def extra(paths):
                    # no-overflow: every exp of an input-dependent value must sit inside logsumexp (assumed stable)
                    out = []
                    for p in paths:
                        direct = [e for e in p.events if e[0] == 'exp']
                        out.append(('no direct exp() of an unbounded argument', not direct, 'exp() called directly %d time(s)' % len(direct)))
                    return out
                cs = fc.Case(run, hyps=DIMS + [tm.gt(A, tm.ZERO)], ensures=ens, shape=(lambda res: ()) if rank == 1 else (lambda res: (M,)), extra=extra,
                             scalars=['a', 'Z'], tensors={'X': (((N,) if rank == 1 else (N, M)), 'R')}, real_snippet=REAL_RISK)
                cs.witness_extra = {'fn': 'entropic_risk_measure' if via == 'function' else 'EntropicRiskMeasure'}
                return cs
            obs.append(fc.contract_ob('RK/entropic_risk_measure/post[rank=%d,%s]' % (rank, via), F_ + 'entropic_risk_measure' if via == 'function' else L_ + 'EntropicRiskMeasure.forward',
                                      ['C05'], case, 'entropic risk == (1/a) log mean exp(-a(x - target)) along dim 0 for any trailing shape, through logsumexp only (no overflow)'))
    return obs


def es_obs():
    obs = []
    for rank in (1, 2):
        for via in ('function', 'module'):
            def case(rank=rank, via=via):
                import pfhedge.nn.functional as F
                import pfhedge.nn as pnn

                def run(c):
                    x = _inp(rank)
                    if via == 'function':
                        return F.expected_shortfall(x, SReal(P), dim=0)
                    return pnn.ExpectedShortfall(SReal(P))(x, SReal(tm.var('Z')))

                def ens(res, p):
                    z = tm.var('Z') if via == 'module' else tm.ZERO
                    k = tm.ceil(tm.mul(P, tm.toreal(N)))
                    if rank == 1:
                        return [('ES_p(x - z)', [], res.at(()), es_spec(lambda n: tm.sub(X1(n), z), p.ctx, k))]
                    m = p.ctx.fresh('m', 'I')
                    return [('ES_p(x[:,m] - z)', [tm.le(tm.IZERO, m), tm.lt(m, M)], res.at((m,)), es_spec(lambda n: tm.sub(X2(n, m), z), p.ctx, k))]
                cs = fc.Case(run, hyps=DIMS + [tm.gt(P, tm.ZERO), tm.le(P, tm.ONE)], ensures=ens, shape=(lambda res: ()) if rank == 1 else (lambda res: (M,)),
                             scalars=['p', 'Z'], tensors={'X': (((N,) if rank == 1 else (N, M)), 'R')}, real_snippet=REAL_RISK)
                cs.witness_extra = {'fn': 'expected_shortfall' if via == 'function' else 'ExpectedShortfall'}
                return cs
            obs.append(fc.contract_ob('RK/expected_shortfall/post[rank=%d,%s]' % (rank, via), F_ + 'expected_shortfall' if via == 'function' else L_ + 'ExpectedShortfall.forward',
                                      ['C05'], case, 'expected shortfall == minus the mean of the ceil(pN) smallest outcomes of (x - target) along dim 0'))

    def case_flat():
        import pfhedge.nn.functional as F

        def run(c):
            return F.expected_shortfall(_inp(1), SReal(P))

        def ens(res, p):
            return [('ES_p(x) (dim=None, 1-D)', [], res.at(()), es_spec(X1, p.ctx, tm.ceil(tm.mul(P, tm.toreal(N)))))]
        return fc.Case(run, hyps=DIMS + [tm.gt(P, tm.ZERO), tm.le(P, tm.ONE)], ensures=ens, shape=lambda res: ())
    obs.append(fc.contract_ob('RK/expected_shortfall/post[dim=None]', F_ + 'expected_shortfall', ['C05'], case_flat, 'expected_shortfall(x, p) on a 1-D sample == ES_p'))
    return obs


def var_obs():
    """value at risk: the three regimes."""
    def case(rank, regime):
        def build():
            import pfhedge.nn.functional as F
            k = tm.var('k', 'I')
            hy = DIMS + [tm.ge(N, tm.const(2, 'I'))]
            if regime == 'min':
                hy += [tm.gt(P, tm.ZERO), tm.le(tm.mul(P, tm.toreal(N)), tm.ONE)]
            elif regime == 'max':
                hy += [tm.le(P, tm.ONE), tm.gt(tm.mul(P, tm.toreal(N)), tm.toreal(tm.sub(N, tm.IONE)))]
            else:
                hy += [tm.eq(tm.mul(P, tm.toreal(N)), tm.toreal(k)), tm.ge(k, tm.const(2, 'I')), tm.lt(k, N)]

            def run(c):
                return F.value_at_risk(_inp(rank), SReal(P), dim=0)

            def ens(res, p):
                m = p.ctx.fresh('m', 'I')
                n = p.ctx.fresh('n', 'I')
                xf = X1 if rank == 1 else (lambda n_: X2(n_, m))
                idx = () if rank == 1 else (m,)
                rng = [] if rank == 1 else [tm.le(tm.IZERO, m), tm.lt(m, M)]
                if regime == 'min':
                    want = tm.big('bmin', n, tm.IZERO, N, xf(n))
                elif regime == 'max':
                    want = tm.big('bmax', n, tm.IZERO, N, xf(n))
                else:
                    want = tm.app('ostat_bot', tm.sub(k, tm.IONE), tm.big('bag', n, tm.IZERO, N, xf(n)))
                return [('VaR regime ' + regime, rng, res.at(idx), want)]
            cs = fc.Case(run, hyps=hy, ensures=ens, shape=(lambda res: ()) if rank == 1 else (lambda res: (M,)), max_paths=16, scalars=['p'],
                         tensors={'X': (((N,) if rank == 1 else (N, M)), 'R')},
                         real_snippet='import math\nimport pfhedge.nn.functional as F\nX=T(W["X"]); p=W["p"]\ngot=F.value_at_risk(X,p,dim=0)\n'
                                      'cols=list(zip(*W["X"])) if isinstance(W["X"][0], list) else [W["X"]]\n'
                                      'def var(c):\n    n=len(c); s=sorted(c)\n    if p<=1/n: return s[0]\n    if p>1-1/n: return s[-1]\n    k=p*n\n    return s[int(round(k))-1] if abs(k-round(k))<1e-9 else None\n'
                                      'ref=[var(c) for c in cols]\nif not isinstance(W["X"][0], list): ref=ref[0]\n'
                                      'if (ref is None) or (isinstance(ref, list) and any(r is None for r in ref)): ref=got\nresult={"got":got,"ref":ref}')
            return cs
        return build
    obs = []
    for rank in (1, 2):
        for regime in ('min', 'max', 'kth'):
            obs.append(fc.contract_ob('RK/value_at_risk/post[rank=%d,%s]' % (rank, regime), F_ + 'value_at_risk', ['C05'], case(rank, regime),
                                      {'min': 'p <= 1/N: the minimum', 'max': 'p > 1-1/N: the maximum', 'kth': 'p N = k integral: the k-th worst outcome'}[regime] + ' (along dim 0)'))
    return obs


def utility_obs():
    obs = []

    def el_case(via):
        def build():
            import pfhedge.nn as pnn
            import pfhedge.nn.functional as F

            def run(c):
                x = _inp(2)
                if via == 'loss':
                    return pnn.EntropicLoss(a=SReal(A))(x, SReal(tm.var('Z')))
                if via == 'cash':
                    return pnn.EntropicLoss(a=SReal(A)).cash(x, SReal(tm.var('Z')))
                return F.exp_utility(x, a=SReal(A))

            def ens(res, p):
                m, n = p.ctx.fresh('m', 'I'), p.ctx.fresh('n', 'I')
                rng = [tm.le(tm.IZERO, m), tm.lt(m, M)]
                y = lambda n_: tm.sub(X2(n_, m), tm.var('Z'))
                mean_exp = tm.div(tm.tsum(n, tm.IZERO, N, tm.app('exp', tm.neg(tm.mul(A, y(n))))), tm.toreal(N))
                if via == 'loss':
                    return [('-mean(-exp(-a(x-z)))', rng, res.at((m,)), mean_exp)]
                if via == 'cash':
                    return [('-(1/a) log mean exp(-a(x-z))', rng, res.at((m,)), tm.neg(tm.div(tm.app('log', mean_exp), A)))]
                q = p.ctx.fresh('q', 'I')
                return [('-exp(-a x)', rng + [tm.le(tm.IZERO, q), tm.lt(q, N)], res.at((q, m)), tm.neg(tm.app('exp', tm.neg(tm.mul(A, X2(q, m)))))) ]
            cs = fc.Case(run, hyps=DIMS + [tm.gt(A, tm.ZERO)], ensures=ens)
            if via == 'cash':
                cs.real_snippet = CASH_REPLAY.replace('result = {"got": [str(b) for b in bad], "ref": []}', 'result = {"got": [str(b) for b in bad if b[0] != "isoelastic"], "ref": []}')
                cs.battery = True
            return cs
        return build
    obs.append(fc.contract_ob('RK/exp_utility/post', F_ + 'exp_utility', ['C05'], el_case('fn'), 'exp_utility == -exp(-a x)'))
    obs.append(fc.contract_ob('RK/EntropicLoss.forward/post', L_ + 'EntropicLoss.forward', ['C05'], el_case('loss'), 'entropic loss == -mean utility of (x - target) along dim 0'))
    obs.append(fc.contract_ob('RK/EntropicLoss.cash/post', L_ + 'EntropicLoss.cash', ['C06'], el_case('cash'), 'EntropicLoss.cash == -(1/a) log mean exp(-a(x - target))'))

    def iso_case(a_val):
        def build():
            import pfhedge.nn as pnn

            def run(c):
                x = _inp(2)
                i_, j_ = c.fresh('pi', 'I'), c.fresh('pj', 'I')
                c.assume(tm.forall(i_, tm.IZERO, N, tm.forall(j_, tm.IZERO, M, tm.gt(tm.sel('X', i_, j_), tm.ZERO))))
                return pnn.IsoelasticLoss(a=a_val)(x)

            def ens(res, p):
                m, n = p.ctx.fresh('m', 'I'), p.ctx.fresh('n', 'I')
                u = tm.app('log', X2(n, m)) if a_val == 1.0 else tm.powt(X2(n, m), tm.const(1.0 - a_val))
                return [('-mean u(x)', [tm.le(tm.IZERO, m), tm.lt(m, M)], res.at((m,)), tm.neg(tm.div(tm.tsum(n, tm.IZERO, N, u), tm.toreal(N))))]
            return fc.Case(run, hyps=DIMS, ensures=ens)
        return build
    obs.append(fc.contract_ob('RK/IsoelasticLoss.forward/post[a=0.5]', L_ + 'IsoelasticLoss.forward', ['C05'], iso_case(0.5), 'isoelastic loss == -mean x^(1-a)'))
    obs.append(fc.contract_ob('RK/IsoelasticLoss.forward/post[a=1]', L_ + 'IsoelasticLoss.forward', ['C05'], iso_case(1.0), 'isoelastic loss (a=1) == -mean log x'))

    def oce_case():
        from pfhedge.nn.modules.loss import OCE
        import torch
        from pfv.torchlib.tensor import Tensor

        def util(x):
            rd = x.reader()
            return Tensor.fresh(lambda idx: tm.app('u', rd(idx)), x._shape, x.dtype, x.deps)

        def run(c):
            m_ = OCE(util)
            return m_(_inp(2), SReal(tm.var('Z'))), m_.w

        def ens(res, p):
            val, w = res
            m, n = p.ctx.fresh('m', 'I'), p.ctx.fresh('n', 'I')
            wt = w.at(())
            return [('w - mean u(x - z + w)', [tm.le(tm.IZERO, m), tm.lt(m, M)], val.at((m,)),
                     tm.sub(wt, tm.div(tm.tsum(n, tm.IZERO, N, tm.app('u', tm.add(tm.sub(X2(n, m), tm.var('Z')), wt))), tm.toreal(N))))]
        return fc.Case(run, hyps=DIMS, ensures=ens)
    obs.append(fc.contract_ob('RK/OCE.forward/post', L_ + 'OCE.forward', ['C05'], oce_case, 'OCE == w - mean u(x - target + w) for an uninterpreted utility u'))
    return obs


def ctor_obs():
    """constructors reject inadmissible parameters"""
    def mk(clsname, argname, bad_hyp, good_hyp):
        def check():
            t0 = time.time()
            import pfhedge.nn as pnn
            v_ = tm.var('param')
            for (hy, want_raise) in ((bad_hyp(v_), True), (good_hyp(v_), False)):
                paths = explore(lambda c: getattr(pnn, clsname)(SReal(v_)), hy, max_paths=8)
                ok = all((p.outcome() == 'raises:ValueError') == want_raise for p in paths) and paths
                if not ok:
                    return Verdict('refuted', 'path-exploration+z3', time.time() - t0, '%s(%s) with %s: %s' % (clsname, argname, [tm.show(h) for h in hy], [p.outcome() for p in paths]), witness={}, replay={'confirmed': False})
            return Verdict('proved', 'path-exploration+z3', time.time() - t0, '', sample={'claim': '%s rejects inadmissible %s' % (clsname, argname)})
        return Obligation('RK/%s.__init__/raises' % clsname, 'raises', L_ + clsname + '.__init__', check, ['C05'], clause='%s raises ValueError exactly for inadmissible %s' % (clsname, argname))
    return [
        mk('EntropicRiskMeasure', 'a', lambda v: [tm.le(v, tm.ZERO)], lambda v: [tm.gt(v, tm.ZERO)]),
        mk('ExpectedShortfall', 'p', lambda v: [tm.or_(tm.le(v, tm.ZERO), tm.gt(v, tm.ONE))], lambda v: [tm.gt(v, tm.ZERO), tm.le(v, tm.ONE)]),
        mk('QuadraticCVaR', 'lam', lambda v: [tm.lt(v, tm.ONE)], lambda v: [tm.ge(v, tm.ONE)]),
        mk('IsoelasticLoss', 'a', lambda v: [tm.or_(tm.le(v, tm.ZERO), tm.gt(v, tm.ONE))], lambda v: [tm.gt(v, tm.ZERO), tm.le(v, tm.ONE)]),
    ]


# ------------------------------------------------------------------ quadratic CVaR

QCVAR_REPLAY = '''
import pfhedge.nn.functional as F
x = T(W["x"]); lam = W["lam"]
got = float(F.quadratic_cvar(x, lam))
w = torch.linspace(-float(x.abs().max()) - 2.0 / lam - 1.0, float(x.abs().max()) + 1.0, 2000001, dtype=torch.float64)
vals = w + lam * torch.relu(-w[:, None] - x[None, :]).square().mean(1)
ref = float(vals.min())
result = {"got": got, "ref": ref}
'''


def qobj_term(w, xf, n=None):
    """G(w) = w + lam (1/N) sum_n max(-w - x_n, 0)^2 : the objective whose minimum over w is the quadratic CVaR"""
    n = n or tm.var('nq', 'I')
    return tm.add(w, tm.mul(LAM, tm.div(tm.tsum(n, tm.IZERO, N, tm.powt(tm.tmax(tm.sub(tm.neg(w), xf(n)), tm.ZERO), tm.const(2, 'I'))), tm.toreal(N))))


def qcvar_obs():
    obs = []

    def capture(Nc, lam_sym=True):
        """run the real quadratic_cvar on a (Nc,) sample with bisect captured at its call site"""
        import torch
        import pfhedge.nn.functional as F
        from pfv.torchlib.tensor import Tensor
        seen = {}

        def stub(fn=None, target=None, lower=None, upper=None, precision=None, max_iter=None):
            seen.update(fn=fn, target=target, lower=lower, upper=upper, precision=precision)
            r = Tensor.input('omega', lower._shape, lower.dtype, origin='fresh')
            return r

        def run(c):
            old = F.bisect
            F.bisect = stub
            try:
                x = Tensor.input('X', (Nc,), torch.float64)
                res = F.quadratic_cvar(x, SReal(LAM) if lam_sym else 10.0)
            finally:
                F.bisect = old
            return res
        paths = explore(run, [tm.ge(LAM, tm.ONE)], max_paths=16)
        return paths, seen

    def callsite_check():
        t0 = time.time()
        Nc = 3
        try:
            paths, seen = capture(Nc)
        except Unsupported as e:
            return Verdict('unknown', 'engine', time.time() - t0, 'out of reach: %s' % e)
        rets = [p for p in paths if p.outcome() == 'returns']
        if len(rets) != len(paths) or not seen:
            return Verdict('unknown', 'engine', time.time() - t0, str([(p.outcome(), str(p.exception)[:200], p.traceback[-400:]) for p in paths]))
        p = rets[0]
        facts = p.facts([tm.ge(LAM, tm.ONE)])
        lo, up, tgt, fn = seen['lower'], seen['upper'], seen['target'], seen['fn']
        z = (tm.IZERO,)
        from pfv.proxies import with_ctx
        with with_ctx(p.ctx):
            f_lo, f_up = fn(lo).at(z), fn(up).at(z)
        goals = [('bisect requires lower < upper', tm.lt(lo.at(z), up.at(z))),
                 ('bisect requires the target within the range of fn on the bracket: fn(upper) <= 1/(2 lam) <= fn(lower)', tm.and_(tm.le(f_up, tgt.at(())), tm.le(tgt.at(()), f_lo)))]
        sample = {'claim': 'pre@callsite of bisect inside quadratic_cvar', 'N': Nc}
        for (label, g) in goals:
            r = smt.prove(facts, g, timeout_ms=20000)
            if r.status == 'unsat':
                continue
            if r.status == 'sat':
                # a readable witness: the same query with moderate magnitudes (bounds added to the counterexample query only)
                caps = [tm.le(LAM, tm.const(20.0))] + [tm.and_(tm.le(tm.const(-5.0), tm.sel('X', tm.const(i, 'I'))), tm.le(tm.sel('X', tm.const(i, 'I')), tm.const(5.0))) for i in range(Nc)]
                r2 = smt.prove(facts + caps, g, timeout_ms=20000)
                if r2.status == 'sat':
                    r = r2
                xs = [float(smt.model_eval(r.model, tm.sel('X', tm.const(i, 'I'))) or 0.0) for i in range(Nc)]
                lam = float(r.model.get('lam') or 10.0)
                rr = real_exec(QCVAR_REPLAY, {'x': xs, 'lam': lam})
                conf = rr.get('ok') and abs(rr['result']['got'] - rr['result']['ref']) > 1e-4
                return Verdict('refuted', r.backend, time.time() - t0, '%s is not provable at the call site: e.g. x=%s, lam=%s -> quadratic_cvar=%s, true minimum=%s' % (
                    label, xs, lam, rr.get('result', {}).get('got'), rr.get('result', {}).get('ref')), witness={'x': xs, 'lam': lam}, sample=sample, replay={'real': rr, 'confirmed': bool(conf)})
            return Verdict('unknown', r.backend, time.time() - t0, label, sample=sample)
        return Verdict('proved', 'z3', time.time() - t0, '', sample=sample)
    obs.append(Obligation('RK/quadratic_cvar/pre@callsite[bisect]', 'pre@callsite', F_ + 'quadratic_cvar', callsite_check, ['C05', 'C04'],
                          clause='at the bisect call inside quadratic_cvar the callee\'s requires hold: lower < upper and the stationarity level 1/(2 lam) lies between fn(upper) and fn(lower)'))

    def wiring_check():
        """stationarity target and the returned value, given the root omega handed back by bisect; symbolic sample size"""
        t0 = time.time()
        try:
            paths, seen = capture(N)
        except Unsupported as e:
            return Verdict('unknown', 'engine', time.time() - t0, 'out of reach: %s' % e)
        rets = [q for q in paths if q.outcome() == 'returns']
        if len(rets) != len(paths) or not seen:
            return Verdict('unknown', 'engine', time.time() - t0, str([(q.outcome(), str(q.exception)[:200], q.traceback[-400:]) for q in paths]))
        p = rets[0]
        facts = p.facts([tm.ge(LAM, tm.ONE), tm.ge(N, tm.IONE)])
        w = tm.var('w')
        base = tm.div(tm.tsum(tm.var('nb', 'I'), tm.IZERO, N, X1(tm.var('nb', 'I'))), tm.toreal(N))
        G = lambda ww: qobj_term(ww, X1)
        # (a) fn(omega') with omega' = w + base and target encode dG/dw = 0:  dG/dw = 1 - 2 lam fn_target(w + base)
        import torch
        from pfv.torchlib.tensor import Tensor
        from pfv.proxies import with_ctx
        with with_ctx(p.ctx):
            fnw = seen['fn'](Tensor.fresh(lambda idx: tm.add(w, base), (1,), torch.float64)).at((tm.IZERO,))
        dG = D.diff(G(w), w)
        goals = [('dG/dw == 1 - 2 lam fn_target(w + mean)', dG, tm.sub(tm.ONE, tm.mul(tm.const(2, 'R'), LAM, fnw))),
                 ('target == 1/(2 lam)', seen['target'].at(()), tm.div(tm.ONE, tm.mul(tm.const(2, 'R'), LAM))),
                 ('result == G(omega - mean)  (the objective at the root found, un-centred)', p.result.at(()), G(tm.sub(tm.sel('omega', tm.IZERO), base)))]
        for (label, lhs, rhs) in goals:
            r = fc.prove_eq(facts, lhs, rhs, timeout_ms=30000)
            if r.status != 'unsat':
                w2 = None
                if r.status == 'sat':
                    cs = fc.Case(None, tensors={'X': ((N,), 'R')})
                    w2 = fc.random_refute(cs, facts, lhs, rhs)
                if w2 is None:
                    return Verdict('unknown', r.backend, time.time() - t0, 'quadratic_cvar: %s not proved (%s) and no concrete counterexample found' % (label, r.status))
                rr = real_exec(QCVAR_REPLAY, {'x': w2.get('X') or [0.0], 'lam': float(w2.get('lam', 10.0))})
                conf = rr.get('ok') and abs(rr['result']['got'] - rr['result']['ref']) > 1e-4
                return Verdict('refuted', 'concrete search after ' + r.backend, time.time() - t0, 'quadratic_cvar: %s fails: code %s vs spec %s' % (label, tm.show(lhs)[:200], tm.show(rhs)[:200]),
                               witness={'vc': label, 'x': w2.get('X'), 'lam': w2.get('lam')}, replay={'real': rr, 'confirmed': bool(conf)})
        return Verdict('proved', 'z3 (NRA) + Sigma-normaliser + symbolic differentiation', time.time() - t0, '', sample={'claim': 'stationarity condition and returned value of quadratic_cvar, symbolic N', 'goals': [g_[0] for g_ in goals]})
    obs.append(Obligation('RK/quadratic_cvar/stationarity+value', 'post', F_ + 'quadratic_cvar', wiring_check, ['C05'],
                          clause='the function bisected is the derivative condition of G(w) = w + lam mean(max(-w-x,0)^2) and the returned value is G at the root handed back by bisect (un-centred), for every sample size N and lam >= 1'))
    return obs


# ------------------------------------------------------------------ C06: cash

CASH_REPLAY = '''
import pfhedge.nn as pnn
from pfhedge.nn.modules.loss import HedgeLoss
bad = []
torch.manual_seed(0)
samples = {"large level, tight spread": 300.0 + torch.rand(60, dtype=torch.float64) * 0.0025, "random": torch.randn(50, dtype=torch.float64) * 0.3 + 2.0, "ties": T([1.0, 1.0, 2.0, 2.0, 3.0]), "constant": torch.full((7,), 2.0, dtype=torch.float64),
           "two-columns": torch.rand(30, 2, dtype=torch.float64) + 1.0}
class RiskSeeking(HedgeLoss):            # user criterion on the default search: minus the mean of a CONVEX increasing utility, cash = log E exp(x) >= mean
    def forward(self, input, target=0.0): return -(input - target).exp().mean(0)
for name, crit in (("entropic_risk", pnn.EntropicRiskMeasure(2.0)), ("entropic_loss", pnn.EntropicLoss(2.0)), ("expected_shortfall", pnn.ExpectedShortfall(0.3)), ("isoelastic", pnn.IsoelasticLoss(0.5)), ("user: risk seeking", RiskSeeking())):
    for sname, x in samples.items():
        if sname.startswith("large level") and name.startswith("user"): continue        # exp(300): the search precision 1e-6 is a relative error 1e-6 of the criterion
        try:
            c = crit.cash(x)
            const = torch.ones_like(x) * c
            if not torch.allclose(crit(const), crit(x), atol=1e-5, rtol=1e-9): bad.append((name, sname, "criterion(cash) != criterion(sample)"))
            if (c < x.min(0).values - 1e-6).any() or (c > x.max(0).values + 1e-6).any(): bad.append((name, sname, "cash outside [min,max]"))
        except Exception as e:
            bad.append((name, sname, type(e).__name__))
result = {"got": [str(b) for b in bad], "ref": []}
'''


def _replay_cash():
    r = real_exec(CASH_REPLAY, {}, timeout=300)
    # the default search on a constant sample / a sample with trailing dimensions is the recorded finding D8 (its own obligation): not counted as confirmation here
    d8 = lambda b: (b.startswith("('isoelastic'") or b.startswith("('user: risk seeking'")) and ("'constant'" in b or "'two-columns'" in b)
    ok = r.get('ok') and [b for b in r['result']['got'] if not d8(b)] == []
    return {'real': r, 'confirmed': not ok, 'note': 'replay: criterion(constant cash) == criterion(sample), min <= cash <= max on random / tied / constant / two-column samples, incl. a risk-seeking user criterion on the default search (entries of finding D8 ignored)'}


CASH_TARGET_REPLAY = '''
import pfhedge.nn as pnn
from pfhedge.nn.modules.loss import HedgeLoss
class RiskSeeking(HedgeLoss):            # user criterion on the default search: minus the mean of a CONVEX increasing utility, cash = log E exp(x) >= mean
    def forward(self, input, target=0.0): return -(input - target).exp().mean(0)
bad = []
torch.manual_seed(1)
x = torch.rand(40, dtype=torch.float64) + 3.0
for crit in (pnn.IsoelasticLoss(0.5), pnn.IsoelasticLoss(1.0), RiskSeeking()):
    for tgt in (0.0, 0.05, 2.5, torch.rand(40, dtype=torch.float64) * 2):
        c = crit.cash(x, tgt)
        pl = x - tgt
        if not torch.allclose(crit(torch.full_like(pl, float(c))), crit(pl), atol=1e-5): bad.append(("not a certainty equivalent", str(tgt)[:20]))
        if c < pl.min() - 1e-6 or c > pl.max() + 1e-6: bad.append(("outside [min,max] of input-target", str(tgt)[:20]))
result = {"got": [str(b) for b in bad], "ref": []}
'''


def _replay_cash_target():
    r = real_exec(CASH_TARGET_REPLAY, {}, timeout=300)
    ok = r.get('ok') and r['result']['got'] == []
    return {'real': r, 'confirmed': not ok, 'note': 'replay: default cash() (isoelastic losses and a risk-seeking user criterion) with zero, scalar and tensor targets'}


def cash_obs():
    obs = []

    def equiv_case(crit):
        """criterion(full_like(x, cash(x))) == criterion(x) and wiring of target"""
        def build():
            import torch
            import pfhedge.nn as pnn

            def run(c):
                x = _inp(2)
                z = SReal(tm.var('Z'))
                m_ = {'entropic_risk': lambda: pnn.EntropicRiskMeasure(a=SReal(A)), 'entropic_loss': lambda: pnn.EntropicLoss(a=SReal(A)),
                      'expected_shortfall': lambda: pnn.ExpectedShortfall(SReal(P)), 'quadratic_cvar': None}[crit]()
                cash = m_.cash(x, z)
                const = torch.ones_like(x) * cash
                return m_(const), m_(x, z), cash
            hy = DIMS + [tm.gt(A, tm.ZERO), tm.gt(P, tm.ZERO), tm.le(P, tm.ONE)]

            def ens(res, p):
                lc, lx, cash = res
                m = p.ctx.fresh('m', 'I')
                return [('criterion(constant cash) == criterion(x - target)', [tm.le(tm.IZERO, m), tm.lt(m, M)], lc.at((m,)), lx.at((m,)))]
            cs = fc.Case(run, hyps=hy, ensures=ens, real_snippet=CASH_REPLAY.replace('result = {"got": [str(b) for b in bad], "ref": []}', 'result = {"got": [str(b) for b in bad if b[0] not in ("isoelastic", "user: risk seeking")], "ref": []}'))
            cs.battery = True
            return cs
        return build
    for crit in ('entropic_risk', 'entropic_loss', 'expected_shortfall'):
        obs.append(fc.contract_ob('RK/%s.cash/certainty-equivalent' % crit, L_ + 'HedgeLoss.cash', ['C06'], equiv_case(crit),
                                  'the %s of a constant sample at the cash amount equals the %s of (sample - target), for any trailing shape' % (crit, crit)))

    def qcvar_cash():
        t0 = time.time()
        import pfhedge.nn as pnn
        import torch
        from pfv.torchlib.tensor import Tensor
        seen = []

        def run(c):
            m_ = pnn.QuadraticCVaR(10.0)
            real_fwd = type(m_).forward

            def fwd(input, target=0.0):
                seen.append((input, target))
                return Tensor.input('risk', (), torch.float64)
            object.__setattr__(m_, 'forward', fwd)
            x = _inp(1)
            return m_.cash(x, SReal(tm.var('Z'))), x
        del seen[:]
        p = explore(run, DIMS, max_paths=4)[0]
        if p.outcome() != 'returns':
            return Verdict('unknown', 'engine', time.time() - t0, str((p.outcome(), p.exception, p.traceback[-300:])))
        cash, x = p.result
        n = tm.var('n', 'I')
        inp, tgt = seen[-1]
        ok1 = smt.prove([], tm.eq(cash.at(()), tm.neg(tm.var('risk'))), timeout_ms=5000).status == 'unsat'
        tgt_t = lift(tgt) if not hasattr(tgt, 'at') else tgt.at(())
        ok2 = smt.prove(DIMS + [tm.le(tm.IZERO, n), tm.lt(n, N)], tm.eq(tm.sub(inp.at((n,)), tm.toreal(tgt_t)), tm.sub(tm.sel('X', n), tm.var('Z'))), timeout_ms=5000).status == 'unsat'
        if ok1 and ok2:
            return Verdict('proved', 'z3', time.time() - t0, '', sample={'claim': 'QuadraticCVaR.cash == -risk(input - target)'})
        return Verdict('refuted', 'z3', time.time() - t0, 'QuadraticCVaR.cash is not minus the risk of (input - target)', witness={}, replay={'confirmed': False})
    obs.append(Obligation('RK/QuadraticCVaR.cash/post', 'post', L_ + 'QuadraticCVaR.cash', qcvar_cash, ['C06'], clause='for quadratic CVaR the cash amount is minus the risk of (input - target)'))

    def default_cash_callsite():
        """HedgeLoss.cash (default search): requires of bisect at the call site"""
        t0 = time.time()
        import torch
        import pfhedge.nn as pnn
        import pfhedge.nn.modules.loss as lossmod
        from pfv.torchlib.tensor import Tensor
        seen = {}

        def stub(fn, target, lower, upper, precision=None, max_iter=None):
            seen.update(fn=fn, target=target, lower=lower, upper=upper)
            return Tensor.input('cashroot', lower._shape, lower.dtype, origin='fresh')
        results = {}
        for shape_kind in ('1-D', '2-D'):
            def run(c):
                old = lossmod.bisect
                lossmod.bisect = stub
                try:
                    x = _inp(1 if shape_kind == '1-D' else 2)
                    i_ = c.fresh('pi', 'I')
                    j_ = c.fresh('pj', 'I')
                    c.assume(tm.forall(i_, tm.IZERO, N, tm.gt(tm.sel('X', i_), tm.ZERO)) if shape_kind == '1-D' else
                             tm.forall(i_, tm.IZERO, N, tm.forall(j_, tm.IZERO, M, tm.gt(tm.sel('X', i_, j_), tm.ZERO))))
                    return pnn.IsoelasticLoss(0.5).cash(x)
                finally:
                    lossmod.bisect = old
            try:
                paths = explore(run, DIMS, max_paths=8)
            except Unsupported as e:
                return Verdict('unknown', 'engine', time.time() - t0, 'out of reach: %s' % e)
            p = paths[0]
            if p.outcome() != 'returns':
                return Verdict('unknown', 'engine', time.time() - t0, str((p.outcome(), str(p.exception)[:200], p.traceback[-400:])))
            facts = p.facts(DIMS)
            lo, up = seen['lower'], seen['upper']
            r1 = smt.prove(facts, tm.lt(lo.at(()), up.at(())), timeout_ms=20000)
            # fn element-wise on tensors shaped like target: target has the trailing shape, lower/upper are 0-d
            same_shape = len(seen['target']._shape) == len(lo._shape)
            results[shape_kind] = (r1.status, same_shape)
        bad = []
        if results['1-D'][0] != 'unsat':
            bad.append('lower < upper is not provable (constant sample: lower == upper -> ValueError)')
        if not results['2-D'][1]:
            bad.append('for a multi-column sample the bracket (scalar min/max) and fn (reduces dim 0 of the candidate) are not element-wise over the target\'s shape')
        if bad:
            rp = _replay_cash()
            return Verdict('refuted', 'z3 + structural', time.time() - t0, 'default cash(): ' + '; '.join(bad), witness={'findings': bad}, replay=rp,
                           sample={'claim': 'pre@callsite of bisect inside HedgeLoss.cash', 'results': {k_: str(v_) for k_, v_ in results.items()}})
        return Verdict('proved', 'z3 + structural', time.time() - t0, '', sample={'claim': 'pre@callsite of bisect inside HedgeLoss.cash'})
    def default_cash_wiring():
        """the default search is run on (input - target): bracket = [min, max] of it, target level = criterion(input - target), function = the criterion"""
        t0 = time.time()
        import pfhedge.nn as pnn
        import pfhedge.nn.modules.loss as lossmod
        from pfv.torchlib.tensor import Tensor
        import torch
        seen = {}

        def stub(fn, target, lower, upper, precision=None, max_iter=None):
            seen.update(fn=fn, target=target, lower=lower, upper=upper)
            return Tensor.input('cashroot', lower._shape, lower.dtype, origin='fresh')

        def run(c):
            old = lossmod.bisect
            lossmod.bisect = stub
            try:
                x = _inp(1)
                i_ = c.fresh('pi', 'I')
                c.assume(tm.forall(i_, tm.IZERO, N, tm.gt(tm.sub(tm.sel('X', i_), tm.var('Z')), tm.ZERO)))
                m_ = pnn.IsoelasticLoss(0.5)
                return m_.cash(x, SReal(tm.var('Z'))), m_, m_(x, SReal(tm.var('Z')))
            finally:
                lossmod.bisect = old
        p = explore(run, DIMS, max_paths=8)[0]
        if p.outcome() != 'returns':
            # out of the executor's reach on this tree (e.g. an operation without a contract in the shim): the bounded replay on real torch
            # may still exhibit a failing input - reported then as a violation with that input, otherwise undecided
            rp = _replay_cash()
            if rp.get('confirmed'):
                return Verdict('refuted', 'bounded: real torch replay (symbolic route out of reach: %s)' % str(p.exception)[:80], time.time() - t0,
                               'default cash(): %s' % str(rp['real'].get('result', {}).get('got'))[:300], witness={'replay': str(rp['real'])[:300]}, replay=rp)
            return Verdict('unknown', 'engine', time.time() - t0, str((p.outcome(), str(p.exception)[:200], p.traceback[-400:])))
        res, m_, lossval = p.result
        n = tm.var('n', 'I')
        facts = p.facts(DIMS)
        y = lambda n_: tm.sub(tm.sel('X', n_), tm.var('Z'))
        k1, k2 = tm.fresh('k', 'I'), tm.fresh('k', 'I')
        goals = [('lower == min(input - target)', tm.eq(seen['lower'].at(()), tm.big('bmin', k1, tm.IZERO, N, y(k1)))),
                 ('upper == max(input - target)', tm.eq(seen['upper'].at(()), tm.big('bmax', k2, tm.IZERO, N, y(k2)))),
                 ('search level == criterion(input - target)', tm.eq(seen['target'].at(()), lossval.at(())))]
        for (label, g) in goals:
            r = fc.prove_eq(facts, g.args[0], g.args[1], timeout_ms=20000) if g.op == 'eq' else smt.prove(facts, g, timeout_ms=20000)
            if r.status != 'unsat':
                rp = _replay_cash_target()
                return Verdict('refuted' if r.status == 'sat' else 'unknown', r.backend, time.time() - t0, 'default cash(): %s fails' % label, witness={'vc': label}, replay=rp)
        if res.at(()) is not tm.sel('cashroot') and res.at(()) is not tm.var('cashroot'):
            return Verdict('refuted', 'structural', time.time() - t0, 'default cash(): the result is not the root handed back by the search', witness={}, replay=_replay_cash_target())
        if seen['fn'] is not m_:
            # not the criterion object itself: accept any function that equals the criterion on a candidate cash amount
            def run_fn(c):
                cand = Tensor.input('cand', (SInt(N),), torch.float64)          # compared as functions of an arbitrary positive sample
                i2 = c.fresh('ci', 'I')
                c.assume(tm.forall(i2, tm.IZERO, N, tm.gt(tm.sel('cand', i2), tm.ZERO)))
                return seen['fn'](cand), m_(cand)
            try:
                pf = explore(run_fn, DIMS, max_paths=4)
            except Unsupported as e:
                pf = []
            if len(pf) != 1 or pf[0].outcome() != 'returns':
                return Verdict('unknown', 'engine', time.time() - t0, 'default cash(): the searched function is not the criterion object and could not be compared with it: %s' % [(p_.outcome(), str(p_.exception)[:100]) for p_ in pf])
            g_, r_ = pf[0].result
            rr = fc.prove_eq(pf[0].facts(DIMS), g_.at(()), r_.at(()), timeout_ms=20000)
            if rr.status != 'unsat':
                return Verdict('refuted' if rr.status == 'sat' else 'unknown', rr.backend, time.time() - t0, 'default cash(): the searched function differs from the criterion: %s vs %s' % (tm.show(g_.at(()))[:150], tm.show(r_.at(()))[:150]), witness={}, replay=_replay_cash_target())
        return Verdict('proved', 'z3', time.time() - t0, '', sample={'claim': 'default cash search wiring', 'goals': [g_[0] for g_ in goals]})
    obs.append(Obligation('RK/HedgeLoss.cash/wiring', 'post', L_ + 'HedgeLoss.cash', default_cash_wiring, ['C06'],
                          clause='the default cash search inverts the criterion on [min, max] of (input - target) at the level criterion(input - target)'))
    obs.append(Obligation('RK/HedgeLoss.cash/pre@callsite[bisect]', 'pre@callsite', L_ + 'HedgeLoss.cash', default_cash_callsite, ['C06'],
                          clause='the default cash search calls bisect within its contract: lower < upper, and fn / bracket element-wise over the sample\'s trailing shape (constant and multi-column samples included)'))
    return obs


PRICE_REPLAY = '''
import pfhedge.nn as pnn
from pfhedge.instruments import BrownianStock, EuropeanOption
bad = []
for n_times in (1, 2):
    for crit in (pnn.EntropicRiskMeasure(1.0), pnn.ExpectedShortfall(0.2)):
        d = EuropeanOption(BrownianStock(sigma=0.3, dt=0.01, cost=1e-3), strike=0.98, maturity=0.05)
        d.add_clause("cap and fee", lambda dd, payoff: payoff.clamp(max=0.03) + 0.01)
        torch.manual_seed(2)
        hedger = pnn.Hedger(torch.nn.Sequential(torch.nn.Linear(2, 1), torch.nn.Tanh()), ["log_moneyness", "time_to_maturity"], criterion=crit)
        torch.manual_seed(4)
        got = hedger.price(d, n_paths=60, n_times=n_times, init_state=(1.1,))
        torch.manual_seed(4)
        vals = []
        with torch.no_grad():
            for _ in range(n_times):
                d.simulate(n_paths=60, init_state=(1.1,))
                vals.append(-crit.cash(hedger.compute_portfolio(d), target=d.payoff()))
        ref = sum(vals) / n_times
        if got.requires_grad: bad.append((n_times, type(crit).__name__, "price carries a graph"))
        if not torch.allclose(got, ref, atol=1e-7): bad.append((n_times, type(crit).__name__, "price %.6f, minus the cash of (portfolio, target = payoff with clauses) %.6f" % (float(got), float(ref))))
# a derivative on two underliers priced with the default hedge (hedge=None): all its underliers, exactly as compute_portfolio uses
d2 = EuropeanOption(BrownianStock(sigma=0.3, dt=0.01), strike=1.0, maturity=0.04)
d2.register_underlier("second", BrownianStock(sigma=0.2, dt=0.01, cost=1e-3))
torch.manual_seed(6)
h2 = pnn.Hedger(torch.nn.Sequential(torch.nn.Linear(2, 2), torch.nn.Tanh()), ["log_moneyness", "time_to_maturity"], criterion=pnn.EntropicRiskMeasure(1.0))
try:
    torch.manual_seed(7); got = h2.price(d2, n_paths=40)
    torch.manual_seed(7)
    with torch.no_grad():
        d2.simulate(n_paths=40); ref = -h2.criterion.cash(h2.compute_portfolio(d2), target=d2.payoff())
    if not torch.allclose(got, ref, atol=1e-7): bad.append(("two underliers, default hedge", "price %.6f vs %.6f" % (float(got), float(ref))))
except Exception as e:
    bad.append(("two underliers, default hedge", type(e).__name__ + ": " + str(e)[:100]))
result = {"got": [str(b) for b in bad], "ref": []}
'''


def _replay_price():
    r = real_exec(PRICE_REPLAY, {}, timeout=300)
    ok = r.get('ok') and r['result']['got'] == []
    return {'real': r, 'confirmed': not ok, 'note': 'replay: Hedger.price vs an explicit simulate / compute_portfolio / cash(target = payoff()) loop under the same seed: payoff clause, transaction cost, init_state, n_times in {1,2}'}


def price_obs():
    """Hedger.price == -mean_k cash(portfolio, target=payoff) on fresh paths, no graph."""
    def check():
        t0 = time.time()
        import torch
        import pfhedge.nn as pnn
        from pfhedge.nn.modules.loss import HedgeLoss
        from pfv.torchlib.tensor import Tensor
        from contracts import hedging as Hh, training as TR
        Tc = 3
        old = Hh._set_T(Tc)
        calls = []
        try:
            class Crit(HedgeLoss):
                def forward(self, input, target=0.0):
                    raise AssertionError('price must use cash(), not forward()')

                def cash(self, input, target=0.0):
                    calls.append((input, target, ctx().grad_enabled))
                    return Tensor.input('cash%d' % len(calls), (), torch.float64, origin='fresh')
            for (n_times, n_ul) in ((1, 1), (2, 1), (1, 2)):
                def run(c):
                    del calls[:]
                    d = TR.mk_sim_derivative(Tc, cost=SReal(tm.var('c1')))
                    if n_ul == 2:
                        # a derivative on two underliers priced with the DEFAULT hedge (hedge=None): all of its underliers, as compute_portfolio uses
                        d.register_underlier('second', type(d.ul())(sigma=SReal(Hh.SIGMA), dt=SReal(Hh.DT), dtype=torch.float64, cost=SReal(tm.var('c2'))))
                    d.add_clause('shift', lambda dd, payoff: payoff + SReal(tm.var('kk')))
                    hedger = pnn.Hedger(Hh.UserModel.make(n_ul), ['log_moneyness', 'time_to_maturity'], criterion=Crit())
                    r = hedger.price(d, n_paths=SInt(TR.NP), n_times=n_times, init_state=(SReal(tm.var('s0')),))
                    sims = [e for e in c.events if e[0] == 'simulate']
                    # what the cash was computed from, on the paths of the LAST simulation
                    portfolio = hedger.compute_portfolio(d)
                    payoff = d.payoff()
                    return r, list(calls), sims, portfolio, payoff
                paths = explore(run, Hh.DIMS + [tm.ge(TR.NP, tm.IONE), tm.ge(tm.var('c1'), tm.ZERO), tm.ge(tm.var('c2'), tm.ZERO), tm.gt(tm.var('M'), tm.ZERO)], max_paths=8)
                if len(paths) != 1 or paths[0].outcome() != 'returns':
                    # an exception raised by pfhedge's own code (not by the torch shim) where the contract says `price` returns
                    own = [p for p in paths if p.outcome().startswith('raises:') and '/pfhedge/' in (p.traceback or '')[-900:] and 'torchlib' not in (p.traceback or '')[-400:]]
                    if own:
                        rp = _replay_price()
                        if rp.get('confirmed'):
                            return Verdict('refuted', 'path-exploration', time.time() - t0, 'price(n_times=%d, %d underlier(s), default hedge) raises %s' % (n_times, n_ul, str(own[0].exception)[:200]),
                                           witness={'n_times': n_times, 'underliers': n_ul}, replay=rp)
                    return Verdict('unknown', 'engine', time.time() - t0, str([(p.outcome(), str(p.exception)[:200], p.traceback[-500:]) for p in paths]))
                r, cs, sims, portfolio, payoff = paths[0].result
                p = paths[0]
                want = tm.neg(tm.div(tm.add(*[tm.var('cash%d' % (j + 1)) for j in range(n_times)]), tm.const(n_times, 'R'))) if n_times > 1 else tm.neg(tm.var('cash1'))
                n = tm.var('n', 'I')
                facts = p.facts(Hh.DIMS + [tm.ge(TR.NP, tm.IONE)]) + [tm.le(tm.IZERO, n), tm.lt(n, TR.NP)]
                inp, tgt, gm = cs[-1]
                ok = (len(cs) == n_times and all(not g for _, _, g in cs) and not r.deps
                      and smt.prove(facts, tm.eq(r.at(()), want), timeout_ms=5000).status == 'unsat'
                      and all(lift(e[2]) is TR.NP for e in sims) and len(sims) == n_times * n_ul
                      and fc.prove_eq(facts, inp.at((n,)), portfolio.at((n,)), timeout_ms=20000).status == 'unsat'
                      and fc.prove_eq(facts, tgt.at((n,)), payoff.at((n,)), timeout_ms=20000).status == 'unsat')
                if not ok:
                    return Verdict('refuted', 'z3 + ghost events', time.time() - t0, 'price(n_times=%d): %d cash calls, %d simulations, grad modes %s, value %s' % (n_times, len(cs), len(sims), [g for _, _, g in cs], tm.show(r.at(()))[:200]),
                                   witness={'n_times': n_times}, replay=_replay_price())
        finally:
            Hh._set_T(old)
        return Verdict('proved', 'z3 + ghost events', time.time() - t0, '', sample={'claim': 'price == -mean over n_times of criterion.cash(compute_portfolio, target=payoff with clauses) on freshly simulated paths, without a graph'})
    return [Obligation('RK/Hedger.price/post', 'post', 'pfhedge.nn.modules.hedger.Hedger.price', check, ['C06'],
                       clause='price == minus the (ensemble mean of the) cash amount of (hedge portfolio, target = payoff incl. clauses) on freshly simulated paths, evaluated without gradients')]


def c05_obligations(seed, tier='quick'):
    return entropic_obs() + es_obs() + var_obs() + utility_obs()[:2] + utility_obs()[3:] + ctor_obs() + qcvar_obs()


def c06_obligations(seed, tier='quick'):
    from contracts import training as TR
    return [utility_obs()[2]] + cash_obs() + price_obs() + [TR.n_times_wiring_ob('price'), TR.ensemble_mean_loop_ob(props=('C06',))]
