"""C14 - loss gradients through the hedger are the true gradients (graph connectivity as ghost state)."""
from contracts import training

PROP = 'C14'


def build(tier, seed):
    from pfv.torchlib import import_pfhedge
    import_pfhedge()
    obs = training.c14_obligations(seed, tier)
    from contracts import hedging
    obs += [hedging.hedge_param_history_ob(False), hedging.hedge_param_history_ob(True)]
    return {'obligations': obs, 'functions': training.FUNCTIONS,
            'assumptions': [
                'ASSUMED autograd contract (A3): backward() of a recorded graph of differentiable primitives computes the derivative of the function the graph denotes, at points where each primitive is differentiable; numerical agreement with finite differences is then a consequence and is not seen by the solver',
                'what IS decided: the loss value returned by compute_loss is graph-connected to every model parameter and no parameter-dependent sub-term of it is cut from the graph (detach, .item(), tensor(), no_grad region), through the feature path, the recurrent prev_hedge input (same graph node as the previous output, fresh leaf at step 0), gains, costs, payoff subtraction and each criterion; evaluation-only quantities carry no graph',
                'bisect inside quadratic_cvar is replaced by its contract stub (a root connected to the bracket built from the input); the envelope argument (dQ/d omega = 0 at the root) is not mechanised',
                'not covered: a primitive with a wrong custom backward; NaN gradients at non-generic points; H >= 2 in the training scenarios (the hedge/P&L code is the same code verified for H in C01/C02)',
            ],
            'level': 'proof', 'trusted_base': ['autograd contract (assumed)', 'pfv executor: deps propagation + stopgrad markers in the torch shim'],
            'note': 'proof of connectivity / no-cut under the assumed autograd contract, for 6 criteria x {stateless, prev_hedge} + eval mode + second consecutive call; symbolic batch size, T = 3.'}
