"""Contracts of the path generators (pfhedge.stochastic), shared by C10 and C11.

Random sources are ASSUMED contracts of torch (A3): randn / engine(...) i.i.d. N(0,1) named Z<k>(n,t),
rand_like U<k> in [0, 1 - eps], Poisson counts Pois<k> >= 0.  "Given the engine's normals" means: as a
function of those named inputs.  Generators with a time recursion (CIR, Vasicek, Heston, local
volatility) are verified through their loop, cut mechanically by an invariant (pfv/cutloops.py)."""
import time

from pfv import terms as tm
from pfv import smt, fc, cutloops
from pfv.framework import Obligation, Verdict, real_exec
from pfv.proxies import explore, SReal, SInt, Unsupported, ctx, lift
import functools as _ft
_explore_raw = explore
explore = _ft.partial(_explore_raw, enforce_bounds=True)     # shim range assumptions (slices / indices) must be provable on every returning path

N, T = tm.var('N', 'I'), tm.var('T', 'I')
DIMS = [tm.ge(N, tm.IONE), tm.ge(T, tm.IONE)]
S_ = 'pfhedge.stochastic.'
FUNCTIONS = [S_ + 'brownian.generate_brownian', S_ + 'brownian.generate_geometric_brownian', S_ + 'cir.generate_cir', S_ + 'cir._get_epsilon', S_ + 'heston.generate_heston',
             S_ + 'heston.SpotVarianceTuple.volatility', S_ + 'vasicek.generate_vasicek', S_ + 'merton_jump.generate_merton_jump', S_ + 'kou_jump.generate_kou_jump',
             S_ + 'rough_bergomi.generate_rough_bergomi', S_ + 'local_volatility.generate_local_volatility_process', S_ + 'local_volatility.LocalVolatilityTuple.variance',
             S_ + '_utils.cast_state', S_ + 'random.randn_antithetic']
V = {n: tm.var(n) for n in ('x0', 'mu', 'sigma', 'dt', 'kappa', 'theta', 'rho', 'v0', 'lam', 'jm', 'js')}


def _scalar0(term):
    """an initial state passed as a bare 0-dim tensor instead of a tuple (cast_state accepts both)"""
    import torch
    from pfv.torchlib.tensor import Tensor
    return Tensor.fresh(lambda idx: term, (), torch.float64)


def _assume_u(c, name, shape):
    """assumed contract of rand_like: 0 <= U <= 1 - eps (float uniform generators never return 1)"""
    i_, j_ = c.fresh('ui', 'I'), c.fresh('uj', 'I')
    eps = tm.const(2.0 ** -24)
    c.assume(tm.forall(i_, tm.IZERO, shape[0], tm.forall(j_, tm.IZERO, shape[1], tm.and_(tm.ge(tm.sel(name, i_, j_), tm.ZERO), tm.le(tm.sel(name, i_, j_), tm.sub(tm.ONE, eps))))))


def _check_common(p, res, hyps, want_first, positive=None, nonneg=False, label=''):
    """shape (N,T); first column; positivity; guard-aware definedness of the result term"""
    from pfv.torchlib.tensor import ti
    facts = p.facts(hyps)
    n, j = tm.var('n', 'I'), tm.var('j', 'I')
    rng = [tm.le(tm.IZERO, n), tm.lt(n, N), tm.le(tm.IZERO, j), tm.lt(j, T)]
    out = []
    if len(res._shape) != 2:
        return [('shape', 'refuted', 'rank %d' % len(res._shape))]
    goals = [('shape (n_paths, n_steps)', tm.and_(tm.eq(ti(res._shape[0]), N), tm.eq(ti(res._shape[1]), T)), [])]
    if want_first is not None:
        goals.append(('first column == initial state', tm.eq(res.at((n, tm.IZERO)), want_first), rng))
    el = res.at((n, j))
    if positive:
        goals.append(('values > 0', tm.gt(el, tm.ZERO), rng))
    if nonneg:
        goals.append(('values >= 0', tm.ge(el, tm.ZERO), rng))
    for (lab, g, extra) in goals:
        r = smt.prove(facts + extra, g, timeout_ms=30000)
        out.append((label + lab, {'unsat': 'proved', 'sat': 'refuted'}.get(r.status, 'unknown'), r.reason if r.status != 'unsat' else ''))
    for (g, kind, cond) in tm.partial_ops(el):
        r = smt.prove(facts + rng + [g], cond, timeout_ms=20000)
        out.append((label + 'defined: %s' % kind, {'unsat': 'proved', 'sat': 'unknown'}.get(r.status, 'unknown'), tm.show(cond)[:200] if r.status != 'unsat' else ''))
    return out


GEN_REPLAY = '''
import pfhedge.stochastic as ps
torch.manual_seed(3)
bad = []
def chk(name, out, n, t, first, positive=False, nonneg=False, dtype=None):
    for k, x in enumerate(out if isinstance(out, tuple) else (out,)):
        if tuple(x.shape) != (n, t): bad.append((name, "shape", tuple(x.shape)))
        if not torch.isfinite(x).all(): bad.append((name, "non-finite"))
        if dtype is not None and x.dtype != dtype: bad.append((name, "dtype", str(x.dtype)))
        if first is not None and not torch.allclose(x[:, 0], torch.full_like(x[:, 0], first[k]), rtol=1e-6): bad.append((name, "first column", float(x[0, 0]), first[k]))
    x = out[0] if isinstance(out, tuple) else out
    if positive and not (x > 0).all(): bad.append((name, "not positive"))
    if nonneg and not (x >= 0).all(): bad.append((name, "negative"))
for dtype in (torch.float32, torch.float64):
    for (n, t) in ((1, 1), (3, 2), (4, 7)):
        kw = dict(dtype=dtype)
        chk("brownian", ps.generate_brownian(n, t, init_state=(0.3,), mu=0.1, dt=0.02, **kw), n, t, (0.3,), dtype=dtype)
        chk("gbm", ps.generate_geometric_brownian(n, t, init_state=(2.5,), mu=0.1, dt=0.02, **kw), n, t, (2.5,), positive=True, dtype=dtype)
        chk("cir", ps.generate_cir(n, t, init_state=(0.09,), sigma=2.0, kappa=0.5, theta=0.01, dt=0.1, **kw), n, t, (0.09,), nonneg=True, dtype=dtype)
        chk("heston", tuple(ps.generate_heston(n, t, init_state=(2.5, 0.09), dt=0.02, **kw)), n, t, (2.5, 0.09), positive=True, dtype=dtype)
        chk("vasicek", ps.generate_vasicek(n, t, init_state=(0.01,), dt=0.02, **kw), n, t, (0.01,), dtype=dtype)
        chk("merton", ps.generate_merton_jump(n, t, init_state=(2.5,), dt=0.02, **kw), n, t, (2.5,), positive=True, dtype=dtype)
        chk("kou", ps.generate_kou_jump(n, t, init_state=(2.5,), dt=0.02, jump_up_prob=0.3, **kw), n, t, (2.5,), positive=True, dtype=dtype)
        chk("localvol", tuple(ps.generate_local_volatility_process(n, t, lambda tt, s: 0.2 + 0.1 * (s - 1).abs(), init_state=(2.5,), dt=0.02, **kw))[:1], n, t, (2.5,), dtype=dtype)
        if t >= 2:
            chk("rough_bergomi", tuple(ps.generate_rough_bergomi(n, t, init_state=(2.5, 0.09), dt=0.02, **kw)), n, t, (2.5, 0.09), positive=True, dtype=dtype)
for z in (0.0, 0.25):                 # initial state given as a bare scalar / one-element tuple, including the falsy value 0
    for st in (z, (z,)):
        chk("brownian init_state=%r" % (st,), ps.generate_brownian(3, 4, init_state=st, dt=0.02, dtype=torch.float64), 3, 4, (z,))
        chk("vasicek init_state=%r" % (st,), ps.generate_vasicek(3, 4, init_state=st, dt=0.02, dtype=torch.float64), 3, 4, (z,))
        chk("cir init_state=%r" % (st,), ps.generate_cir(3, 4, init_state=st, dt=0.02, dtype=torch.float64), 3, 4, (z,), nonneg=True)
# local volatility that depends on time only (a 0-dim / scalar sigma), several paths: both series are (n_paths, n_steps)
for sig in (lambda tt, s_: 0.2 + 0.1 * tt, lambda tt, s_: torch.as_tensor(0.25), lambda tt, s_: 0.2):
    o = ps.generate_local_volatility_process(3, 5, sig, init_state=(2.5,), dt=0.02, dtype=torch.float64)
    for k_, x_ in enumerate(o):
        if tuple(x_.shape) != (3, 5): bad.append(("localvol, time-only sigma_fn", "series %d has shape %s" % (k_, tuple(x_.shape))))
# long horizons (beyond a thousand steps): shape, first column, finiteness, sign
for (gname, fn, first, pos) in (("rough_bergomi", lambda: tuple(ps.generate_rough_bergomi(2, 1100, init_state=(2.5, 0.09), dt=0.001, dtype=torch.float64)), (2.5, 0.09), True),
                               ("heston", lambda: tuple(ps.generate_heston(2, 1100, init_state=(2.5, 0.09), dt=0.001, dtype=torch.float64)), (2.5, 0.09), True),
                               ("cir", lambda: ps.generate_cir(2, 1100, init_state=(0.09,), dt=0.001, dtype=torch.float64), (0.09,), False),
                               ("kou", lambda: ps.generate_kou_jump(2, 1100, init_state=(2.5,), dt=0.001, dtype=torch.float64), (2.5,), True)):
    chk(gname + " (1100 steps)", fn(), 2, 1100, first, positive=pos, nonneg=not pos, dtype=torch.float64)
# requested dtype honoured for every floating dtype under both global defaults (values are not compared here)
gens = {"brownian": lambda **k: ps.generate_brownian(3, 4, **k), "gbm": lambda **k: ps.generate_geometric_brownian(3, 4, **k), "cir": lambda **k: ps.generate_cir(3, 4, **k),
        "heston": lambda **k: ps.generate_heston(3, 4, **k).spot, "vasicek": lambda **k: ps.generate_vasicek(3, 4, **k), "merton": lambda **k: ps.generate_merton_jump(3, 4, **k),
        "kou": lambda **k: ps.generate_kou_jump(3, 4, **k), "localvol": lambda **k: ps.generate_local_volatility_process(3, 4, lambda tt, s_: 0.2 + 0.0 * s_, **k)[0],
        "rough_bergomi": lambda **k: ps.generate_rough_bergomi(3, 4, **k).spot}
for default in (torch.float32, torch.float64):
    torch.set_default_dtype(default)
    try:
        for D in (torch.float16, torch.bfloat16, torch.float32, torch.float64):
            for gname, g in gens.items():
                try:
                    o = g(dtype=D)
                except Exception as e:
                    if "not implemented for" in str(e) or "Half" in str(e) or "BFloat16" in str(e): continue       # torch has no kernel for this dtype on CPU
                    bad.append((gname, "dtype=%s under default %s" % (D, default), type(e).__name__)); continue
                if o.dtype != D: bad.append((gname, "requested %s under default %s" % (D, default), "got %s" % o.dtype))
    finally:
        torch.set_default_dtype(torch.float32)
h = ps.generate_heston(5, 6, dtype=torch.float64)
if not torch.allclose(h.volatility, h.variance.clamp(min=0).sqrt()): bad.append("heston volatility != sqrt(variance)")
result = {"got": [str(b) for b in bad][:12], "ref": []}
'''


def _replay_gen():
    r = real_exec(GEN_REPLAY, {}, timeout=600)
    ok = r.get('ok') and r['result']['got'] == []
    return {'real': r, 'confirmed': not ok, 'note': 'replay: real generators for (n_paths, n_steps) in {(1,1),(3,2),(4,7)}, non-default initial states (tuples and bare scalars, incl. 0), float32/float64: shape, first column, finiteness, sign, dtype; the requested dtype (float16, bfloat16, float32, float64) under both global default dtypes; time-only local volatility with several paths; horizons of 1100 steps'}


LAW = '[law] '


def _select(rows, aspect):
    """rows tagged '[law]' state the law of the model (C10); the others are well-formedness rows (C11).
    An obligation built for one property decides on its own rows only."""
    if aspect == 'law':
        return [r for r in rows if LAW in r[0]]
    if aspect == 'wf':
        return [r for r in rows if LAW not in r[0]]
    return rows


def _props(aspect):
    return {'law': ['C10'], 'wf': ['C11']}.get(aspect, ['C10', 'C11'])


def _verdict(rows, t0, sample, aspect=None):
    rows = _select(rows, aspect)
    if not rows:
        return Verdict('unknown', 'engine', time.time() - t0, 'no rows for aspect %s' % aspect, sample=sample)
    bad = [r for r in rows if r[1] == 'refuted']
    unk = [r for r in rows if r[1] == 'unknown']
    sample['vcs'] = [{'vc': r[0], 'status': r[1]} for r in rows][:14]
    sample['n_vcs'] = len(rows)
    if bad:
        if sample.get('generator') and any('caller-supplied' in r[0] for r in bad):
            rp = _replay_crn(sample['generator'])
        elif aspect == 'law' or all(LAW in r[0] for r in bad):
            rp = _replay_law()
        else:
            rp = _replay_gen()
        return Verdict('refuted', 'z3', time.time() - t0, '; '.join('%s %s' % (r[0], r[2]) for r in bad)[:600], witness={'failed': [r[0] for r in bad]}, sample=sample, replay=rp)
    if unk:
        return Verdict('unknown', 'z3', time.time() - t0, '; '.join('%s %s' % (r[0], r[2]) for r in unk)[:600], sample=sample)
    return Verdict('proved', 'z3 (NRA+UF, quantified loop invariants)', time.time() - t0, '%d VCs' % len(rows), sample=sample)


def _side_rows(p, skip_kinds=('bounds',)):
    rows = []
    for so in p.side:
        r = smt.prove(so['hyps'], so['goal'], timeout_ms=30000)
        rows.append(('%s: %s' % (so['kind'], so['name']), {'unsat': 'proved', 'sat': 'refuted' if so['kind'] in ('inv-init', 'inv-preserve', 'lemma', 'decreases') else 'unknown'}.get(r.status, 'unknown'),
                     tm.show(so['goal'])[:200] if r.status != 'unsat' else ''))
    return rows


# ------------------------------------------------------------------ loop-free generators: exact path-wise identities

CRN_REPLAY = '''
import math
import pfhedge.stochastic as ps
torch.manual_seed(1)
Z = torch.randn(4, 7, dtype=torch.float64); keep = Z.clone()
eng = lambda *size, **kw: Z
kw = dict(init_state=(1.25,), sigma=0.25, mu=0.125, dt=0.03125, dtype=torch.float64, engine=eng)   # exactly representable parameters
fn = getattr(ps, W["gen"])
fn(4, 7, **kw); out = fn(4, 7, **kw)
w = keep.clone(); w[:, 0] = 0.0
tt = torch.arange(7, dtype=torch.float64) * 0.03125
bm = 0.125 * tt + 0.25 * math.sqrt(0.03125) * w.cumsum(1)
ref = 1.25 * (bm - 0.03125 * tt).exp() if "geometric" in W["gen"] else 1.25 + bm
result = {"got": out.reshape(-1).tolist(), "ref": ref.reshape(-1).tolist()}
'''


def _replay_crn(name):
    r = real_exec(CRN_REPLAY, {'gen': name}, timeout=300)
    ok = r.get('ok') and all(abs(a_ - b_) <= 1e-7 * max(1.0, abs(b_)) for a_, b_ in zip(r['result']['got'], r['result']['ref']))
    return {'real': r, 'confirmed': not ok}


def brownian_ob(geometric, aspect=None, scalar_init=False):
    name = 'generate_geometric_brownian' if geometric else 'generate_brownian'

    def check():
        t0 = time.time()
        import torch
        import pfhedge.stochastic as ps
        hyps = DIMS + [tm.gt(V['dt'], tm.ZERO), tm.gt(V['x0'], tm.ZERO)]

        def run(c):
            c.lazy_defined = True
            return getattr(ps, name)(SInt(N), SInt(T), init_state=(_scalar0(V['x0']) if scalar_init else (SReal(V['x0']),)), sigma=SReal(V['sigma']), mu=SReal(V['mu']), dt=SReal(V['dt']), dtype=torch.float64)
        paths = explore(run, hyps, max_paths=8)
        rows = []
        sample = {'claim': 'exact path-wise solution given the engine normals; shape; first column; positivity (geometric)', 'generator': name}
        for p in paths:
            if p.outcome() != 'returns':
                return Verdict('unknown', 'engine', time.time() - t0, str((p.outcome(), str(p.exception)[:200], p.traceback[-400:])))
            res = p.result
            rows += _check_common(p, res, hyps, V['x0'], positive=geometric)
            # value: x0 + mu dt t + sigma sqrt(dt) sum_{1<=k<=t} Z[n,k]   (GBM: x0 exp(that with x0=0 - sigma^2 dt t / 2))
            n, j, k = tm.var('n', 'I'), tm.var('j', 'I'), tm.fresh('k', 'I')
            rng = [tm.le(tm.IZERO, n), tm.lt(n, N), tm.le(tm.IZERO, j), tm.lt(j, T)]
            W = tm.tsum(k, tm.IONE, tm.add(j, tm.IONE), tm.sel('Z0', n, k))
            tj = tm.mul(V['dt'], tm.toreal(j))
            bm = tm.add(tm.mul(V['mu'], tj), tm.mul(V['sigma'], tm.app('sqrt', V['dt']), W))
            want = tm.mul(V['x0'], tm.app('exp', tm.sub(bm, tm.mul(tm.const(0.5), V['sigma'], V['sigma'], tj)))) if geometric else tm.add(V['x0'], bm)
            r = fc.prove_eq(p.facts(hyps) + rng, res.at((n, j)), want, timeout_ms=30000)
            if r.status != 'unsat':
                # the code sums k = 0..j with Z[:,0] overwritten by 0: split off the k = 0 term
                W2 = tm.tsum(k, tm.IZERO, tm.add(j, tm.IONE), tm.ite(tm.eq(k, tm.IZERO), tm.ZERO, tm.sel('Z0', n, k)))
                bm2 = tm.add(tm.mul(V['mu'], tj), tm.mul(V['sigma'], tm.app('sqrt', V['dt']), W2))
                want2 = tm.mul(V['x0'], tm.app('exp', tm.sub(bm2, tm.mul(tm.const(0.5), V['sigma'], V['sigma'], tj)))) if geometric else tm.add(V['x0'], bm2)
                r = fc.prove_eq(p.facts(hyps) + rng, res.at((n, j)), want2, timeout_ms=30000)
            rows.append((LAW + 'value == exact solution of the SDE step by step', {'unsat': 'proved', 'sat': 'refuted'}.get(r.status, 'unknown'), tm.show(res.at((n, j)))[:300] if r.status != 'unsat' else ''))
            # horizon independence: column j does not mention n_steps
            rows.append((LAW + 'column j independent of the horizon', 'proved' if T not in tm.free_vars(res.at((n, j))) else 'refuted', ''))
        # the caller's normals, used twice (common random numbers): the engine hands out the SAME caller-owned tensor on every call;
        # the second path must still be the exact solution in terms of those normals (column 0 does not enter)
        if aspect in (None, 'law'):
            from pfv.torchlib.tensor import Tensor

            def run2(c):
                c.lazy_defined = True
                Zc = Tensor.input('Zc', (N, T), torch.float64)
                kw = dict(init_state=(SReal(V['x0']),), sigma=SReal(V['sigma']), mu=SReal(V['mu']), dt=SReal(V['dt']), dtype=torch.float64, engine=lambda *size, **k_: Zc)
                getattr(ps, name)(SInt(N), SInt(T), **kw)
                return getattr(ps, name)(SInt(N), SInt(T), **kw)
            for p in explore(run2, hyps, max_paths=8):
                if p.outcome() != 'returns':
                    rows.append((LAW + 'second use of the caller\'s normals', 'unknown', str((p.outcome(), str(p.exception)[:200]))))
                    continue
                n, j, k = tm.var('n', 'I'), tm.var('j', 'I'), tm.fresh('k', 'I')
                rng = [tm.le(tm.IZERO, n), tm.lt(n, N), tm.le(tm.IZERO, j), tm.lt(j, T)]
                W2 = tm.tsum(k, tm.IZERO, tm.add(j, tm.IONE), tm.ite(tm.eq(k, tm.IZERO), tm.ZERO, tm.sel('Zc', n, k)))
                tj = tm.mul(V['dt'], tm.toreal(j))
                bm2 = tm.add(tm.mul(V['mu'], tj), tm.mul(V['sigma'], tm.app('sqrt', V['dt']), W2))
                want2 = tm.mul(V['x0'], tm.app('exp', tm.sub(bm2, tm.mul(tm.const(0.5), V['sigma'], V['sigma'], tj)))) if geometric else tm.add(V['x0'], bm2)
                r = fc.prove_eq(p.facts(hyps) + rng, p.result.at((n, j)), want2, timeout_ms=30000)
                st_ = {'unsat': 'proved', 'sat': 'refuted'}.get(r.status, 'unknown')
                if st_ == 'refuted':
                    st_ = 'refuted' if _replay_crn(name).get('confirmed') else 'unknown'
                rows.append((LAW + 'the same caller-supplied normals used a second time give the exact solution again', st_, tm.show(p.result.at((n, j)))[:300] if r.status != 'unsat' else ''))
        return _verdict(rows, t0, sample, aspect)
    return Obligation('GEN/%s/post%s' % (name, '[scalar init_state]' if scalar_init else ''), 'post', S_ + 'brownian.' + name, check, _props(aspect),
                      clause='%s: (n_paths, n_steps) series, first column = initial state, %svalue[n,t] = %s for all n_paths, n_steps' % (
                          name, 'positive, ' if geometric else '', 'S0 exp((mu - sigma^2/2) dt t + sigma sqrt(dt) sum_{k<=t} Z[n,k])' if geometric else 'x0 + mu dt t + sigma sqrt(dt) sum_{k<=t} Z[n,k]'))


def merton_ob(aspect=None):
    def check():
        t0 = time.time()
        import torch
        import pfhedge.stochastic as ps
        hyps = DIMS + [tm.gt(V['dt'], tm.ZERO), tm.gt(V['x0'], tm.ZERO), tm.ge(V['lam'], tm.ZERO), tm.ge(V['js'], tm.ZERO)]
        rows = []
        for zero_intensity in (False, True):
            def run(c):
                c.lazy_defined = True
                r = ps.generate_merton_jump(SInt(N), SInt(T), init_state=(SReal(V['x0']),), mu=SReal(V['mu']), sigma=SReal(V['sigma']),
                                            jump_per_year=0.0 if zero_intensity else SReal(V['lam']), jump_mean=SReal(V['jm']), jump_std=SReal(V['js']), dt=SReal(V['dt']), dtype=torch.float64)
                for e in c.events:
                    if e[0] == 'random' and e[1] == 'Pois':
                        i_, j_ = c.fresh('pi', 'I'), c.fresh('pj', 'I')
                        c.assume(tm.forall(i_, tm.IZERO, N, tm.forall(j_, tm.IZERO, T, tm.ge(tm.sel(e[2], i_, j_), tm.ZERO))))
                return r
            paths = explore(run, hyps, max_paths=8)
            for p in paths:
                if p.outcome() != 'returns':
                    return Verdict('unknown', 'engine', time.time() - t0, str((p.outcome(), str(p.exception)[:200], p.traceback[-400:])))
                res = p.result
                tag = 'zero intensity: ' if zero_intensity else ''
                rows += _check_common(p, res, hyps, V['x0'], positive=True, label=tag)
                n, j = tm.var('n', 'I'), tm.var('j', 'I')
                if zero_intensity:
                    # reduces to geometric Brownian motion driven by the second normal draw
                    zname = [e[2] for e in p.events if e[0] == 'random' and e[1] == 'Z'][-1]
                    k = tm.fresh('k', 'I')
                    W2 = tm.tsum(k, tm.IZERO, tm.add(j, tm.IONE), tm.ite(tm.eq(k, tm.IZERO), tm.ZERO, tm.sel(zname, n, k)))
                    tj = tm.mul(V['dt'], tm.toreal(j))
                    want = tm.mul(V['x0'], tm.app('exp', tm.add(tm.mul(tm.sub(V['mu'], tm.mul(tm.const(0.5), V['sigma'], V['sigma'])), tj), tm.mul(V['sigma'], tm.app('sqrt', V['dt']), W2))))
                    r = fc.prove_eq(p.facts(hyps) + [tm.le(tm.IZERO, n), tm.lt(n, N), tm.le(tm.IZERO, j), tm.lt(j, T)], res.at((n, j)), want, timeout_ms=30000)
                    rows.append((LAW + 'zero intensity: reduces to geometric Brownian motion', {'unsat': 'proved', 'sat': 'refuted'}.get(r.status, 'unknown'), tm.show(res.at((n, j)))[:300] if r.status != 'unsat' else ''))
        return _verdict(rows, t0, {'claim': 'Merton jump diffusion: well-formed; reduces to GBM at zero jump intensity'}, aspect)
    return Obligation('GEN/generate_merton_jump/post', 'post', S_ + 'merton_jump.generate_merton_jump', check, _props(aspect),
                      clause='generate_merton_jump: (n_paths, n_steps), first column = S0, positive; with jump_per_year = 0 it is exactly geometric Brownian motion')


# ------------------------------------------------------------------ generators with a time recursion (loop cut)

def _idx(state, name, n):
    t_ = state[name]
    return t_.at((n,)) if t_._shape else t_.at(())


def cir_ob():
    def check():
        t0 = time.time()
        import torch
        import pfhedge.stochastic.cir as cirmod
        hyps = DIMS + [tm.gt(V['kappa'], tm.ZERO), tm.gt(V['theta'], tm.ZERO), tm.gt(V['sigma'], tm.ZERO), tm.gt(V['dt'], tm.ZERO), tm.ge(V['v0'], tm.ZERO)]

        def inv(state, state0):
            out, it = state['output'], lift(state['i_step'])
            n, k = tm.fresh('in', 'I'), tm.fresh('ik', 'I')
            return [('variance >= 0 up to the current step', tm.forall(n, tm.IZERO, N, tm.forall(k, tm.IZERO, tm.add(it, tm.IONE), tm.ge(out.at((n, k)), tm.ZERO)))),
                    ('first column = initial state', tm.forall(n, tm.IZERO, N, tm.eq(out.at((n, tm.IZERO)), V['v0'])))]

        at = lambda t_, n: t_.at((n,)) if t_._shape else t_.at(())
        half = tm.const(2.0)     # the quadratic branch is well-formed exactly for psi <= 2 (2/psi - 1 >= 0); any threshold PSI_CRIT in [1, 2] is admissible (Andersen 2007, 3.2.3)
        abstractions = {
            # each local is proved to satisfy its facts at a fresh path index, then replaced by an opaque tensor with those facts
            'v': lambda st, x: [('v >= 0', lambda y, n: tm.ge(at(y, n), tm.ZERO))],
            'exp': None,
            'm': lambda st, x: [('m > 0', lambda y, n: tm.gt(at(y, n), tm.ZERO))],
            's2': lambda st, x: [('s2 >= 0', lambda y, n: tm.ge(at(y, n), tm.ZERO))],
            'psi': lambda st, x: [('psi >= 0', lambda y, n: tm.ge(at(y, n), tm.ZERO))],
            'a': lambda st, x: [('quadratic branch: a >= 0', lambda y, n: tm.implies(tm.le(at(st['psi'], n), half), tm.ge(at(y, n), tm.ZERO)))],
            'next_0': lambda st, x: [('quadratic branch: next >= 0', lambda y, n: tm.implies(tm.le(at(st['psi'], n), half), tm.ge(at(y, n), tm.ZERO)))],
            'p': lambda st, x: [('p < 1', lambda y, n: tm.lt(at(y, n), tm.ONE)), ('p = (psi-1)/(psi+1)', lambda y, n: tm.eq(at(y, n), tm.div(tm.sub(at(st['psi'], n), tm.ONE), tm.add(at(st['psi'], n), tm.ONE))))],
            'beta': lambda st, x: [('beta > 0', lambda y, n: tm.gt(at(y, n), tm.ZERO))],
            'next_1': lambda st, x: [('exponential branch: next >= 0', lambda y, n: tm.ge(at(y, n), tm.ZERO))],
        }
        abstractions = {k_: v_ for k_, v_ in abstractions.items() if v_ is not None}

        def lemmas(state):
            e = state['exp'].at(())
            return [('0 < exp(-kappa dt) < 1', tm.and_(tm.gt(e, tm.ZERO), tm.lt(e, tm.ONE)))]
        cut, info = cutloops.cut(cirmod.generate_cir, {0: cutloops.LoopSpec(inv, name='for i_step', lemmas=lemmas, abstractions=abstractions)})

        def run(c):
            c.lazy_defined = True
            r = cut(SInt(N), SInt(T), init_state=(SReal(V['v0']),), kappa=SReal(V['kappa']), theta=SReal(V['theta']), sigma=SReal(V['sigma']), dt=SReal(V['dt']), dtype=torch.float32)
            return r

        def run2(c):
            # U1 is the rand_like draw (second random source)
            _assume_u(c, 'U1', (N, T))
            return run(c)
        try:
            paths = explore(run2, hyps, max_paths=16)
        except Unsupported as e:
            return Verdict('unknown', 'engine', time.time() - t0, 'out of reach: %s' % e)
        rows = []
        sample = {'claim': 'CIR (Andersen QE): loop invariant variance >= 0 and first column, on both branches', 'rewritten': info['rewritten'][-1200:]}
        seen_iter = seen_exit = False
        for p in paths:
            rows += _side_rows(p)
            if p.aborted is not None and p.aborted.kind == 'loop-cut':
                seen_iter = True
                continue
            if p.outcome() != 'returns':
                return Verdict('unknown', 'engine', time.time() - t0, str((p.outcome(), str(p.exception)[:200], p.traceback[-400:])), sample=sample)
            seen_exit = True
            rows += _check_common(p, p.result, hyps, V['v0'], nonneg=True)[:3]
        if not (seen_iter and seen_exit):
            return Verdict('unknown', 'engine', time.time() - t0, 'paths: %s' % [p.outcome() for p in paths], sample=sample)
        return _verdict(rows, t0, sample)
    return Obligation('GEN/generate_cir/loop', 'inv-init/inv-preserve/post', S_ + 'cir.generate_cir', check, ['C11'],
                      clause='generate_cir: variance stays >= 0 on both branches of the quadratic-exponential scheme, first column = initial state, shape (n_paths, n_steps), for all n_steps and admissible parameters')


def vasicek_ob(aspect=None, scalar_init=False):
    def check():
        t0 = time.time()
        import torch
        import pfhedge.stochastic.vasicek as vmod
        hyps = DIMS + [tm.gt(V['kappa'], tm.ZERO), tm.gt(V['sigma'], tm.ZERO), tm.gt(V['dt'], tm.ZERO)]

        def inv(state, state0):
            out = state['output']
            n = tm.fresh('in', 'I')
            return [('first column = initial state', tm.forall(n, tm.IZERO, N, tm.eq(out.at((n, tm.IZERO)), V['x0'])))]

        def lemmas(state):
            # one step is the exact OU transition around theta: mean theta + (x - theta) e^{-kappa dt}, st.dev. sigma sqrt((1 - e^{-2 kappa dt})/(2 kappa))
            i = lift(state['i_step'])
            out, mu_, vola, randn = state['output'], state['mu'].at(()), state['vola'].at(()), state['randn']
            e1 = tm.app('exp', tm.neg(tm.mul(V['kappa'], V['dt'])))

            def step(n):
                prev = out.at((n, tm.sub(i, tm.IONE)))          # i was already incremented by the cut
                new = out.at((n, i))
                return tm.eq(new, tm.add(V['theta'], tm.mul(e1, tm.sub(prev, V['theta'])), tm.mul(vola, randn.at((n, tm.sub(i, tm.IONE))))))
            return [(LAW + 'mu == exp(-kappa dt)', tm.eq(mu_, e1)),
                    (LAW + 'vola^2 == sigma^2 (1 - e^{-2 kappa dt}) / (2 kappa)', tm.eq(tm.mul(vola, vola), tm.div(tm.mul(V['sigma'], V['sigma'], tm.sub(tm.ONE, tm.mul(e1, e1))), tm.mul(tm.const(2.0), V['kappa'])))),
                    ('vola >= 0', tm.ge(vola, tm.ZERO)),
                    (LAW + 'one step: x\' = theta + (x - theta) e^{-kappa dt} + vola Z', step, tm.IZERO, N)]
        cut, info = cutloops.cut(vmod.generate_vasicek, {0: cutloops.LoopSpec(inv, name='for i_step', lemmas=lemmas)})

        def run(c):
            c.lazy_defined = True
            # the initial state as a 1-tuple, or as a bare scalar (cast_state accepts both); any value, zero included
            return cut(SInt(N), SInt(T), init_state=(_scalar0(V['x0']) if scalar_init else (SReal(V['x0']),)), kappa=SReal(V['kappa']), theta=SReal(V['theta']), sigma=SReal(V['sigma']), dt=SReal(V['dt']), dtype=torch.float64)
        try:
            paths = explore(run, hyps, max_paths=16)
        except Unsupported as e:
            return Verdict('unknown', 'engine', time.time() - t0, 'out of reach: %s' % e)
        rows = []
        sample = {'claim': 'Vasicek: exact OU step around theta from ANY initial state; first column; terminates (no recursion)', 'rewritten': info['rewritten'][-900:]}
        for p in paths:
            rows += _side_rows(p)
            if p.aborted is not None and p.aborted.kind == 'loop-cut':
                continue
            if p.outcome() != 'returns':
                return Verdict('unknown', 'engine', time.time() - t0, str((p.outcome(), str(p.exception)[:300], p.traceback[-400:])), sample=sample)
            rows += _check_common(p, p.result, hyps, V['x0'])[:2]
        # the recursion has been removed by the fix: no recursive call may remain
        import inspect
        rows.append(('no self-recursion (terminates for every initial state)', 'proved' if 'generate_vasicek(' not in inspect.getsource(vmod.generate_vasicek).split('"""')[-1] else 'refuted', ''))
        return _verdict(rows, t0, sample, aspect)
    return Obligation('GEN/generate_vasicek/loop' + ('[scalar init_state]' if scalar_init else ''), 'inv+lemma', S_ + 'vasicek.generate_vasicek', check, _props(aspect),
                      clause='generate_vasicek: from any initial state each step is x\' = theta + (x-theta)e^{-kappa dt} + sigma sqrt((1-e^{-2 kappa dt})/(2 kappa)) Z (closed-form mean reversion around theta); first column; shape; no recursion')


def heston_ob(aspect=None):
    def check():
        t0 = time.time()
        import torch
        import pfhedge.stochastic.heston as hmod
        from pfv.torchlib.tensor import Tensor
        hyps = DIMS + [tm.gt(V['kappa'], tm.ZERO), tm.gt(V['theta'], tm.ZERO), tm.gt(V['sigma'], tm.ZERO), tm.gt(V['dt'], tm.ZERO), tm.ge(V['v0'], tm.ZERO), tm.gt(V['x0'], tm.ZERO),
                       tm.le(tm.const(-1.0), V['rho']), tm.le(V['rho'], tm.ONE)]
        seen = {}

        def cir_stub(**kw):
            """contract of generate_cir (proved in GEN/generate_cir/loop): shape, first column, values >= 0"""
            seen.update(kw)
            c = ctx()
            r = Tensor.input('VAR', (kw['n_paths'], kw['n_steps']), kw['dtype'] or torch.float32, origin='fresh')
            i_, j_ = c.fresh('vi', 'I'), c.fresh('vj', 'I')
            c.assume(tm.forall(i_, tm.IZERO, N, tm.forall(j_, tm.IZERO, T, tm.ge(tm.sel('VAR', i_, j_), tm.ZERO))))
            c.assume(tm.forall(i_, tm.IZERO, N, tm.eq(tm.sel('VAR', i_, tm.IZERO), tm.toreal(lift(kw['init_state'][0])) if not hasattr(kw['init_state'][0], 'at') else kw['init_state'][0].at(()))))
            return r

        def inv(state, state0):
            ls = state['log_spot']
            n = tm.fresh('in', 'I')
            return [('first column of log spot = log S0', tm.forall(n, tm.IZERO, N, tm.eq(ls.at((n, tm.IZERO)), tm.app('log', V['x0']))))]

        def lemmas(state):
            k3, k4 = lift(state['k3']), lift(state['k4'])
            v0_, v1_ = state['v0'], state['v1']
            i = lift(state['i_step'])               # already incremented by the cut: the column written is i
            ls, zz = state['log_spot'], state['randn']
            rho, sg, ka, th, dt_ = V['rho'], V['sigma'], V['kappa'], V['theta'], V['dt']
            # weights of the quadrature of the time integral of v over the step: any gamma1, gamma2 >= 0 with gamma1 + gamma2 = 1 is a valid
            # discretisation (Andersen 2007, Eq. 33; the source uses the trapezoid rule 1/2, 1/2); the weights are read from the function's
            # locals when it names them and must satisfy that constraint (first lemma), otherwise the trapezoid rule is required
            def _w(nm):
                try:
                    return tm.toreal(tm.as_term(lift(state[nm]))) if nm in state else tm.const(0.5)
                except Exception:
                    return tm.const(0.5)
            g1, g2 = _w('GAMMA1'), _w('GAMMA2')

            def step(n):
                # the exact representation  d log S = -v/2 dt + (rho/sigma)(dv - kappa(theta - v) dt) + sqrt(1-rho^2) sqrt(v) dW_perp,
                # with the time integral of v over the step taken as I = dt (gamma1 v + gamma2 v')
                a, b = v0_.at((n,)), v1_.at((n,))
                intv = tm.mul(dt_, tm.add(tm.mul(g1, a), tm.mul(g2, b)))
                drift = tm.add(tm.mul(tm.const(-0.5), intv), tm.mul(tm.div(rho, sg), tm.add(tm.sub(b, a), tm.neg(tm.mul(ka, th, dt_)), tm.mul(ka, intv))))
                diff_ = tm.mul(tm.app('sqrt', tm.mul(tm.sub(tm.ONE, tm.mul(rho, rho)), intv)), zz.at((n, tm.sub(i, tm.IONE))))
                return tm.eq(ls.at((n, i)), tm.add(ls.at((n, tm.sub(i, tm.IONE))), drift, diff_))
            return [(LAW + 'quadrature weights of the integrated variance: gamma1, gamma2 >= 0, gamma1 + gamma2 == 1', tm.and_(tm.ge(g1, tm.ZERO), tm.ge(g2, tm.ZERO), tm.eq(tm.add(g1, g2), tm.ONE))),
                    ('k3 >= 0 and k4 >= 0 (|rho| <= 1)', tm.and_(tm.ge(tm.toreal(k3), tm.ZERO), tm.ge(tm.toreal(k4), tm.ZERO))),
                    ('sqrt argument k3 v0 + k4 v1 >= 0', lambda n: tm.ge(tm.add(tm.mul(tm.toreal(k3), v0_.at((n,))), tm.mul(tm.toreal(k4), v1_.at((n,)))), tm.ZERO), tm.IZERO, N),
                    (LAW + 'one step: log S\' = log S - (1/2) I + (rho/sigma)(v\' - v - kappa theta dt + kappa I) + sqrt((1-rho^2) I) Z,  I = dt (gamma1 v + gamma2 v\'): the return loads on the variance move with rho/sigma', step, tm.IZERO, N)]
        cut, info = cutloops.cut(hmod.generate_heston, {0: cutloops.LoopSpec(inv, name='for i_step', lemmas=lemmas)}, stubs={'generate_cir': cir_stub})

        def run(c):
            c.lazy_defined = True
            return cut(SInt(N), SInt(T), init_state=(SReal(V['x0']), SReal(V['v0'])), kappa=SReal(V['kappa']), theta=SReal(V['theta']), sigma=SReal(V['sigma']), rho=SReal(V['rho']),
                       dt=SReal(V['dt']), dtype=torch.float64)
        try:
            paths = explore(run, hyps, max_paths=16)
        except Unsupported as e:
            return Verdict('unknown', 'engine', time.time() - t0, 'out of reach: %s' % e)
        rows = []
        sample = {'claim': 'Heston: variance = generate_cir(init[1:], same kappa/theta/sigma/dt); spot = exp(log spot) > 0; first columns; sqrt defined', 'rewritten': info['rewritten'][-900:]}
        for p in paths:
            rows += _side_rows(p)
            if p.aborted is not None and p.aborted.kind == 'loop-cut':
                continue
            if p.outcome() != 'returns':
                return Verdict('unknown', 'engine', time.time() - t0, str((p.outcome(), str(p.exception)[:300], p.traceback[-400:])), sample=sample)
            out = p.result
            rows += _check_common(p, out.spot, hyps, V['x0'], positive=True, label='spot: ')[:3]
            # wiring of the variance process
            def same(key, want):
                return key in seen and lift(seen[key]) is want
            okw = len(seen.get('init_state', ())) == 1 and same('n_paths', N) and same('n_steps', T)
            okp = same('kappa', V['kappa']) and same('theta', V['theta']) and same('sigma', V['sigma']) and same('dt', V['dt'])
            rows.append(('variance = generate_cir(n_paths, n_steps, init_state[1:], ...): the CIR buffer of the same size started at init_state[1]', 'proved' if okw and out.variance.name == 'VAR' else 'refuted', str({k_: str(v_)[:30] for k_, v_ in seen.items()})))
            rows.append((LAW + 'variance = generate_cir(..., kappa, theta, sigma, dt): the CIR process of the caller\'s parameters on the caller\'s time grid', 'proved' if okp and out.variance.name == 'VAR' else 'refuted', str({k_: str(v_)[:30] for k_, v_ in seen.items()})))
            n, j = tm.var('n', 'I'), tm.var('j', 'I')
            vol = out.volatility.at((n, j))
            rows.append(('volatility == sqrt(max(variance, 0))', 'proved' if vol is tm.app('sqrt', tm.tmax(tm.sel('VAR', n, j), tm.ZERO)) else 'refuted', tm.show(vol)[:100]))
        return _verdict(rows, t0, sample, aspect)
    return Obligation('GEN/generate_heston/loop', 'inv+pre@callsite+post', S_ + 'heston.generate_heston', check, _props(aspect),
                      clause='generate_heston: variance is the CIR process of the given parameters started at init_state[1]; spot > 0 with first column S0; the sqrt in the log-spot step is defined; volatility = sqrt(variance)')


def local_vol_ob(aspect=None):
    def check():
        t0 = time.time()
        import torch
        import pfhedge.stochastic.local_volatility as lmod
        from pfv.torchlib.tensor import Tensor
        hyps = DIMS + [tm.gt(V['dt'], tm.ZERO), tm.gt(V['x0'], tm.ZERO)]

        def sigma_fn(time_, spot):
            rs, rt = spot.reader(), time_.reader()
            return Tensor.fresh(lambda idx: tm.app('SIG', rt(()), rs(idx)), spot._shape, spot.dtype)

        def inv(state, state0):
            sp = state['spot']
            n = tm.fresh('in', 'I')
            return [('first column = initial state', tm.forall(n, tm.IZERO, N, tm.eq(sp.at((n, tm.IZERO)), V['x0'])))]

        def lemmas(state):
            i = lift(state['i_step'])
            sp, vol, dw, tim = state['spot'], state['volatility'], state['dw'], state['time']
            im1 = tm.sub(i, tm.IONE)

            def step(n):
                s_prev = sp.at((n, im1))
                sig = tm.app('SIG', tim.at((im1,)), s_prev)
                return tm.and_(tm.eq(vol.at((n, im1)), sig),
                               tm.implies(tm.lt(i, T), tm.eq(sp.at((n, i)), tm.mul(s_prev, tm.add(tm.ONE, tm.mul(sig, dw.at((n, im1))))))))
            return [(LAW + 'one step: vol[:,i] = sigma_fn(t_i, S_i);  S_{i+1} = S_i (1 + sigma_i dW_i)', step, tm.IZERO, N)]
        cut, info = cutloops.cut(lmod.generate_local_volatility_process, {0: cutloops.LoopSpec(inv, name='for i_step', lemmas=lemmas)})

        def run(c):
            c.lazy_defined = True
            return cut(SInt(N), SInt(T), sigma_fn, init_state=(SReal(V['x0']),), dt=SReal(V['dt']), dtype=torch.float64)
        try:
            paths = explore(run, hyps, max_paths=16)
        except Unsupported as e:
            return Verdict('unknown', 'engine', time.time() - t0, 'out of reach: %s' % e)
        rows = []
        sample = {'claim': 'local volatility: Euler step S_{i+1} = S_i (1 + sigma(t_i, S_i) dW_i), dW = sqrt(dt) Z: a martingale step (E[S_{i+1}|S_i] = S_i since E Z = 0)', 'rewritten': info['rewritten'][-900:]}
        for p in paths:
            rows += _side_rows(p)
            if p.aborted is not None and p.aborted.kind == 'loop-cut':
                continue
            if p.outcome() != 'returns':
                return Verdict('unknown', 'engine', time.time() - t0, str((p.outcome(), str(p.exception)[:300], p.traceback[-400:])), sample=sample)
            rows += _check_common(p, p.result.spot, hyps, V['x0'], label='spot: ')[:2]
            n, j = tm.var('n', 'I'), tm.var('j', 'I')
            # dW = sqrt(dt) Z with Z the randn_like draw: conditional mean zero
            zname = [e[2] for e in p.events if e[0] == 'random' and e[1] == 'Z'][0]
            dwt = None
        return _verdict(rows, t0, sample, aspect)
    return Obligation('GEN/generate_local_volatility_process/loop', 'inv+lemma', S_ + 'local_volatility.generate_local_volatility_process', check, _props(aspect),
                      clause='local volatility: S_{i+1} = S_i (1 + sigma_fn(t_i, S_i) sqrt(dt) Z_i), volatility[:, i] = sigma_fn(t_i, S_i); first column; shape')


# ------------------------------------------------------------------ dtype of every generator (finite universe, enumerated)

DTYPE_REPLAY = '''
import pfhedge.stochastic as ps
D = getattr(torch, W["dtype"]) if W["dtype"] else None
torch.set_default_dtype(getattr(torch, W["default"]))
kw = {"sigma_fn": (lambda t_, s: s * 0.0 + 0.2)} if W["gen"] == "generate_local_volatility_process" else {}
args = (2, 3) + ((kw.pop("sigma_fn"),) if kw else ())
out = getattr(ps, W["gen"])(*args, dtype=D)
outs = tuple(out) if isinstance(out, tuple) else (out,)
want = D or getattr(torch, W["default"])
result = {"got": [str(o.dtype) for o in outs], "ref": [str(want) for o in outs]}
'''


def _replay_dtype(gname, D, default):
    nm = lambda d: None if d is None else str(d).replace('torch.', '')
    r = real_exec(DTYPE_REPLAY, {'gen': gname, 'dtype': nm(D), 'default': nm(default)}, timeout=300)
    ok = r.get('ok') and r['result']['got'] == r['result']['ref']
    return {'real': r, 'confirmed': not ok, 'note': 'replay: the real generator called with the requested dtype under the given global default'}


def dtype_ob():
    def check():
        t0 = time.time()
        import torch
        import pfhedge.stochastic as ps
        n = 0
        gens = {
            'generate_brownian': lambda dt_: ps.generate_brownian(2, 3, dtype=dt_),
            'generate_geometric_brownian': lambda dt_: ps.generate_geometric_brownian(2, 3, dtype=dt_),
            'generate_cir': lambda dt_: ps.generate_cir(2, 3, dtype=dt_),
            'generate_heston': lambda dt_: tuple(ps.generate_heston(2, 3, dtype=dt_)),
            'generate_vasicek': lambda dt_: ps.generate_vasicek(2, 3, dtype=dt_),
            'generate_merton_jump': lambda dt_: ps.generate_merton_jump(2, 3, dtype=dt_),
            'generate_local_volatility_process': lambda dt_: tuple(ps.generate_local_volatility_process(2, 3, lambda t_, s: s * 0.0 + 0.2, dtype=dt_)),
        }
        for default in (torch.float32, torch.float64):
            torch.set_default_dtype(default)
            try:
                for gname, g in gens.items():
                    for D in (None, torch.float16, torch.bfloat16, torch.float32, torch.float64):
                        try:
                            paths = explore(lambda c: (setattr(c, 'lazy_defined', True), g(D))[1], [], max_paths=64)
                        except Unsupported as e:
                            return Verdict('unknown', 'engine', time.time() - t0, '%s: %s' % (gname, e))
                        for p in paths:
                            if p.outcome() != 'returns':
                                return Verdict('unknown', 'engine', time.time() - t0, '%s dtype=%s: %s %s %s' % (gname, D, p.outcome(), p.exception, p.traceback[-400:]))
                            outs = p.result if isinstance(p.result, tuple) else (p.result,)
                            for o in outs:
                                n += 1
                                if o.dtype is not (D or default) or tuple(o._shape) != (2, 3):
                                    return Verdict('refuted', 'enumeration + promotion contract', time.time() - t0, '%s(dtype=%s) under default %s returns dtype %s shape %s' % (gname, D, default, o.dtype, o._shape),
                                                   witness={'generator': gname, 'dtype': str(D), 'default': str(default)}, replay=_replay_dtype(gname, D, default))
            finally:
                torch.set_default_dtype(torch.float32)
        return Verdict('proved', 'exhaustive enumeration (5 dtypes x 2 defaults) + promotion contract', time.time() - t0, '%d series' % n, sample={'claim': 'returned dtype = requested dtype (global default when None)', 'series': n})
    return Obligation('GEN/dtype', 'dtype', S_ + '_utils.cast_state', check, ['C11', 'C17'],
                      clause='every generator returns series of the requested dtype, or of the global default when dtype is None (7 generators x 5 dtypes x 2 defaults; Kou and rough Bergomi: bounded stand-in)')


# ------------------------------------------------------------------ bounded stand-ins (never counted as discharged)

def bounded_ob(tier):
    def check():
        t0 = time.time()
        rp = _replay_gen()
        if rp['confirmed']:
            return Verdict('refuted', 'bounded: real torch battery', time.time() - t0, 'generator battery fails: %s' % rp['real'].get('result', rp['real']), witness={'battery': str(rp['real'])[:400]}, replay=rp)
        return Verdict('proved', 'bounded: real torch battery', time.time() - t0, 'held on the battery', sample={'claim': 'BOUNDED: Kou and rough Bergomi (and all others) on a fixed battery', 'battery': '(n_paths,n_steps) in {(1,1),(3,2),(4,7)} x {float32,float64}, non-default initial states; rough Bergomi for n_steps >= 2'})
    return Obligation('GEN/bounded/kou+rough_bergomi', 'post', S_ + 'kou_jump.generate_kou_jump', check, ['C11'], bounded=True,
                      clause='BOUNDED stand-in: generate_kou_jump (mask/prod block) and generate_rough_bergomi (conv1d block) are outside the executor; shape, first column, finiteness, positivity, dtype on a fixed battery of real runs')


ANTI_REPLAY = '''
from pfhedge.stochastic.random import randn_antithetic
bad = []
for n in (1, 2, 3, 4, 5, 8, 9):
    for shuffle in (False, True):
        z = randn_antithetic(n, 3, shuffle=shuffle)
        if tuple(z.shape) != (n, 3): bad.append((n, shuffle, tuple(z.shape)))
result = {"got": [str(b) for b in bad], "ref": []}
'''


def antithetic_ob():
    """randn_antithetic(n, ...) returns n rows for every n (odd ones included): the engine contract the generators rely on"""
    def check():
        t0 = time.time()
        import torch
        from pfhedge.stochastic.random import randn_antithetic
        rows = []
        for shuffle in (False,):      # shuffle=True permutes rows through randperm (outside the shim); the row count is decided before it
            def run(c):
                return randn_antithetic(SInt(N), SInt(T), shuffle=shuffle, dtype=torch.float64)
            try:
                paths = _explore_raw(run, DIMS, max_paths=16)      # the range assumptions are decided (and replayed) below
            except Unsupported as e:
                return Verdict('unknown', 'engine', time.time() - t0, 'out of reach: %s' % e)
            from pfv.torchlib.tensor import ti
            for p in paths:
                if p.outcome() != 'returns':
                    return Verdict('unknown', 'engine', time.time() - t0, str((p.outcome(), str(p.exception)[:300], p.traceback[-500:])))
                res = p.result
                # the shim models a symbolic slice only within range (torch would clamp silently): the range must be provable
                for so in p.side:
                    if so['kind'] == 'bounds':
                        r = smt.prove(so['hyps'], so['goal'], timeout_ms=90000)   # 3-8 s alone; sized for a loaded machine
                        if r.status != 'unsat':
                            rr = real_exec(ANTI_REPLAY, {}, timeout=300)
                            conf = not (rr.get('ok') and rr['result']['got'] == [])
                            rows.append(('%s (%s) [shuffle=%s]' % (so['name'], so.get('info'), shuffle), 'refuted' if (r.status == 'sat' and conf) else 'unknown', tm.show(so['goal'])[:200]))
                ok = len(res._shape) == 2
                if ok:
                    r = smt.prove(p.facts(DIMS), tm.and_(tm.eq(ti(res._shape[0]), N), tm.eq(ti(res._shape[1]), T)), timeout_ms=20000)
                    rows.append(('shape (n, ...) for every n [shuffle=%s]' % shuffle, {'unsat': 'proved', 'sat': 'refuted'}.get(r.status, 'unknown'), str(res._shape)))
                else:
                    rows.append(('rank', 'refuted', str(res._shape)))
        bad = [r_ for r_ in rows if r_[1] == 'refuted']
        unk = [r_ for r_ in rows if r_[1] == 'unknown']
        sample = {'claim': 'randn_antithetic returns the requested number of rows', 'vcs': [{'vc': r_[0], 'status': r_[1]} for r_ in rows]}
        if bad:
            rr = real_exec(ANTI_REPLAY, {}, timeout=300)
            return Verdict('refuted', 'z3 (LIA)', time.time() - t0, '; '.join('%s %s' % (r_[0], r_[2]) for r_ in bad)[:400], witness={'failed': [r_[0] for r_ in bad]}, sample=sample,
                           replay={'real': rr, 'confirmed': not (rr.get('ok') and rr['result']['got'] == [])})
        if unk:
            return Verdict('unknown', 'z3', time.time() - t0, '; '.join('%s %s' % (r_[0], r_[2]) for r_ in unk)[:400], sample=sample)
        return Verdict('proved', 'z3 (LIA)', time.time() - t0, '%d VCs' % len(rows), sample=sample)
    return Obligation('GEN/randn_antithetic/post', 'post', S_ + 'random.randn_antithetic', check, ['C11'],
                      clause='randn_antithetic(n_paths, ...) has n_paths rows for every n_paths >= 1 (odd counts included)')


def c11_obligations(seed, tier='quick'):
    return [brownian_ob(False, 'wf'), brownian_ob(True, 'wf'), merton_ob('wf'), cir_ob(), vasicek_ob('wf'), heston_ob('wf'), local_vol_ob('wf'), kou_ob('wf'), dtype_ob(), bounded_ob(tier), rough_bergomi_bounded_obs()[1],
            vasicek_ob('wf', scalar_init=True), brownian_ob(False, 'wf', scalar_init=True), antithetic_ob()]


# ------------------------------------------------------------------ C10: laws (moment calculus under the i.i.d. source contracts)
#
# Rules used (assumed facts about the random sources, A3, and classical MGFs):
#   R1  Z ~ N(0,1) i.i.d.:  E Z = 0, Var Z = 1, E exp(c Z) = exp(c^2/2); sums of independent terms add variances / multiply MGFs
#   R2  P ~ Poisson(r), Y_k i.i.d. independent of P:  E prod_{k<=P} Y_k = exp(r (E Y - 1))      (compound Poisson)
#   R3  X ~ Exp(eta):  E exp(X) = eta/(eta-1) (eta > 1),  E exp(-X) = eta/(eta+1);   U ~ U(0,1): P(U < p) = p
#   R4  J | P ~ N(a P, b^2 P)  =>  E exp(J) = E exp((a + b^2/2) P) = exp(r (exp(a + b^2/2) - 1))

def _zero_randoms(term, names):
    m = {}
    for u in tm.subterms(term):
        if u.op == 'sel' and u.args[0] in names:
            m[u] = tm.ZERO
    return tm.subst(term, m)


def _exp_arg(term):
    """term = c * exp(E) [* positive factors]: return (E, other factors)"""
    fs = list(term.args) if term.op == 'mul' else [term]
    exps = [f for f in fs if f.op == 'app' and f.args[0] == 'exp']
    if len(exps) != 1:
        raise Unsupported('price term is not of the form S0 * exp(E) * ...')
    return exps[0].args[1], [f for f in fs if f is not exps[0]]


def _normal_sums(E):
    """sum items of E that are linear in a standard-normal input: returns [(coef term, count term, zname)]"""
    out = []
    for (bs, body) in fc._items(E):
        zs = [u for u in tm.subterms(body) if u.op == 'sel' and u.args[0].startswith('Z')]
        if not zs:
            continue
        if len(bs) != 1 or len(set(zs)) != 1:
            raise Unsupported('unexpected normal term')
        (bv, lo, hi) = bs[0]
        z = zs[0]
        from pfv import diff as Dm
        coef = Dm.diff(body, z)                      # body is affine in z: coefficient (may carry the k == 0 guard)
        # count of active summands: the generators zero the first normal (k == 0)
        guard0 = any(u.op == 'ite' and u.args[0].op == 'eq' for u in tm.subterms(body))
        count = tm.sub(tm.sub(hi, lo), tm.IONE) if guard0 else tm.sub(hi, lo)
        c_plain = tm.subst(coef, {bv: tm.add(lo, tm.IONE)}) if guard0 else tm.subst(coef, {bv: lo})
        out.append((c_plain, count, z.args[0]))
    return out


def gbm_moments_ob():
    def check():
        t0 = time.time()
        import torch
        import pfhedge.stochastic as ps
        hyps = DIMS + [tm.gt(V['dt'], tm.ZERO), tm.gt(V['x0'], tm.ZERO)]
        p = explore(lambda c: (setattr(c, 'lazy_defined', True), ps.generate_geometric_brownian(SInt(N), SInt(T), init_state=(SReal(V['x0']),), sigma=SReal(V['sigma']), mu=SReal(V['mu']),
                                                                                                dt=SReal(V['dt']), dtype=torch.float64))[1], hyps, max_paths=4)[0]
        n, j = tm.var('n', 'I'), tm.var('j', 'I')
        rng = [tm.le(tm.IZERO, n), tm.lt(n, N), tm.le(tm.IZERO, j), tm.lt(j, T)]
        E, others = _exp_arg(p.result.at((n, j)))
        sums = _normal_sums(E)
        D0 = _zero_randoms(E, {s_[2] for s_ in sums})
        var = tm.add(*[tm.mul(c_, c_, tm.toreal(cnt)) for (c_, cnt, _) in sums]) if sums else tm.ZERO
        tj = tm.mul(V['dt'], tm.toreal(j))
        goals = [('Var[log S_t] == sigma^2 t', tm.eq(var, tm.mul(V['sigma'], V['sigma'], tj))),
                 ('E[S_t] == S0 exp(mu t)  (log-mean + variance/2 == mu t, R1)', tm.eq(tm.add(D0, tm.div(var, tm.const(2.0))), tm.mul(V['mu'], tj))),
                 ('S0 factor', tm.eq(tm.mul(*others) if others else tm.ONE, V['x0']))]
        rows = []
        for (lab, g) in goals:
            r = smt.prove(p.facts(hyps) + rng, g, timeout_ms=20000)
            rows.append((lab, {'unsat': 'proved', 'sat': 'refuted'}.get(r.status, 'unknown'), tm.show(g)[:300] if r.status != 'unsat' else ''))
        return _verdict_law(rows, t0, {'claim': 'geometric Brownian motion: mean S0 exp(mu t), log-variance sigma^2 t', 'log_price': tm.show(E)[:400]})
    return Obligation('LAW/geometric_brownian/moments', 'lemma', S_ + 'brownian.generate_geometric_brownian', check, ['C10'],
                      clause='E[S_t] = S0 exp(mu t) and Var[log S_t] = sigma^2 t for every step, from the path-wise term under R1')


LAW_REPLAY = '''
import math
import pfhedge.stochastic as ps
torch.manual_seed(5)
bad = []
n = 400000
def z(x, want, se): return abs(float(x) - want) / se
# Merton
kw = dict(mu=0.1, sigma=0.2, jump_per_year=30.0, jump_mean=-0.05, jump_std=0.1, dt=0.01, init_state=(2.0,), dtype=torch.float64)
s = ps.generate_merton_jump(n, 11, **kw)
if z(s[:, -1].mean(), 2.0 * math.exp(0.1 * 0.1), float(s[:, -1].std()) / n ** 0.5) > 5: bad.append(("merton mean", float(s[:, -1].mean())))
# Kou
kw = dict(mu=0.1, sigma=0.2, jump_per_year=30.0, jump_mean_up=0.05, jump_mean_down=0.08, jump_up_prob=0.25, dt=0.01, init_state=(2.0,), dtype=torch.float64)
s = ps.generate_kou_jump(n, 11, **kw)
if z(s[:, -1].mean(), 2.0 * math.exp(0.1 * 0.1), float(s[:, -1].std()) / n ** 0.5) > 5: bad.append(("kou mean", float(s[:, -1].mean())))
# Kou on a coarse grid: several jumps per step (jump_per_year * dt = 2.5)
kw = dict(mu=0.05, sigma=0.2, jump_per_year=30.0, jump_mean_up=0.05, jump_mean_down=0.08, jump_up_prob=0.4, dt=1.0 / 12, init_state=(2.0,), dtype=torch.float64)
s = ps.generate_kou_jump(n, 4, **kw)
if z(s[:, -1].mean(), 2.0 * math.exp(0.05 * 0.25), float(s[:, -1].std()) / n ** 0.5) > 5: bad.append(("kou mean, monthly grid", float(s[:, -1].mean())))
# GBM
s = ps.generate_geometric_brownian(n, 11, mu=0.1, sigma=0.3, dt=0.01, init_state=(2.0,), dtype=torch.float64)
if z(s[:, -1].mean(), 2.0 * math.exp(0.1 * 0.1), float(s[:, -1].std()) / n ** 0.5) > 5: bad.append(("gbm mean", float(s[:, -1].mean())))
if abs(float(s[:, -1].log().var()) / (0.09 * 0.1) - 1) > 0.02: bad.append(("gbm log-variance", float(s[:, -1].log().var())))
# CIR / Heston variance: both QE branches, start away from theta, non-default dt
for (sig, th, v0, dt) in ((0.2, 0.04, 0.09, 0.02), (2.0, 0.01, 0.002, 0.02), (1.18, 0.04, 0.01, 0.004), (2.0, 0.04, 0.01, 0.004)):   # dispersion ratio psi ~ 0.002, 20, 0.54, 1.55 at the first step
    kap = 1.5
    v = ps.generate_cir(n, 6, init_state=(v0,), kappa=kap, theta=th, sigma=sig, dt=dt, dtype=torch.float64)
    t = 5 * dt; e = math.exp(-kap * t)
    mean = th + (v0 - th) * e; var = v0 * sig ** 2 / kap * (e - e * e) + th * sig ** 2 / (2 * kap) * (1 - e) ** 2
    if z(v[:, -1].mean(), mean, float(v[:, -1].std()) / n ** 0.5) > 6: bad.append(("cir mean", sig, float(v[:, -1].mean()), mean))
    e1 = math.exp(-kap * dt); var1 = v0 * sig ** 2 / kap * (e1 - e1 * e1) + th * sig ** 2 / (2 * kap) * (1 - e1) ** 2
    if abs(float(v[:, 1].var()) / var1 - 1) > 0.03: bad.append(("cir one-step variance", sig, float(v[:, 1].var()), var1))
    mean1 = th + (v0 - th) * e1
    if z(v[:, 1].mean(), mean1, float(v[:, 1].std()) / n ** 0.5) > 6: bad.append(("cir one-step mean", sig, float(v[:, 1].mean()), mean1))
    h = ps.generate_heston(n, 6, init_state=(1.0, v0), kappa=kap, theta=th, sigma=sig, dt=dt, dtype=torch.float64)
    if z(h.variance[:, -1].mean(), mean, float(h.variance[:, -1].std()) / n ** 0.5) > 6: bad.append(("heston variance mean", sig, float(h.variance[:, -1].mean()), mean))
# CIR at a small scale in the default dtype (float32): by scale covariance the law of (theta, v0, sigma) / (c, c, sqrt(c)) is the scaled law
sc = 200.0
v = ps.generate_cir(n, 6, init_state=(0.04 / sc,), kappa=1.5, theta=0.04 / sc, sigma=0.2 / sc ** 0.5, dt=0.02)
t = 5 * 0.02; e = math.exp(-1.5 * t)
var_s = ((0.04 / sc) * (0.2 ** 2 / sc) / 1.5 * (e - e * e) + (0.04 / sc) * (0.2 ** 2 / sc) / (2 * 1.5) * (1 - e) ** 2)
if abs(float(v[:, -1].double().var()) / var_s - 1) > 0.05: bad.append(("cir variance at scale 1/200 (float32)", float(v[:, -1].double().var()), var_s))
# Vasicek from a start away from theta
r = ps.generate_vasicek(n, 11, init_state=(0.01,), kappa=2.0, theta=0.05, sigma=0.02, dt=0.05, dtype=torch.float64)
e = math.exp(-2.0 * 0.5)
if z(r[:, -1].mean(), 0.05 + (0.01 - 0.05) * e, float(r[:, -1].std()) / n ** 0.5) > 5: bad.append(("vasicek mean", float(r[:, -1].mean())))
if abs(float(r[:, -1].var()) / (0.02 ** 2 * (1 - e * e) / 4.0) - 1) > 0.02: bad.append(("vasicek variance", float(r[:, -1].var())))
result = {"got": [str(b) for b in bad], "ref": []}
'''


def _replay_law():
    r = real_exec(LAW_REPLAY, {}, timeout=900)
    ok = r.get('ok') and r['result']['got'] == []
    return {'real': r, 'confirmed': not ok, 'note': 'replay: seeded Monte Carlo (4e5 paths) of the real generators against the closed-form means/variances, non-default parameters, initial states and dt (5-6 standard errors)'}


def _verdict_law(rows, t0, sample, aspect=None):
    rows = _select(rows, aspect)
    if not rows:
        return Verdict('unknown', 'engine', time.time() - t0, 'no rows for aspect %s' % aspect, sample=sample)
    bad = [r for r in rows if r[1] == 'refuted']
    unk = [r for r in rows if r[1] == 'unknown']
    sample['vcs'] = [{'vc': r[0], 'status': r[1]} for r in rows][:14]
    if bad:
        return Verdict('refuted', 'moment calculus + z3', time.time() - t0, '; '.join('%s %s' % (r[0], r[2]) for r in bad)[:700], witness={'failed': [r[0] for r in bad]}, sample=sample, replay=_replay_law())
    if unk:
        return Verdict('unknown', 'moment calculus + z3', time.time() - t0, '; '.join('%s %s' % (r[0], r[2]) for r in unk)[:700], sample=sample)
    return Verdict('proved', 'moment calculus + z3 (NRA)', time.time() - t0, '%d identities' % len(rows), sample=sample)


def merton_moments_ob():
    def check():
        t0 = time.time()
        import torch
        import pfhedge.stochastic as ps
        hyps = DIMS + [tm.ge(T, tm.const(2, 'I')), tm.gt(V['dt'], tm.ZERO), tm.gt(V['x0'], tm.ZERO), tm.ge(V['lam'], tm.ZERO), tm.ge(V['js'], tm.ZERO)]

        def run(c):
            c.lazy_defined = True
            return ps.generate_merton_jump(SInt(N), SInt(T), init_state=(SReal(V['x0']),), mu=SReal(V['mu']), sigma=SReal(V['sigma']), jump_per_year=SReal(V['lam']),
                                           jump_mean=SReal(V['jm']), jump_std=SReal(V['js']), dt=SReal(V['dt']), dtype=torch.float64)
        p = explore(run, hyps, max_paths=4)[0]
        if p.outcome() != 'returns':
            return Verdict('unknown', 'engine', time.time() - t0, str((p.outcome(), str(p.exception)[:200], p.traceback[-300:])))
        n, j = tm.var('n', 'I'), tm.var('j', 'I')
        rng = [tm.le(tm.IZERO, n), tm.lt(n, N), tm.le(tm.IZERO, j), tm.lt(j, T)]
        E, others = _exp_arg(p.result.at((n, j)))
        pois = [e for e in p.events if e[0] == 'poisson_rate']
        if len(pois) != 1:
            return Verdict('unknown', 'engine', time.time() - t0, 'expected one Poisson source')
        pname, rate = pois[0][1], pois[0][2]
        # jump sum: items mentioning the Poisson counts
        from pfv import diff as Dm
        jump_items = [(bs, b) for (bs, b) in fc._items(E) if any(u.op == 'sel' and u.args[0] == pname for u in tm.subterms(b))]
        diffusion = [s_ for s_ in _normal_sums(tm.add(*[tm.ZERO] + [tm.tsum(bs[0][0], bs[0][1], bs[0][2], b) for (bs, b) in fc._items(E) if len(bs) == 1 and (bs, b) not in jump_items])) ]
        if len(jump_items) != 1:
            return Verdict('unknown', 'engine', time.time() - t0, 'jump part not recognised: %s' % tm.show(E)[:300])
        (bs, body) = jump_items[0]
        (bv, lo, hi) = bs[0]
        # one summand (k >= 1): a P + b sqrt(P) Z'   -> conditional N(a P, b^2 P)
        body1 = tm.subst(body, {bv: tm.add(lo, tm.IONE)})
        Pt = [u for u in tm.subterms(body1) if u.op == 'sel' and u.args[0] == pname][0]
        Zt = [u for u in tm.subterms(body1) if u.op == 'sel' and u.args[0].startswith('Z')]
        Pv, sq = tm.var('Pv'), tm.var('sqP')
        b_abs = tm.subst(tm.subst(body1, {tm.app('sqrt', Pt): sq}), {Pt: Pv})
        a_coef = Dm.diff(tm.subst(b_abs, {Zt[0]: tm.ZERO}) if Zt else b_abs, Pv)
        b_coef = Dm.diff(Dm.diff(b_abs, Zt[0]), sq) if Zt else tm.ZERO
        resid = tm.sub(b_abs, tm.add(tm.mul(a_coef, Pv), tm.mul(b_coef, sq, Zt[0]) if Zt else tm.ZERO))
        nj = tm.sub(tm.sub(hi, lo), tm.IONE)                       # jumps at steps 1..j (the k = 0 summand is the zero column)
        zero_at_0 = tm.subst(body, {bv: lo})
        D0 = _zero_randoms(E, {pname} | {s_[2] for s_ in diffusion} | ({Zt[0].args[0]} if Zt else set()))
        dvar = tm.add(*[tm.mul(c_, c_, tm.toreal(cnt)) for (c_, cnt, _) in diffusion]) if diffusion else tm.ZERO
        mgf = tm.mul(rate, tm.sub(tm.app('exp', tm.add(a_coef, tm.div(tm.mul(b_coef, b_coef), tm.const(2.0)))), tm.ONE))     # R4 per step
        tj = tm.mul(V['dt'], tm.toreal(j))
        goals = [('jump summand is a P + b sqrt(P) Z (conditionally Gaussian)', tm.eq(resid, tm.ZERO)),
                 ('no jump at time 0', tm.eq(zero_at_0, tm.ZERO)),
                 ('E[S_t] == S0 exp(mu t): drift + diffusion variance/2 + t * lambda (E e^J - 1) == mu t  (R1, R4)',
                  tm.eq(tm.add(D0, tm.div(dvar, tm.const(2.0)), tm.mul(tm.toreal(nj), mgf)), tm.mul(V['mu'], tj))),
                 ('Var[log S_t] == sigma^2 t + lambda t (jump_mean^2 + jump_std^2)',
                  tm.eq(tm.add(dvar, tm.mul(tm.toreal(nj), rate, tm.add(tm.mul(a_coef, a_coef), tm.mul(b_coef, b_coef)))),
                        tm.add(tm.mul(V['sigma'], V['sigma'], tj), tm.mul(V['lam'], tj, tm.add(tm.mul(V['jm'], V['jm']), tm.mul(V['js'], V['js'])))))),
                 ('Poisson rate == jump_per_year * dt', tm.eq(rate, tm.mul(V['lam'], V['dt'])))]
        rows = []
        for (lab, g) in goals:
            r = smt.prove(p.facts(hyps) + rng + [tm.ge(j, tm.IZERO)], g, timeout_ms=30000)
            rows.append((lab, {'unsat': 'proved', 'sat': 'refuted'}.get(r.status, 'unknown'), tm.show(g)[:300] if r.status != 'unsat' else ''))
        return _verdict_law(rows, t0, {'claim': 'Merton: martingale-compensated mean and documented log-variance', 'a': tm.show(a_coef), 'b': tm.show(b_coef)})
    return Obligation('LAW/merton_jump/moments', 'lemma', S_ + 'merton_jump.generate_merton_jump', check, ['C10'],
                      clause='Merton jump diffusion: E[S_t] = S0 exp(mu t) (the drift compensates lambda (E e^J - 1)) and Var[log S_t] = sigma^2 t + lambda t (m^2 + s^2), from the path-wise term under R1, R4')


def kou_ob(aspect=None):
    def check():
        t0 = time.time()
        import torch
        import pfhedge.stochastic as ps
        K_ = {n_: tm.var(n_) for n_ in ('mup', 'mdn', 'pup')}
        hyps = DIMS + [tm.gt(V['dt'], tm.ZERO), tm.gt(V['x0'], tm.ZERO), tm.gt(K_['mup'], tm.ZERO), tm.lt(K_['mup'], tm.ONE), tm.gt(K_['mdn'], tm.ZERO),
                       tm.ge(K_['pup'], tm.ZERO), tm.le(K_['pup'], tm.ONE), tm.ge(V['lam'], tm.ZERO)]
        rows = []
        sample = {'claim': 'Kou: well-formed; compensator matches the sampled jump law; zero intensity reduces to GBM'}
        for zero in (False, True):
            def run(c):
                c.lazy_defined = True
                return ps.generate_kou_jump(SInt(N), SInt(T), init_state=(SReal(V['x0']),), sigma=SReal(V['sigma']), mu=SReal(V['mu']), jump_per_year=0.0 if zero else SReal(V['lam']),
                                            jump_mean_up=SReal(K_['mup']), jump_mean_down=SReal(K_['mdn']), jump_up_prob=SReal(K_['pup']), dt=SReal(V['dt']), dtype=torch.float64)
            try:
                paths = explore(run, hyps, max_paths=16)
            except Unsupported as e:
                return Verdict('unknown', 'engine', time.time() - t0, 'out of reach: %s' % e)
            for p in paths:
                if p.outcome() != 'returns':
                    return Verdict('unknown', 'engine', time.time() - t0, str((p.outcome(), str(p.exception)[:200], p.traceback[-300:])))
                res = p.result
                n, j = tm.var('n', 'I'), tm.var('j', 'I')
                rng = [tm.le(tm.IZERO, n), tm.lt(n, N), tm.le(tm.IZERO, j), tm.lt(j, T)]
                facts = p.facts(hyps)
                tag = 'zero intensity: ' if zero else ''
                rows += [r_ for r_ in _check_common(p, res, hyps, V['x0'], positive=True, label=tag) if 'defined' not in r_[0]]
                el = res.at((n, j))
                tj = tm.mul(V['dt'], tm.toreal(j))
                if zero:
                    k = tm.fresh('k', 'I')
                    W2 = tm.tsum(k, tm.IZERO, tm.add(j, tm.IONE), tm.ite(tm.eq(k, tm.IZERO), tm.ZERO, tm.mul(V['sigma'], tm.app('sqrt', V['dt']), tm.sel('Z0', n, k))))
                    want = tm.mul(V['x0'], tm.app('exp', tm.add(tm.mul(tm.sub(V['mu'], tm.mul(tm.const(0.5), V['sigma'], V['sigma'])), tj), W2)))
                    r = fc.prove_eq(facts + rng, el, want, timeout_ms=30000)
                    rows.append((LAW + 'zero intensity: reduces to geometric Brownian motion', {'unsat': 'proved', 'sat': 'refuted'}.get(r.status, 'unknown'), tm.show(el)[:300] if r.status != 'unsat' else ''))
                    continue
                E, others = _exp_arg(el)
                sums = _normal_sums(E)
                D0 = _zero_randoms(E, {s_[2] for s_ in sums})
                dvar = tm.add(*[tm.mul(c_, c_, tm.toreal(cnt)) for (c_, cnt, _) in sums]) if sums else tm.ZERO
                # jump law, read off the sampled log-jump term:  ite(U < p_up, Exp(eta_up), -Exp(eta_down))
                laws = [u for f_ in others for u in tm.subterms(f_) if u.op == 'ite' and u.args[0].op == 'lt' and u.args[0].args[0].op == 'sel' and u.args[0].args[0].args[0].startswith('U')]
                rates = {e[1]: e[2] for e in p.events if e[0] == 'exponential_rate'}
                pr = [e for e in p.events if e[0] == 'poisson_rate']
                if not laws and smt.prove(facts, tm.le(T, tm.IONE), timeout_ms=5000).status == 'unsat':
                    continue        # a single time point: no jump is ever drawn on this path
                if not laws or len(pr) != 1:
                    return Verdict('unknown', 'engine', time.time() - t0, 'jump law not recognised')
                law = laws[0]
                p_up = law.args[0].args[1]
                up, dn = law.args[1], law.args[2]
                if not (up.op == 'sel' and dn.op == 'neg' and dn.args[0].op == 'sel' and up.args[0] in rates and dn.args[0].args[0] in rates):
                    return Verdict('unknown', 'engine', time.time() - t0, 'jump law not recognised: %s' % tm.show(law)[:200])
                eu, ed = rates[up.args[0]], rates[dn.args[0].args[0]]
                # one direction flag PER sampled jump: every index variable of the exponential draw also indexes the uniform (a flag that
                # lacks one of them is shared by several jumps - the jump sizes within a step are then not independent and R2/R3 do not apply)
                u_sel = law.args[0].args[0]
                fv_u = set().union(*[tm.free_vars(a_) for a_ in u_sel.args[1:]]) if len(u_sel.args) > 1 else set()
                fv_e = set().union(*[tm.free_vars(a_) for a_ in up.args[1:]]) if len(up.args) > 1 else set()
                fv_d = set().union(*[tm.free_vars(a_) for a_ in dn.args[0].args[1:]]) if len(dn.args[0].args) > 1 else set()
                shared = (fv_e | fv_d) - fv_u
                rows.append((LAW + 'every sampled jump has its own up/down flag and its own size (the draws are indexed by path, step and jump)',
                             'refuted' if shared else 'proved', 'the uniform %s does not depend on %s' % (tm.show(u_sel)[:80], sorted(tm.show(v_) for v_ in shared)) if shared else ''))
                EeJ = tm.add(tm.mul(p_up, tm.div(eu, tm.sub(eu, tm.ONE))), tm.mul(tm.sub(tm.ONE, p_up), tm.div(ed, tm.add(ed, tm.ONE))))     # R3
                rate = pr[0][2]
                goals = [('E[S_t] == S0 exp(mu t): drift + diffusion variance/2 + t lambda (E e^J - 1) == mu t   (R1, R2, R3 on the SAMPLED jump law)',
                          tm.eq(tm.add(D0, tm.div(dvar, tm.const(2.0)), tm.mul(tm.toreal(j), rate, tm.sub(EeJ, tm.ONE))), tm.mul(V['mu'], tj))),
                         ('Poisson rate == jump_per_year * dt', tm.eq(rate, tm.mul(V['lam'], V['dt']))),
                         ('jump rates are 1/jump_mean_up and 1/jump_mean_down; P(up) = jump_up_prob', tm.and_(tm.eq(eu, tm.div(tm.ONE, K_['mup'])), tm.eq(ed, tm.div(tm.ONE, K_['mdn'])), tm.eq(p_up, K_['pup'])))]
                for (lab, g) in goals:
                    r = smt.prove(facts + rng, g, timeout_ms=30000)
                    rows.append((LAW + lab, {'unsat': 'proved', 'sat': 'refuted'}.get(r.status, 'unknown'), tm.show(g)[:400] if r.status != 'unsat' else ''))
        return _verdict_law(rows, t0, sample, aspect)
    return Obligation('LAW/kou_jump/post+moments', 'post+lemma', S_ + 'kou_jump.generate_kou_jump', check, _props(aspect),
                      clause='Kou: (n_paths, n_steps), first column S0, positive; E[S_t] = S0 exp(mu t) with the compensator computed from the SAME up-probability and rates as the sampled jumps; zero intensity = geometric Brownian motion')


def _concrete_lemma_refute(so, tries=300):
    """a lemma `range => lhs == rhs` the solver left open: look for a concrete point (exact rational / mpmath evaluation of both sides
    under the ground hypotheses) where the two sides differ"""
    g = so['goal']
    conds = []
    while g.op == 'or' or g.op == 'implies':
        break
    # implies(a, b) is stored as or(not a, b): peel disjuncts that are negated conditions
    if g.op == 'or':
        eqs = [a for a in g.args if a.op == 'eq']
        others = [a for a in g.args if a.op != 'eq']
        if len(eqs) != 1:
            return None
        conds = [tm.not_(a) for a in others]
        g = eqs[0]
    if g.op != 'eq' or g.args[0].sort != 'R':
        return None
    ground = [h for h in so['hyps'] if 'forall' not in tm.show(h)[:4000]] + conds
    cs = fc.Case(None)
    try:
        return fc.random_refute(cs, ground, g.args[0], g.args[1], tries=tries)
    except Exception:
        return None


def cir_moments_ob():
    """one QE step: conditional mean and variance on both branches equal the closed-form CIR moments.
    The loop of the real generate_cir is cut; m, s2, psi are abstracted mid-body by the facts
        m = theta + (v - theta) e^{-kappa dt},  s2 = closed-form CIR conditional variance,  psi m^2 = s2
    (each proved about the computed tensor), and the moments of the two branch values are derived from the
    remaining small terms:
      R1  Var(c0 + c1 Z + c2 Z^2) = c1^2 + 2 c2^2,  E = c0 + c2            (quadratic branch)
      R5  on U > p, log((1-p)/(1-U))/beta is Exp(beta) w.p. 1-p, else 0:  E = (1-p)/beta,  E X^2 = 2(1-p)/beta^2"""
    def check():
        t0 = time.time()
        import torch
        import pfhedge.stochastic.cir as cirmod
        from pfv import diff as Dm
        hyps = DIMS + [tm.gt(V['kappa'], tm.ZERO), tm.gt(V['theta'], tm.ZERO), tm.gt(V['sigma'], tm.ZERO), tm.gt(V['dt'], tm.ZERO), tm.ge(V['v0'], tm.ZERO)]
        at = lambda t_, n: t_.at((n,)) if t_._shape else t_.at(())
        e1 = tm.app('exp', tm.neg(tm.mul(V['kappa'], V['dt'])))
        EPS = tm.const(2.0 ** -126)

        def m_spec(v_):
            return tm.add(V['theta'], tm.mul(tm.sub(v_, V['theta']), e1))

        def s2_spec(v_):
            return tm.add(tm.div(tm.mul(v_, V['sigma'], V['sigma'], tm.sub(e1, tm.mul(e1, e1))), V['kappa']),
                          tm.div(tm.mul(V['theta'], V['sigma'], V['sigma'], tm.powt(tm.sub(tm.ONE, e1), tm.const(2, 'I'))), tm.mul(tm.const(2.0), V['kappa'])))
        abstractions = {
            'v': lambda st, x: [('v >= 0', lambda y, n: tm.ge(at(y, n), tm.ZERO))],
            'm': lambda st, x: [('m == theta + (v - theta) e^{-kappa dt}  (closed-form CIR conditional mean)', lambda y, n: tm.eq(at(y, n), m_spec(at(st['v'], n)))),
                                ('m > 0', lambda y, n: tm.gt(at(y, n), tm.ZERO))],
            's2': lambda st, x: [('s2 == closed-form CIR conditional variance', lambda y, n: tm.eq(at(y, n), s2_spec(at(st['v'], n)))), ('s2 >= 0', lambda y, n: tm.ge(at(y, n), tm.ZERO))],
            'psi': lambda st, x: [('psi m^2 == s2 (away from underflow: m^2 >= EPSILON)', lambda y, n: tm.implies(tm.ge(tm.mul(at(st['m'], n), at(st['m'], n)), EPS), tm.eq(tm.mul(at(y, n), at(st['m'], n), at(st['m'], n)), at(st['s2'], n)))),
                                  ('psi >= 0', lambda y, n: tm.ge(at(y, n), tm.ZERO))],
        }

        def lemmas(state):
            i = lift(state['i_step'])
            im1 = tm.sub(i, tm.IONE)
            L = []
            m_, psi_, s2_ = state['m'], state['psi'], state['s2']
            n0, n1, uu, pp, bb = state['next_0'], state['next_1'], state['u'], state['p'], state['beta']
            zname = [e[2] for e in ctx().events if e[0] == 'random' and e[1] == 'Z'][0]

            def quad(n):
                q = at(n0, n)
                z = tm.sel(zname, n, im1)
                d1 = Dm.diff(q, z)
                d2 = Dm.diff(d1, z)
                d3 = Dm.diff(d2, z)
                z0 = {z: tm.ZERO}
                c0, c1, c2 = tm.subst(q, z0), tm.subst(d1, z0), tm.div(tm.subst(d2, z0), tm.const(2.0))
                ok = tm.and_(tm.gt(at(psi_, n), tm.ZERO), tm.le(at(psi_, n), tm.const(2.0)))
                return tm.implies(ok, tm.and_(tm.eq(d3, tm.ZERO), tm.eq(tm.add(c0, c2), at(m_, n)),
                                              tm.eq(tm.add(tm.mul(c1, c1), tm.mul(tm.const(2.0), c2, c2)), tm.mul(at(psi_, n), at(m_, n), at(m_, n)))))
            L.append(('quadratic branch (0 < psi <= 2): degree 2 in Z, E[v\'] == m, Var[v\'] == psi m^2   (R1)', quad, tm.IZERO, N))

            def expo_parts(n):
                x = at(n1, n)
                u = at(uu, n)
                p_, b_, mm = at(pp, n), at(bb, n), at(m_, n)
                away = tm.and_(tm.ge(mm, EPS), tm.ge(tm.sub(tm.ONE, u), EPS))
                form = tm.eq(x, tm.ite(tm.lt(p_, u), tm.div(tm.app('log', tm.div(tm.sub(tm.ONE, p_), tm.sub(tm.ONE, u))), b_), tm.ZERO))
                mean = tm.eq(tm.div(tm.sub(tm.ONE, p_), b_), mm)
                var = tm.eq(tm.div(tm.mul(tm.sub(tm.ONE, p_), tm.add(tm.ONE, p_)), tm.mul(b_, b_)), tm.mul(at(psi_, n), mm, mm))
                return away, form, mean, var
            out_ = state['output']

            def selected(n):
                # the value written for step i comes from a branch that is valid at this psi: quadratic needs psi <= 2 (real b), exponential needs psi >= 1 (p >= 0)
                w = out_.at((n, i))
                ps = at(psi_, n)
                return tm.or_(tm.and_(tm.le(ps, tm.const(2.0)), tm.eq(w, at(n0, n))), tm.and_(tm.ge(ps, tm.ONE), tm.eq(w, at(n1, n))))
            L.append(('exponential branch: value is the inverse-transform sample log((1-p)/(1-U))/beta on U > p, else 0   (R5 pattern)', lambda n: tm.implies(expo_parts(n)[0], expo_parts(n)[1]), tm.IZERO, N))
            L.append(('exponential branch: E[v\'] = (1-p)/beta == m', lambda n: tm.implies(expo_parts(n)[0], expo_parts(n)[2]), tm.IZERO, N))
            def helper(k):
                def f(n):
                    away = expo_parts(n)[0]
                    p_, b_, mm, ps = at(pp, n), at(bb, n), at(m_, n), at(psi_, n)
                    g = [tm.eq(tm.mul(tm.sub(tm.ONE, p_), tm.add(ps, tm.ONE)), tm.const(2.0)),
                         tm.eq(tm.mul(tm.add(tm.ONE, p_), tm.add(ps, tm.ONE)), tm.mul(tm.const(2.0), ps)),
                         tm.eq(tm.mul(b_, mm, tm.add(ps, tm.ONE)), tm.const(2.0)),
                         tm.eq(tm.mul(tm.sub(tm.ONE, p_), tm.add(tm.ONE, p_)), tm.mul(ps, b_, mm, b_, mm))][k]
                    return tm.implies(away, g)
                return f
            gen = {'abstract': lambda n: {'p': at(pp, n), 'beta': at(bb, n)},
                   'using': lambda n: [helper(0)(n), helper(1)(n), helper(2)(n), tm.ge(at(psi_, n), tm.ZERO)]}
            for k, nm in enumerate(['(1-p)(psi+1) == 2', '(1+p)(psi+1) == 2 psi', 'beta m (psi+1) == 2']):
                L.append(('exponential branch, step: ' + nm, helper(k), tm.IZERO, N))
            L.append(('exponential branch, step: (1-p)(1+p) == psi (beta m)^2', helper(3), tm.IZERO, N, gen))
            gen2 = {'abstract': lambda n: {'p': at(pp, n), 'beta': at(bb, n)},
                    'using': lambda n: [helper(2)(n), helper(3)(n), tm.ge(at(psi_, n), tm.ZERO)]}
            L.append(('exponential branch: E[v\'^2] - m^2 = (1-p^2)/beta^2 == psi m^2', lambda n: tm.implies(expo_parts(n)[0], expo_parts(n)[3]), tm.IZERO, N, gen2))
            L.append(('the written value is the quadratic value only where psi <= 2 and the exponential value only where psi >= 1 (the ranges on which each branch matches the moments)', selected, tm.IZERO, N,
                      {'abstract': lambda n: {'q': at(n0, n), 'x': at(n1, n)}, 'using': lambda n: []}))   # only the selection matters: both branch values are opaque here
            return L

        def inv(state, state0):
            # the invariant of GEN/generate_cir/loop (C11), whose init/preservation is discharged there and only assumed here
            out, it = state['output'], lift(state['i_step'])
            n, k = tm.fresh('in', 'I'), tm.fresh('ik', 'I')
            return [('variance >= 0 up to the current step', tm.forall(n, tm.IZERO, N, tm.forall(k, tm.IZERO, tm.add(it, tm.IONE), tm.ge(out.at((n, k)), tm.ZERO))))]
        cut, info = cutloops.cut(cirmod.generate_cir, {0: cutloops.LoopSpec(inv, name='for i_step', lemmas=lemmas, abstractions=abstractions)})

        def run(c):
            c.lazy_defined = True
            _assume_u(c, 'U1', (N, T))
            return cut(SInt(N), SInt(T), init_state=(SReal(V['v0']),), kappa=SReal(V['kappa']), theta=SReal(V['theta']), sigma=SReal(V['sigma']), dt=SReal(V['dt']), dtype=torch.float32)
        try:
            paths = explore(run, hyps, max_paths=16)
        except Unsupported as e:
            return Verdict('unknown', 'engine', time.time() - t0, 'out of reach: %s' % e)
        rows = []
        for p in paths:
            if p.aborted is not None and p.aborted.kind == 'loop-cut':
                for so in p.side:
                    if so['kind'] != 'lemma':
                        continue
                    r = smt.prove(so['hyps'], so['goal'], timeout_ms=90000)   # 3-8 s alone; sized for a loaded machine
                    st_ = {'unsat': 'proved', 'sat': 'refuted'}.get(r.status, 'unknown')
                    why = (r.reason or '') if r.status != 'unsat' else ''
                    if st_ == 'unknown':
                        w_ = _concrete_lemma_refute(so)
                        if w_ is not None:
                            st_, why = 'refuted', 'the two sides differ at %s' % {k_: v_ for k_, v_ in w_.items() if not k_.endswith('.shape')}
                    rows.append((so['name'], st_, why))
        if not rows:
            return Verdict('unknown', 'engine', time.time() - t0, 'no iteration path')
        return _verdict_law(rows, t0, {'claim': 'Andersen QE step matches the first two conditional moments of the CIR process on both branches', 'rewritten': info['rewritten'][-700:]})
    return Obligation('LAW/cir/one-step-moments', 'lemma', S_ + 'cir.generate_cir', check, ['C10'],
                      clause='CIR/Heston variance: on both branches of the quadratic-exponential scheme E[v\'|v] = theta + (v-theta)e^{-kappa dt} and Var[v\'|v] = the closed-form CIR conditional variance (from any v)')


ROUGH_REPLAY = '''
import pfhedge.stochastic as ps
torch.manual_seed(0)
bad = []
for n_steps in (126, 251):
    s, v = ps.generate_rough_bergomi(40000, n_steps, dt=1/250, dtype=torch.float64)
    m = float(v[:, -1].mean()); se = float(v[:, -1].std()) / 200.0
    if abs(m - 0.04) > max(6 * se, 0.002): bad.append((n_steps, round(m, 4)))
result = {"got": [str(b) for b in bad], "ref": []}
'''


def rough_bergomi_bounded_obs():
    def level():
        t0 = time.time()
        r = real_exec(ROUGH_REPLAY, {}, timeout=900)
        if r.get('ok') and r['result']['got'] == []:
            return Verdict('proved', 'bounded: seeded Monte Carlo on real torch', time.time() - t0, 'mean forward variance within tolerance at 0.5y and 1y', sample={'claim': 'BOUNDED: rough Bergomi forward variance stays at xi'})
        return Verdict('refuted', 'bounded: seeded Monte Carlo on real torch', time.time() - t0, 'mean variance at the horizon deviates from xi=0.04: %s' % (r.get('result', r),),
                       witness={'result': str(r.get('result'))[:300], 'signature': str(r.get('result', {}).get('got'))}, replay={'real': r, 'confirmed': True})

    def one_step():
        t0 = time.time()
        r = real_exec('import pfhedge.stochastic as ps\ntry:\n    s, v = ps.generate_rough_bergomi(3, 1, init_state=(2.0, 0.09))\n    got = [list(s.shape), list(v.shape)]\nexcept Exception as e:\n    got = type(e).__name__\nresult = {"got": got, "ref": [[3, 1], [3, 1]]}', {})
        if r.get('ok') and r['result']['got'] == r['result']['ref']:
            return Verdict('proved', 'bounded: real run', time.time() - t0, '', sample={'claim': 'BOUNDED: rough Bergomi with n_steps = 1'})
        return Verdict('refuted', 'bounded: real run', time.time() - t0, 'generate_rough_bergomi(n_paths, 1) -> %s' % (r.get('result', r),), witness={'result': str(r.get('result'))[:200], 'signature': str((r.get('result') or {}).get('got'))}, replay={'real': r, 'confirmed': True})
    return [Obligation('LAW/rough_bergomi/forward-variance[bounded]', 'post', S_ + 'rough_bergomi.generate_rough_bergomi', level, ['C10'], bounded=True,
                       clause='BOUNDED: rough-Bergomi forward variance stays at xi (seeded Monte Carlo, 4e4 paths, horizons 0.5y and 1y)'),
            Obligation('GEN/rough_bergomi/n_steps=1[bounded]', 'post', S_ + 'rough_bergomi.generate_rough_bergomi', one_step, ['C11'], bounded=True,
                       clause='BOUNDED: generate_rough_bergomi(n_paths, 1) returns (n_paths, 1) series (a zero-horizon simulate)')]


def c10_obligations(seed, tier='quick'):
    rb = rough_bergomi_bounded_obs()
    return [brownian_ob(False, 'law'), brownian_ob(True, 'law'), merton_ob('law'), vasicek_ob('law'), heston_ob('law'), local_vol_ob('law'), gbm_moments_ob(), merton_moments_ob(), kou_ob('law'), cir_moments_ob(), rb[0],
            vasicek_ob('law', scalar_init=True)]
