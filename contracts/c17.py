"""C17 - instrument dtype/device contract over any cast/simulate sequence.

A representation invariant proved inductively (= every history, no depth bound):
  Inv(p):  for every buffer b of primary p:  p.dtype is None  or  b.dtype == p.dtype ;  p.dtype in {None} u Float
  inv-init      every primary's constructor (dtype in {None, f16, bf16, f32, f64}, both global defaults)
  inv-preserve  from an ARBITRARY state satisfying Inv (declared dtype D0, one or two buffers) each operation
                to(D1) / to(dtype=D1) / float() / double() / half() / bfloat16() / cpu() / to(device) / to(tensor) /
                to(instrument) / register_buffer(name, tensor of any float dtype) / simulate()
                re-establishes Inv and sets the declared dtype as documented
  raises        TypeError for non-floating targets, state unchanged
  derivative    dtype/device are the single underlier's; to() reaches every underlier
  consumers     payoffs, features, time to maturity, BS prices/deltas, hedges, P&L, criteria computed from an
                instrument of dtype D are of dtype D (both global defaults)
The dtype universe is finite, so each obligation enumerates it exhaustively; dtype propagation through
the code is by the torch promotion contract (pfv/torchlib result_dtype), device is the abstract CPU."""
import itertools
import time

from pfv import terms as tm
from pfv.framework import Obligation, Verdict, real_exec
from pfv.proxies import explore, SReal, SInt
import functools as _ft
_explore_raw = explore
explore = _ft.partial(_explore_raw, enforce_bounds=True)     # shim range assumptions (slices / indices) must be provable on every returning path
from contracts import instruments as ins
from contracts import hedging

PROP = 'C17'
ASSUMPTIONS = [
    'A3 torch type promotion table as encoded in pfv/torchlib/tensor.py (tensor op python-scalar keeps the tensor dtype; 0-dim vs n-dim; category promotion; .to(t), .to(dtype), *_like, new_*), cross-checked against real torch by the replay scripts',
    'device: a single abstract CPU device (only CPU exists in this sandbox); device clauses are proved about the abstract value and never replayed on another device',
    'half precisions: dtype bookkeeping only (whether a backend kernel exists for float16/bfloat16 is outside)',
    'simulate(): the generators return the requested dtype (C11); here the real generators run on the shim for Brownian/Heston/CIR/Vasicek/Merton/local-vol, and register_buffer casts to the declared dtype in any case',
    'induction over histories: inv-init + inv-preserve for every operation from an arbitrary Inv-state gives the invariant after every finite sequence',
]
FUNCTIONS = ins.FUNCTIONS


def _dtypes():
    import torch
    return [None, torch.float16, torch.bfloat16, torch.float32, torch.float64]


def _inv(inst):
    return all((inst.dtype is None) or (b.dtype is inst.dtype) for _, b in inst.named_buffers())


def _state(clsname, D0, Dbuf):
    """An arbitrary Inv-state: declared dtype D0, buffers (symbolic contents) of dtype Dbuf (== D0 unless D0 is None)."""
    import torch
    from pfv.torchlib.tensor import Tensor
    mod, inst, _ = ins._mk_primary(clsname, dtype=D0, sym=False)
    N, T = tm.var('N', 'I'), tm.var('T', 'I')
    for b in ins.PRIMARIES[clsname][3]:
        inst._buffers[b] = Tensor.input('buf_' + b, (N, T), Dbuf)
    assert _inv(inst)
    return inst


def init_ob():
    def check():
        import torch
        t0 = time.time()
        n = 0
        for default in (torch.float32, torch.float64):
            torch.set_default_dtype(default)
            try:
                for clsname in ins.PRIMARIES:
                    for D in _dtypes():
                        paths = explore(lambda c: ins._mk_primary(clsname, dtype=D, sym=False)[1], [], max_paths=2)
                        inst = paths[0].result
                        n += 1
                        if paths[0].outcome() != 'returns' or inst.dtype is not D or list(inst.named_buffers()) or not _inv(inst):
                            return Verdict('refuted', 'enumeration', time.time() - t0, '%s(dtype=%s): dtype %s' % (clsname, D, getattr(inst, 'dtype', '?')), witness={'cls': clsname, 'dtype': str(D)}, replay=_replay())
            finally:
                torch.set_default_dtype(torch.float32)
        return Verdict('proved', 'exhaustive enumeration (finite dtype universe)', time.time() - t0, '%d cases' % n, sample={'claim': 'Inv after construction', 'cases': n})
    return Obligation('C17/Inv/init', 'inv-init', 'pfhedge.instruments.primary.base.BasePrimary.to', check, [PROP], clause='every primary constructor establishes Inv and declares the requested dtype')


OPS = ['to(D1)', 'to(dtype=D1)', 'to(tensor)', 'to(instrument)', 'float()', 'double()', 'half()', 'bfloat16()', 'cpu()', 'to(device)', 'register_buffer', 'simulate']


def preserve_ob(op):
    def check():
        import torch
        from pfv.torchlib.tensor import Tensor
        t0 = time.time()
        n = 0
        floats = [torch.float16, torch.bfloat16, torch.float32, torch.float64]
        for default in (torch.float32, torch.float64):
            torch.set_default_dtype(default)
            try:
                for clsname in ('BrownianStock', 'HestonStock', 'VasicekRate'):
                    for D0 in _dtypes():
                        for Dbuf in (floats if D0 is None else [D0]):
                            for D1 in (floats if ('D1' in op or op in ('to(tensor)', 'to(instrument)', 'register_buffer')) else [None]):
                                def run(c):
                                    inst = _state(clsname, D0, Dbuf)
                                    if clsname == 'HestonStock':
                                        inst.volatility       # a derived quantity read BEFORE the operation (any cache is now warm)
                                    if op == 'to(D1)':
                                        r = inst.to(D1); want = D1
                                    elif op == 'to(dtype=D1)':
                                        r = inst.to(dtype=D1); want = D1
                                    elif op == 'to(tensor)':
                                        r = inst.to(Tensor.input('other', (), D1)); want = D1
                                    elif op == 'to(instrument)':
                                        other = ins._mk_primary('BrownianStock', dtype=D1, sym=False)[1]
                                        r = inst.to(other); want = D1
                                    elif op == 'float()':
                                        r = inst.float(); want = torch.float32
                                    elif op == 'double()':
                                        r = inst.double(); want = torch.float64
                                    elif op == 'half()':
                                        r = inst.half(); want = torch.float16
                                    elif op == 'bfloat16()':
                                        r = inst.bfloat16(); want = torch.bfloat16
                                    elif op == 'cpu()':
                                        r = inst.cpu(); want = D0
                                    elif op == 'to(device)':
                                        r = inst.to(torch.device('cpu')); want = D0
                                    elif op == 'register_buffer':
                                        inst.register_buffer('extra', Tensor.input('extra', (tm.var('N', 'I'),), D1)); r = inst; want = D0
                                    elif op == 'simulate':
                                        inst.simulate(n_paths=2, time_horizon=0.03); r = inst; want = D0
                                    return inst, r, want
                                try:
                                    paths = explore(run, [tm.ge(tm.var('N', 'I'), tm.IONE), tm.ge(tm.var('T', 'I'), tm.IONE)], max_paths=4)
                                except Exception as e:
                                    return Verdict('unknown', 'engine', time.time() - t0, '%s %s: %s' % (clsname, op, e))
                                for p in paths:
                                    n += 1
                                    if p.outcome() != 'returns':
                                        return Verdict('unknown', 'engine', time.time() - t0, '%s %s D0=%s D1=%s: %s %s %s' % (clsname, op, D0, D1, p.outcome(), p.exception, p.traceback[-500:]))
                                    inst, r, want = p.result
                                    eff_default = default
                                    okd = inst.dtype is want
                                    okb = _inv(inst) and (op != 'simulate' or all(b.dtype is (want or eff_default) for _, b in inst.named_buffers()))
                                    if clsname == 'HestonStock' and okb:
                                        # derived series follow the CURRENT buffers: dtype and value
                                        vol, var = inst.volatility, inst.get_buffer('variance')
                                        n_, t_ = tm.var('n', 'I'), tm.var('t', 'I')
                                        same = vol.at((n_, t_)) is tm.app('sqrt', tm.tmax(var.at((n_, t_)), tm.ZERO))
                                        okb = vol.dtype is var.dtype and same
                                    if not (okd and okb and r is inst):
                                        return Verdict('refuted', 'enumeration', time.time() - t0,
                                                       '%s: from declared %s (buffers %s), %s%s -> declared %s, buffers %s' % (clsname, D0, Dbuf, op, '' if D1 is None else ' with D1=%s' % D1, inst.dtype, [str(b.dtype) for _, b in inst.named_buffers()]),
                                                       witness={'cls': clsname, 'op': op, 'D0': str(D0), 'D1': str(D1), 'default': str(default)}, replay=_replay())
            finally:
                torch.set_default_dtype(torch.float32)
        return Verdict('proved', 'exhaustive enumeration (finite dtype universe) from an arbitrary Inv-state', time.time() - t0, '%d cases' % n, sample={'claim': 'Inv preserved by ' + op, 'cases': n})
    return Obligation('C17/Inv/preserve[%s]' % op, 'inv-preserve', 'pfhedge.instruments.primary.base.BasePrimary.to', check, [PROP],
                      clause='%s from any state satisfying Inv re-establishes Inv with the documented declared dtype (3 primaries x 5 declared dtypes x 4 buffer dtypes x 4 targets x 2 defaults)' % op)


def raises_ob():
    def check():
        import torch
        from pfv.torchlib import tensor as tt
        t0 = time.time()
        for bad in (tt.int64, tt.int32, tt.bool_):
            def run(c):
                inst = _state('HestonStock', torch.float32, torch.float32)
                try:
                    inst.to(bad)
                except TypeError:
                    return inst, True
                return inst, False
            p = explore(run, [], max_paths=2)[0]
            inst, raised = p.result
            if not raised or inst.dtype is not torch.float32 or not _inv(inst):
                return Verdict('refuted', 'enumeration', time.time() - t0, 'to(%s): raised=%s, declared %s' % (bad, raised, inst.dtype), witness={'dtype': str(bad)}, replay=_replay())
        return Verdict('proved', 'enumeration', time.time() - t0, '', sample={'claim': 'non-floating dtypes rejected with TypeError, state unchanged'})
    return Obligation('C17/to/raises[non-floating]', 'raises', 'pfhedge.instruments.primary.base.BasePrimary.to', check, [PROP], clause='to(non-floating dtype) raises TypeError and leaves the instrument unchanged')


def derivative_ob():
    def check():
        import torch
        import pfhedge.instruments as pi
        t0 = time.time()
        for D in _dtypes()[1:]:
            def run(c):
                a = _state('BrownianStock', torch.float32, torch.float32)
                b = _state('HestonStock', torch.float32, torch.float32)
                d = pi.EuropeanOption(a)
                one = (d.dtype is a.dtype, d.device is a.device)
                d.register_underlier('second', b)
                try:
                    d.dtype
                    multi = False
                except AttributeError:
                    multi = True
                r = d.to(D)
                return a, b, one, multi, r is d
            p = explore(run, [], max_paths=2)[0]
            if p.outcome() != 'returns':
                return Verdict('unknown', 'engine', time.time() - t0, '%s %s' % (p.exception, p.traceback[-400:]))
            a, b, one, multi, same = p.result
            if not (all(one) and multi and same and a.dtype is D and b.dtype is D and _inv(a) and _inv(b)):
                return Verdict('refuted', 'enumeration', time.time() - t0, 'derivative dtype/to: single=%s multi-raises=%s underliers %s %s' % (one, multi, a.dtype, b.dtype),
                               witness={'D': str(D)}, replay=_replay())
        return Verdict('proved', 'enumeration', time.time() - t0, '', sample={'claim': 'derivative dtype/device = underlier\'s; to() forwards to every underlier'})
    return Obligation('C17/BaseDerivative/dtype+to', 'post', 'pfhedge.instruments.derivative.base.BaseDerivative.to', check, [PROP],
                      clause='a derivative\'s dtype/device are its single underlier\'s (AttributeError with several); to() casts every underlier')


def consumers_ob():
    def check():
        import torch
        import pfhedge.nn as pnn
        import pfhedge.instruments as pi
        from pfhedge.features import get_feature
        from pfv.torchlib.tensor import Tensor
        H = hedging
        t0 = time.time()
        n = 0
        for default in (torch.float32, torch.float64):
            torch.set_default_dtype(default)
            try:
                for D in (torch.float32, torch.float64, torch.float16, torch.bfloat16):
                    def run(c):
                        out = {}
                        for kind in ('european', 'lookback', 'american_binary', 'european_binary'):
                            d = H.mk_derivative(kind=kind, dtype=D)
                            H.assume_positive_spot(c)
                            out['payoff:' + kind] = d.payoff()
                        d = H.mk_derivative(dtype=D)
                        d.list(lambda dd: dd.ul().spot * 1.5)
                        for fname in H.FEATURES:
                            if H.FEATURES[fname][1][0] != 'brownian':
                                continue
                            f = get_feature(H.FEATURES[fname][0]()).of(d)
                            out['feature:%s:i' % fname] = f.get(SInt(H.I))
                            out['feature:%s:all' % fname] = f.get(None)
                        out['listed spot'] = d.spot
                        out['time_to_maturity'] = d.time_to_maturity()
                        out['moneyness'] = d.moneyness()
                        out['max_log_moneyness'] = d.max_log_moneyness()
                        dh = H.mk_derivative(underlier='heston', dtype=D)
                        H.assume_nonneg(c, 'variance')
                        out['heston volatility'] = dh.ul().volatility
                        d2 = H.mk_derivative(dtype=D)
                        bs = pnn.BlackScholes(d2)
                        out['bs price'] = bs.price()
                        out['bs delta'] = bs.delta()
                        hedger = pnn.Hedger(bs, bs.inputs())
                        out['hedge'] = hedger.compute_hedge(d2)
                        plv = hedger.compute_pl(d2)
                        out['pl'] = plv
                        out['entropic risk'] = pnn.EntropicRiskMeasure()(plv)
                        out['expected shortfall'] = pnn.ExpectedShortfall(0.5)(plv)
                        # averaged evaluations (n_times >= 2) of a freshly simulated instrument of dtype D
                        und5 = pi.BrownianStock(dt=0.1, dtype=D)
                        d5 = pi.EuropeanOption(und5, maturity=0.2)
                        hn = pnn.Hedger(pnn.Naked(), ['empty'])
                        out['compute_loss(n_times=2)'] = hn.compute_loss(d5, n_paths=4, n_times=2)
                        out['price(n_times=3)'] = hn.price(d5, n_paths=4, n_times=3)
                        # call history: the SAME feature objects and the same hedger were used before with an instrument of another dtype
                        Dprev = torch.float64 if D is not torch.float64 else torch.float32
                        da, db = H.mk_derivative(dtype=Dprev), H.mk_derivative(dtype=D)
                        for fname in ('time_to_maturity', 'expiry_time', 'log_moneyness', 'volatility', 'zeros'):
                            f0 = get_feature(H.FEATURES[fname][0]())
                            f0.of(da).get(None)
                            f0.of(da).get(SInt(H.I))
                            out['feature:%s:all after use with a %s instrument' % (fname, Dprev)] = f0.of(db).get(None)
                            out['feature:%s:i after use with a %s instrument' % (fname, Dprev)] = f0.of(db).get(SInt(H.I))
                        # call history on ONE object: evaluated in another dtype, then cast, then evaluated again (nothing computed before the cast may survive it)
                        dc = H.mk_derivative(dtype=Dprev)
                        fbound = {fname: get_feature(H.FEATURES[fname][0]()).of(dc) for fname in ('time_to_maturity', 'expiry_time', 'log_moneyness', 'max_log_moneyness', 'volatility', 'variance')}
                        for f_ in fbound.values():
                            f_.get(None)
                            f_.get(SInt(H.I))
                        dc.time_to_maturity(); dc.time_to_maturity(SInt(H.I)); dc.moneyness(); dc.max_log_moneyness(); dc.payoff(); dc.ul().volatility; dc.ul().variance
                        dc.to(D)
                        out['time_to_maturity() after an evaluation in %s and a cast' % Dprev] = dc.time_to_maturity()
                        out['time_to_maturity(i) after an evaluation in %s and a cast' % Dprev] = dc.time_to_maturity(SInt(H.I))
                        out['moneyness after an evaluation in %s and a cast' % Dprev] = dc.moneyness()
                        out['max_log_moneyness after an evaluation in %s and a cast' % Dprev] = dc.max_log_moneyness()
                        out['payoff after an evaluation in %s and a cast' % Dprev] = dc.payoff()
                        out['stock volatility after an evaluation in %s and a cast' % Dprev] = dc.ul().volatility
                        out['stock variance after an evaluation in %s and a cast' % Dprev] = dc.ul().variance
                        for fname, f_ in fbound.items():
                            out['bound feature %s (all steps) after an evaluation in %s and a cast' % (fname, Dprev)] = f_.get(None)
                            out['bound feature %s (step i) after an evaluation in %s and a cast' % (fname, Dprev)] = f_.get(SInt(H.I))
                        bsa = pnn.BlackScholes(da)
                        hprev = pnn.Hedger(bsa, bsa.inputs())
                        hprev.compute_hedge(da)
                        out['hedge after the hedger was used with a %s instrument' % Dprev] = hprev.compute_hedge(db)
                        ww = pnn.Hedger(pnn.WhalleyWilmott(d2), pnn.WhalleyWilmott(d2).inputs())
                        old = H._set_T(3)
                        try:
                            d3 = H.mk_derivative(dtype=D)
                            out['ww hedge'] = ww.compute_hedge(d3)
                        finally:
                            H._set_T(old)
                        return out
                    hyps = H.DIMS + H.STEP + [tm.gt(H.B, tm.ZERO)]
                    try:
                        paths = explore(run, hyps, max_paths=8)
                    except Exception as e:
                        return Verdict('unknown', 'engine', time.time() - t0, 'D=%s: %s' % (D, e))
                    for p in paths:
                        if p.outcome() != 'returns':
                            return Verdict('unknown', 'engine', time.time() - t0, 'D=%s: %s %s %s' % (D, p.outcome(), p.exception, p.traceback[-600:]))
                        for k_, v_ in p.result.items():
                            n += 1
                            if v_.dtype is not D:
                                return Verdict('refuted', 'enumeration + promotion contract', time.time() - t0, '%s computed from a %s instrument (default %s) has dtype %s' % (k_, D, default, v_.dtype),
                                               witness={'quantity': k_, 'instrument_dtype': str(D), 'default': str(default), 'got': str(v_.dtype)}, replay=_replay())
            finally:
                torch.set_default_dtype(torch.float32)
        return Verdict('proved', 'exhaustive enumeration (4 dtypes x 2 defaults) + promotion contract', time.time() - t0, '%d quantities' % n, sample={'claim': 'every derived quantity is in the instrument dtype', 'quantities': n})
    return Obligation('C17/consumers/dtype', 'dtype', 'pfhedge.instruments.derivative.base.OptionMixin.time_to_maturity', check, [PROP],
                      clause='payoffs, every feature (both forms), listed prices, time to maturity, moneyness, BS price/delta, BS and Whalley-Wilmott hedges, P&L and criteria are in the instrument\'s dtype')


REPLAY = '''
import itertools
import pfhedge.instruments as pi
import pfhedge.nn as pnn
from pfhedge.features import get_feature
bad = []
FL = [torch.float16, torch.bfloat16, torch.float32, torch.float64]
def inv(p): return all(p.dtype is None or b.dtype == p.dtype for b in p.buffers())
ops = {"f32": lambda p: p.float(), "f64": lambda p: p.double(), "f16": lambda p: p.half(), "bf16": lambda p: p.bfloat16(),
       "to64": lambda p: p.to(torch.float64), "to32": lambda p: p.to(dtype=torch.float32), "sim": lambda p: p.simulate(n_paths=2, time_horizon=0.02),
       "cpu": lambda p: p.cpu(), "reg": lambda p: p.register_buffer("extra", torch.zeros(2, dtype=torch.float64))}
for default in (torch.float32, torch.float64):
    torch.set_default_dtype(default)
    for cls in (pi.BrownianStock, pi.HestonStock):
        for D0 in [None] + FL[2:]:
            for seq in itertools.product(ops, repeat=2):
                p = cls(dtype=D0)
                try:
                    for o in seq:
                        ops[o](p)
                        if not inv(p): bad.append((str(default), cls.__name__, str(D0), seq, "Inv broken"))
                except Exception as e:
                    if "not implemented for" not in str(e): bad.append((str(default), cls.__name__, str(D0), seq, type(e).__name__))
    for D in (torch.float32, torch.float64):
        u = pi.BrownianStock(dtype=D); d = pi.EuropeanOption(u); d.simulate(n_paths=3)
        d.list(lambda dd: dd.ul().spot * 1.5)
        vals = {"payoff": d.payoff(), "ttm": d.time_to_maturity(), "ttm_i": d.time_to_maturity(1), "money": d.moneyness(), "spot": d.spot}
        for f in ("moneyness", "log_moneyness", "time_to_maturity", "volatility", "zeros", "max_moneyness", "underlier_spot", "spot"):
            vals["f:" + f] = get_feature(f).of(d).get(None); vals["fi:" + f] = get_feature(f).of(d).get(1)
        bs = pnn.BlackScholes(d); vals["bs"] = bs.price(); vals["delta"] = bs.delta()
        h = pnn.Hedger(bs, bs.inputs()); vals["hedge"] = h.compute_hedge(d); vals["pl"] = h.compute_pl(d)
        hn = pnn.Hedger(pnn.Naked(), ["empty"])
        d5 = pi.EuropeanOption(pi.BrownianStock(dt=0.1, dtype=D), maturity=0.2)
        vals["compute_loss(n_times=2)"] = hn.compute_loss(d5, n_paths=4, n_times=2); vals["price(n_times=3)"] = hn.price(d5, n_paths=4, n_times=3)
        # call history: the same feature objects / hedger used before with an instrument of the other dtype (same grid)
        Dp = torch.float64 if D == torch.float32 else torch.float32
        ua = pi.BrownianStock(dtype=Dp); da = pi.EuropeanOption(ua); da.simulate(n_paths=3)
        for fn_ in ("time_to_maturity", "log_moneyness", "volatility"):
            f0 = get_feature(fn_); f0.of(da).get(None); f0.of(da).get(1)
            vals["history f:" + fn_] = f0.of(d).get(None); vals["history fi:" + fn_] = f0.of(d).get(1)
        bsa = pnn.BlackScholes(da); hp = pnn.Hedger(bsa, bsa.inputs()); hp.compute_hedge(da)
        vals["history hedge"] = hp.compute_hedge(d)
        # call history on one object: evaluated in the other dtype, cast, evaluated again
        uc = pi.BrownianStock(dtype=Dp); dc = pi.EuropeanOption(uc); dc.simulate(n_paths=3)
        fb = {fn_: get_feature(fn_).of(dc) for fn_ in ("time_to_maturity", "expiry_time", "log_moneyness", "max_log_moneyness", "volatility", "variance")}
        for f_ in fb.values(): f_.get(None); f_.get(1)
        dc.time_to_maturity(); dc.time_to_maturity(1); dc.moneyness(); dc.max_log_moneyness(); dc.payoff(); uc.volatility; uc.variance
        dc.to(D)
        vals.update({"cast: ttm": dc.time_to_maturity(), "cast: ttm_i": dc.time_to_maturity(1), "cast: moneyness": dc.moneyness(), "cast: max_log_moneyness": dc.max_log_moneyness(),
                     "cast: payoff": dc.payoff(), "cast: stock volatility": uc.volatility, "cast: stock variance": uc.variance})
        for fn_, f_ in fb.items():
            vals["cast: bound feature " + fn_] = f_.get(None); vals["cast: bound feature (step) " + fn_] = f_.get(1)
        for k, v in vals.items():
            if v.dtype != D: bad.append((str(default), str(D), k, str(v.dtype)))
torch.set_default_dtype(torch.float32)
for cast in (lambda p: p.to(torch.float64), lambda p: p.double(), lambda p: p.float()):
    for D0 in (torch.float32, torch.float64):
        p = pi.HestonStock(dtype=D0); p.simulate(n_paths=2, time_horizon=0.02); p.volatility; cast(p)
        if p.volatility.dtype != p.variance.dtype or not torch.allclose(p.volatility, p.variance.clamp(min=0).sqrt()): bad.append(("heston volatility after cast", str(D0)))
try:
    pi.BrownianStock().to(torch.int64); bad.append("int64 accepted")
except TypeError: pass
result = {"got": [str(b) for b in bad][:20], "ref": []}
'''


def _replay():
    r = real_exec(REPLAY, {}, timeout=600)
    ok = r.get('ok') and r['result']['got'] == []
    return {'real': r, 'confirmed': not ok, 'note': 'replay: all operation pairs from 3 declared dtypes x 2 defaults on real instruments; consumer dtypes for float32/float64'}


def build(tier, seed):
    from pfv.torchlib import import_pfhedge
    import_pfhedge()
    obs = [init_ob()] + [preserve_ob(op) for op in OPS] + [raises_ob(), derivative_ob(), consumers_ob()]
    return {'obligations': obs, 'functions': FUNCTIONS, 'assumptions': ASSUMPTIONS, 'level': 'proof',
            'trusted_base': ['pfv executor + torch shim dtype promotion table', 'induction over operation histories (init + preserve)'],
            'note': 'representation invariant: initialisation and preservation per operation from an arbitrary invariant state; the dtype universe is finite and enumerated exhaustively, buffer contents and shapes are symbolic.'}
