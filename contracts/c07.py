"""C07 - Black-Scholes prices equal the expected payoff under the model.

The closed forms are results of integration; the property is decided through its differential
characterisation, each piece a VC on the term extracted from the real function (DESIGN 3/C07):

  1 PDE      V_t = (v^2/2)(V_xx - V_x) on the open domain (x log-moneyness, t time to maturity)
  2 boundary American binary V(x=0) = 1; lookback dV/dm = 0 at x = m, continuity at m = 0
  3 terminal lim_{t->0+} V = payoff, per sign case (continuity on the extended reals after expansion; re-validated at t = 1e-8, 1e-12)
  4 growth   0 <= V <= S (call), 0 <= V <= 1 (binaries)   (obligations of C09, referenced)
  5 TRUSTED  a solution of 1-4 is the risk-neutral expectation (Feynman-Kac / uniqueness)  [assumed]

  wiring     BS<Family>Option(call, strike).price == functional of the same name with strike, call
"""
import time

import mpmath as mp
import sympy as sp

from pfv import terms as tm
from pfv import smt
from pfv import diff as D
from pfv import sym
from pfv import bslib as B
from pfv.bslib import x, t, v, K, m, S, OPEN
from pfv.framework import Obligation, Verdict, real_exec
from contracts import c08

PROP = 'C07'

FUNCTIONS = [
    'pfhedge.nn.functional.bs_european_price', 'pfhedge.nn.functional.bs_european_binary_price',
    'pfhedge.nn.functional.bs_american_binary_price', 'pfhedge.nn.functional.bs_lookback_price',
    'pfhedge.nn.functional.d1', 'pfhedge.nn.functional.d2', 'pfhedge.nn.functional.ncdf', 'pfhedge.nn.functional.npdf',
    'pfhedge.nn.modules.bs.european.BSEuropeanOption.price',
    'pfhedge.nn.modules.bs.european_binary.BSEuropeanBinaryOption.price',
    'pfhedge.nn.modules.bs.american_binary.BSAmericanBinaryOption.price',
    'pfhedge.nn.modules.bs.lookback.BSLookbackOption.price',
    'pfhedge.nn.modules.bs.american_binary.BSAmericanBinaryOption.__init__',
    'pfhedge.nn.modules.bs.lookback.BSLookbackOption.__init__',
]

ASSUMPTIONS = [
    'TRUSTED THEOREM (A4): a function satisfying the zero-rate Black-Scholes PDE on the open domain, the stated boundary conditions, the terminal condition as t->0+ and the growth bounds is the risk-neutral expectation of the payoff (Feynman-Kac / uniqueness for the heat equation; reflection principle for the running-maximum products). Not mechanised.',
    'terminal limits: the expanded price term is evaluated at sqrt(t) -> 0+ by continuity of +, *, exp, erf on the extended real line (indeterminate forms 0*oo, oo-oo abort), with ncdf = (1+erf(u/sqrt 2))/2, and re-validated numerically at t = 1e-8 and 1e-12 in 50-digit arithmetic; sympy.limit itself is NOT used (it returned a wrong limit for x<0 during development)',
    'A1 reals for floats; A2 special-function calculus; A3 torch element-wise contracts (pfv/torchlib)',
    'growth bounds (item 4) are the obligations of C09 on the same extracted terms',
]

ORACLE = '''
import mpmath as mp
mp.mp.dps = 30
import pfhedge.nn.functional as F
x, t, v, K = W["x"], W["t"], W["v"], W["K"]; m = W.get("m", 0.0)
fam, call = W["family"], W["call"]
sd = v * mp.sqrt(t)
def ST(z): return K * mp.exp(x - sd**2/2 + sd*z)
pdf = mp.npdf
if fam == "european":
    pay = (lambda z: max(ST(z) - K, 0)) if call else (lambda z: max(K - ST(z), 0))
    kz = (-x + sd**2/2) / sd
    ref = mp.quad(lambda z: pay(z) * pdf(z), [-12, kz, 12])
    got = F.bs_european_price(T(x), T(t), T(v), strike=K, call=call)
elif fam == "european_binary":
    kz = (-x + sd**2/2) / sd
    ref = (1 - mp.ncdf(kz)) if call else mp.ncdf(kz)
    got = F.bs_european_binary_price(T(x), T(t), T(v), call=call)
else:
    mu = -v**2/2
    def Fmax(y):   # P(max_{s<=t} (mu s + v W_s) <= y), y >= 0
        return mp.ncdf((y - mu*t)/sd) - mp.exp(2*mu*y/v**2) * mp.ncdf((-y - mu*t)/sd)
    if fam == "american_binary":
        ref = 1 if m >= 0 else 1 - Fmax(-x)
        got = F.bs_american_binary_price(T(x), T(m), T(t), T(v))
    else:
        h = lambda y: max(K*mp.exp(max(m, x + y)) - K, 0)
        f = lambda y: mp.diff(Fmax, y)
        brk = sorted(set([0, max(m - x, 0), max(-x, 0), 6*sd + 1]))
        ref = mp.quad(lambda y: h(y) * f(y), brk)
        got = F.bs_lookback_price(T(x), T(m), T(t), T(v), strike=K)
result = {"got": float(got), "ref": float(ref)}
'''


def oracle_replay(family, call):
    def rp(pt):
        w = dict(pt)
        w.update(family=family, call=True if call is None else call)
        r = real_exec(ORACLE, w, timeout=600)
        out = {'real': r, 'oracle': '30-digit quadrature of the payoff against the log-normal / running-maximum law'}
        if r.get('ok'):
            got, ref = r['result']['got'], r['result']['ref']
            out['confirmed'] = bool(got != got or abs(got - ref) > 1e-6 * max(1.0, abs(ref)))
        else:
            out['confirmed'] = False
        return out
    return rp


def pde_ob(family, call, bname, hyps, msign, seed):
    tag = '%s%s%s' % ('' if call is None else ('call' if call else 'put'), ',' if (call is not None and bname) else '', bname)
    price = lambda: c08.fterm(family, 'price', call, hyps)

    def lhs():
        return D.diff(price(), t)

    def rhs():
        V = price()
        Vx = D.diff(V, x)
        return tm.mul(tm.const(0.5), v, v, tm.sub(D.diff(Vx, x), Vx))
    ob = B.identity_ob('C07/bs_%s_price/pde[%s]' % (family, tag), 'pfhedge.nn.functional.bs_%s_price' % family, [PROP],
                       lhs, rhs, hyps, 'dV/dt == (v^2/2)(V_xx - V_x) for V = bs_%s_price [%s]' % (family, tag),
                       seed=seed, with_m=family in ('american_binary', 'lookback'), m_sign=msign)
    inner = ob.check
    rp = oracle_replay(family, call)

    def check():
        vd = inner()
        if vd.status == 'refuted' and vd.witness:
            vd.replay = rp(vd.witness['point'])
        return vd
    ob.check = check
    return ob


def subst_ob(oid, function, clause, term_fn, expected_fn, hyps, seed, with_m=True, msign=None, kind='post', oracle=None):
    ob = B.identity_ob(oid, function, [PROP], term_fn, expected_fn, hyps, clause, seed=seed, with_m=with_m, m_sign=msign, kind=kind)
    if oracle is not None:
        # a refuted boundary / continuity identity: the price itself is compared with the quadrature oracle next to the witness point
        family, fix = oracle
        inner = ob.check
        rp = oracle_replay(family, None)

        def check():
            vd = inner()
            if vd.status == 'refuted' and vd.witness and isinstance(vd.witness.get('point'), dict):
                try:
                    vd.replay = rp(fix(dict(vd.witness['point'])))
                except Exception:
                    pass
            return vd
        ob.check = check
    return ob


# ---- terminal condition --------------------------------------------------------------------------

def _erfify(e):
    N = sym._Nf
    return e.replace(lambda u: u.func == N, lambda u: (1 + sp.erf(u.args[0] / sp.sqrt(2))) / 2)


class Indeterminate(Exception):
    pass


def lim0(e, r):
    """lim_{r->0+} e by continuity on the extended real line: every primitive (+, *, integer powers,
    exp, erf) is continuous on [-oo, oo] except at the indeterminate forms oo-oo, 0*oo, which raise.
    `e` must be expanded so that r appears only in monomials r**k."""
    if not e.has(r):
        return e
    if e == r:
        return sp.Integer(0)
    if e.is_Pow:
        b, p = e.as_base_exp()
        if b == r and p.is_number:
            return sp.oo if p < 0 else (sp.Integer(0) if p > 0 else sp.Integer(1))
        lb, lp = lim0(b, r), lim0(p, r)
        val = lb ** lp
    elif e.is_Add:
        val = sp.Add(*[lim0(a, r) for a in e.args])
    elif e.is_Mul:
        parts = [lim0(a, r) for a in e.args]
        infs = [q for q in parts if q.has(sp.oo) or q.has(-sp.oo)]
        zeros = [q for q in parts if q == 0]
        if infs and zeros:
            raise Indeterminate('0 * oo in %s' % str(e)[:120])
        val = sp.Mul(*parts)
    elif isinstance(e, (sp.exp, sp.erf)):
        val = e.func(lim0(e.args[0], r))
    else:
        raise Indeterminate('no continuity rule for %s' % e.func)
    if val.has(sp.nan) or val.has(sp.zoo):
        raise Indeterminate('%s evaluates to %s' % (str(e)[:120], val))
    return val


def terminal_ob(family, call, case, seed):
    """lim_{t->0+} V = payoff on the sign case `case` of x (and of m, x-m for the barrier products)."""
    name = 'C07/bs_%s_price/terminal[%s%s]' % (family, '' if call is None else ('call,' if call else 'put,'), case['name'])

    def sub_cases(V0, hyps, symbols, depth=0):
        """resolve data-dependent branches of the price term: if a condition is not decided by the sign case, both sides
        that are satisfiable are verified separately (the payoff of the sign case is the same on both)"""
        V = sym.simplify_under(V0, hyps)
        try:
            return [(hyps, V, _erfify(sym.to_sympy(V, symbols)))]
        except sym.NotClosedForm as ex:
            u = getattr(ex, 'term', None)
            if depth >= 3 or u is None or u.op != 'ite':
                raise
            out = []
            for br in (u.args[0], tm.not_(u.args[0])):
                if smt.check_sat(hyps + [br], timeout_ms=10000).status != 'unsat':
                    out += sub_cases(V0, hyps + [br], symbols, depth + 1)
            return out

    def model_point(hyps):
        r_ = smt.check_sat(hyps + [tm.le(tm.const(0.05), v), tm.le(v, tm.const(1.0)), tm.le(tm.const(0.2), K), tm.le(K, tm.const(5.0)), tm.le(tm.const(-2.0), x), tm.le(x, tm.const(2.0))],
                           timeout_ms=10000, want_model=True)
        if r_.status != 'sat' or not r_.model:
            return None
        q = {}
        for nm_ in ('x', 'v', 'K', 'm'):
            if nm_ in r_.model and r_.model[nm_] is not None:
                q[nm_] = mp.mpf(float(r_.model[nm_]))
        return q if {'x', 'v', 'K'} <= set(q) else None

    def check():
        t0 = time.time()
        hyps0 = OPEN + case['hyps']
        V0 = c08.fterm(family, 'price', call, hyps0)
        r = sp.Symbol('r', positive=True)
        symbols = {'t': r ** 2, 'v': sp.Symbol('v', positive=True), 'K': sp.Symbol('K', positive=True)}
        symbols.update(case['symbols'])
        try:
            subs = sub_cases(V0, hyps0, symbols)
        except sym.NotClosedForm as ex:
            return Verdict('unknown', 'extended-real continuity', time.time() - t0, 'NotClosedForm: %s' % ex)
        expected = case['payoff'](symbols)
        sample = {'claim': 'lim_{t->0+} price = payoff', 'case': case['name'], 'expected': str(expected), 'sub_cases': len(subs)}
        for (hyps, V, e) in subs:
            split = len(hyps) > len(hyps0)
            try:
                lim = lim0(sp.expand(e), r)
                ok = sp.simplify(lim - expected) == 0
            except Indeterminate as ex:
                return Verdict('unknown', 'extended-real continuity', time.time() - t0, 'indeterminate form: %s' % ex)
            # numeric re-validation on the real term (evalc) at tiny t: the case's points, or (on a branch introduced by the code) a solver model of the branch
            pts = case['points']
            if split:
                mpnt = model_point(hyps)
                pts = [mpnt] if mpnt is not None else []
            worst = 0.0
            for p in pts:
                for tiny in ('1e-8', '1e-12'):
                    q = dict(p)
                    q['t'] = mp.mpf(tiny)
                    val = B.eval_at(V, q)
                    want = case['payoff_num'](q)
                    worst = max(worst, float(abs(val - want)))
            sample.update(sympy_limit=str(lim), max_abs_dev_at_tiny_t=worst)
            if ok and worst < 1e-3:
                continue
            if not pts:
                return Verdict('unknown', 'extended-real continuity', time.time() - t0, 'terminal limit %s != payoff %s on the branch %s, but no concrete point of that branch found' % (lim, expected, tm.show(hyps[-1])[:100]), sample=sample)
            q = dict(pts[0])
            q['t'] = mp.mpf('1e-8')
            wit = {'point': {k: float(val) for k, val in q.items()}, 'limit': str(lim), 'expected': str(expected), 'branch': tm.show(hyps[-1])[:200] if split else ''}
            rp = oracle_replay(family, call)(wit['point'])
            return Verdict('refuted', 'extended-real continuity (sympy arithmetic) + mpmath', time.time() - t0,
                           'terminal limit %s != payoff %s%s' % (lim, expected, (' on the branch ' + wit['branch']) if split else ''), witness=wit, sample=sample, replay=rp)
        return Verdict('proved', 'extended-real continuity (sympy arithmetic) + mpmath', time.time() - t0, '', sample=sample)
    return Obligation(name, 'post', 'pfhedge.nn.functional.bs_%s_price' % family, check, [PROP],
                      clause='lim_{t->0+} bs_%s_price = payoff [%s]' % (family, case['name']))


def terminal_cases(family, call):
    """Sign cases; every symbol handed to sympy is POSITIVE (x = +y / -y, m = +w / -w, x = m - u):
    sympy's limit is unreliable with negative-assumption symbols."""
    from fractions import Fraction as Fr
    y, w, u = sp.Symbol('y', positive=True), sp.Symbol('w', positive=True), sp.Symbol('u', positive=True)
    X = sp.Symbol('x', real=True)
    cases = []
    Kf, vf = Fr(13, 10), Fr(3, 10)

    def pt(xv, mv=None):
        d = {'x': mp.mpf(xv), 'v': mp.mpf(vf.numerator) / vf.denominator, 'K': mp.mpf(Kf.numerator) / Kf.denominator}
        if mv is not None:
            d['m'] = mp.mpf(mv)
        return d
    if family == 'european':
        cases.append(dict(name='x>0', hyps=[tm.gt(x, tm.ZERO)], symbols={'x': y},
                          payoff=(lambda s: s['K'] * sp.exp(y) - s['K']) if call else (lambda s: sp.Integer(0)),
                          payoff_num=(lambda q: q['K'] * mp.exp(q['x']) - q['K']) if call else (lambda q: 0), points=[pt('0.2'), pt('0.7')]))
        cases.append(dict(name='x<0', hyps=[tm.lt(x, tm.ZERO)], symbols={'x': -y},
                          payoff=(lambda s: sp.Integer(0)) if call else (lambda s: s['K'] - s['K'] * sp.exp(-y)),
                          payoff_num=(lambda q: 0) if call else (lambda q: q['K'] - q['K'] * mp.exp(q['x'])), points=[pt('-0.2'), pt('-0.7')]))
    elif family == 'european_binary':
        cases.append(dict(name='x>0', hyps=[tm.gt(x, tm.ZERO)], symbols={'x': y},
                          payoff=lambda s: sp.Integer(1 if call else 0), payoff_num=lambda q: 1 if call else 0, points=[pt('0.2'), pt('0.7')]))
        cases.append(dict(name='x<0', hyps=[tm.lt(x, tm.ZERO)], symbols={'x': -y},
                          payoff=lambda s: sp.Integer(0 if call else 1), payoff_num=lambda q: 0 if call else 1, points=[pt('-0.2'), pt('-0.7')]))
    elif family == 'american_binary':
        cases.append(dict(name='x<=m<0', hyps=[tm.lt(m, tm.ZERO), tm.lt(x, tm.ZERO), tm.le(x, m)], symbols={'x': -w - u, 'm': -w},
                          payoff=lambda s: sp.Integer(0), payoff_num=lambda q: 0, points=[pt('-0.3', '-0.1'), pt('-0.7', '-0.6')]))
        cases.append(dict(name='m>0', hyps=[tm.gt(m, tm.ZERO), tm.le(x, m)], symbols={'x': X, 'm': w},
                          payoff=lambda s: sp.Integer(1), payoff_num=lambda q: 1, points=[pt('-0.3', '0.1'), pt('0.2', '0.3')]))
        cases.append(dict(name='x<m=0', hyps=[tm.eq(m, tm.ZERO), tm.lt(x, tm.ZERO)], symbols={'x': -y, 'm': sp.Integer(0)},
                          payoff=lambda s: sp.Integer(1), payoff_num=lambda q: 1, points=[pt('-0.3', '0'), pt('-0.7', '0')]))
    else:   # lookback call with x < m: the maximum is locked in: payoff (K e^m - K)^+
        cases.append(dict(name='x<m<0', hyps=[tm.lt(m, tm.ZERO), tm.lt(x, m)], symbols={'x': -w - u, 'm': -w},
                          payoff=lambda s: sp.Integer(0), payoff_num=lambda q: 0, points=[pt('-0.3', '-0.1'), pt('-0.7', '-0.6')]))
        cases.append(dict(name='x<m,m>0', hyps=[tm.gt(m, tm.ZERO), tm.lt(x, m)], symbols={'x': w - u, 'm': w},
                          payoff=lambda s: s['K'] * sp.exp(w) - s['K'], payoff_num=lambda q: q['K'] * mp.exp(q['m']) - q['K'],
                          points=[pt('-0.3', '0.1'), pt('0.2', '0.3')]))
    return cases


def build(tier, seed):
    from pfv.torchlib import import_pfhedge
    import_pfhedge()
    obs = []
    for family, spec in c08.FAMILIES.items():
        for call in spec['calls']:
            for (bname, hyps, msign) in c08.branches(family):
                obs.append(pde_ob(family, call, bname, hyps, msign, seed))
            for case in terminal_cases(family, call):
                if family == 'lookback' and 'x<m' in case['name']:
                    # sympy needs the relation between x and m to pick erf limits: encode x = m - delta
                    pass
                obs.append(terminal_ob(family, call, case, seed))
    # ---- boundary conditions
    hy_am = OPEN + [tm.lt(m, tm.ZERO)]
    obs.append(subst_ob('C07/bs_american_binary_price/boundary[x=0]', 'pfhedge.nn.functional.bs_american_binary_price',
                        'American binary price at the barrier (x = 0, before it has been hit in the running max) equals 1',
                        lambda: tm.subst(c08.fterm('american_binary', 'price', None, hy_am), {x: tm.ZERO}), lambda: tm.ONE, hy_am, seed, msign='neg'))
    for (bname, hyps, msign) in c08.branches('lookback'):
        obs.append(subst_ob('C07/bs_lookback_price/neumann[%s]' % bname, 'pfhedge.nn.functional.bs_lookback_price',
                            'd(lookback price)/dm = 0 at x = m (the running maximum is reflected)',
                            lambda hyps=hyps: tm.subst(D.diff(c08.fterm('lookback', 'price', None, hyps), m), {x: m}), lambda: tm.ZERO, hyps, seed, msign=msign,
                            oracle=('lookback', lambda pt: dict(pt, x=pt.get('m', 0.0) - 0.05))))
    hy_lo = OPEN + [tm.lt(m, tm.ZERO), tm.le(x, m)]
    hy_hi = OPEN + [tm.gt(m, tm.ZERO), tm.le(x, m)]
    obs.append(subst_ob('C07/bs_lookback_price/continuity[m=0]', 'pfhedge.nn.functional.bs_lookback_price',
                        'both branches of the lookback price agree where the running maximum equals the strike (m = 0)',
                        lambda: tm.subst(c08.fterm('lookback', 'price', None, hy_lo), {m: tm.ZERO}),
                        lambda: tm.subst(c08.fterm('lookback', 'price', None, hy_hi), {m: tm.ZERO}), OPEN + [tm.le(x, tm.ZERO)], seed, msign=None,
                        oracle=('lookback', lambda pt: dict(pt, m=1e-9))))
    # ---- module wiring: module.price == functional with the module's strike / call
    for family, spec in c08.FAMILIES.items():
        for call in spec['calls']:
            for (bname, hyps, msign) in c08.branches(family):
                tag = '%s%s' % ('' if call is None else ('call' if call else 'put'), bname)
                obs.append(B.identity_ob('C07/BS%s.price/wiring[%s]' % (family, tag), 'pfhedge.nn.modules.bs.%s.price' % family, [PROP],
                                         (lambda family=family, call=call, hyps=hyps: c08.module_term(family, 'price', call, hyps)),
                                         (lambda family=family, call=call, hyps=hyps: c08.fterm(family, 'price', call, hyps)),
                                         hyps, 'BS<%s>(call=%s, strike=K).price(x,[m,]t,v) == bs_%s_price(x,[m,]t,v, strike=K, call=%s)' % (family, call, family, call),
                                         seed=seed, with_m=spec['with_m'], m_sign=msign))
    # put modules for the path-dependent products must be rejected
    obs.append(raises_ob('BSAmericanBinaryOption'))
    obs.append(raises_ob('BSLookbackOption'))
    # canary: a wrong PDE (factor missing) must be refuted
    obs.append(B.identity_ob('C07/canary/pde-wrong-factor', '', [PROP],
                             lambda: D.diff(c08.fterm('european', 'price', True, OPEN), t),
                             lambda: (lambda V: tm.mul(v, v, tm.sub(D.diff(D.diff(V, x), x), D.diff(V, x))))(c08.fterm('european', 'price', True, OPEN)),
                             OPEN, 'CANARY (must be refuted): dV/dt == v^2 (V_xx - V_x)', seed=seed, kind='canary'))
    # operands of different shapes: broadcast shape and element-wise value of every price function
    for family, spec in c08.FAMILIES.items():
        for call in spec['calls']:
            obs.append(c08.broadcast_ob(family, 'price', call, PROP))
    for family in ('american_binary', 'lookback'):
        obs.append(c08.mixed_batch_ob(family, 'price', PROP))
    return {
        'obligations': obs, 'functions': FUNCTIONS, 'assumptions': ASSUMPTIONS, 'level': 'proof',
        'trusted_base': ['Feynman-Kac / uniqueness theorem (not mechanised)', 'pfv executor + torch contract shim', 'pfv/diff.py', 'sympy expand/cancel/limit', 'z3 QF_NRA', 'mpmath 50-digit evaluation'],
        'note': 'PDE residual, boundary and terminal conditions of the price terms extracted from the real functions; the step from these to "equals the expectation" is the trusted theorem listed under assumptions. Refutations are replayed against a quadrature oracle.',
    }


def raises_ob(clsname):
    from pfv.proxies import explore, SReal

    def check():
        import pfhedge.nn as pnn
        cls = getattr(pnn, clsname)
        paths = explore(lambda c: cls(call=False, strike=SReal(K)), OPEN)
        ok = all(p.outcome() == 'raises:ValueError' for p in paths) and paths
        sample = {'claim': '%s(call=False) raises ValueError' % clsname, 'paths': [p.outcome() for p in paths]}
        if ok:
            return Verdict('proved', 'path-exploration', 0.0, '', sample=sample)
        return Verdict('refuted', 'path-exploration', 0.0, 'put module constructed without error: %s' % [p.outcome() for p in paths],
                       witness={'call': False}, sample=sample,
                       replay={'confirmed': True, 'note': 'constructor returns for call=False on every path of the real __init__'})
    return Obligation('C07/%s.__init__/raises[put]' % clsname, 'raises', 'pfhedge.nn.modules.bs.%s.__init__' % clsname, check, [PROP],
                      clause='a put module for a product without a put formula is rejected with ValueError')
