"""C08 - Greeks are the derivatives of the price.

Contracts (sidecar; bound by qualified name to the real functions in /repo):

  pfhedge.nn.functional.bs_<family>_{delta,gamma,vega,theta}
      requires  t > 0, v > 0, K > 0   (+ x <= m < 0 resp. m >= 0 for the barrier products)
      ensures   delta = (1/S) dV/dx,  gamma = (1/S) d/dx[(1/S) dV/dx],  vega = dV/dv,  theta = -dV/dt
                where V is bs_<family>_price *as extracted from the code on this run*, S = K e^x
  BS<Family>Option(call, strike).{delta,gamma,vega,theta}   the same against the module's own .price
  pfhedge.autogreek.{delta,gamma,vega,theta}(pricer, **params)  for an uninterpreted smooth pricer P:
      ensures   result = d/dL P(args(L)) with args = the documented reparametrisation of the leaf L,
                and L = the caller's spot / volatility / time_to_maturity
"""
from pfv import terms as tm
from pfv import diff as D
from pfv import bslib as B
from pfv.bslib import x, t, v, K, m, S, OPEN
from pfv.framework import Obligation, Verdict
from pfv.proxies import explore, SReal, Unsupported
from pfv import smt

PROP = 'C08'

FUNCTIONS = [
    'pfhedge.nn.functional.d1', 'pfhedge.nn.functional.d2', 'pfhedge.nn.functional.ncdf', 'pfhedge.nn.functional.npdf',
    'pfhedge.nn.functional._bs_theta_gamma_relation', 'pfhedge.nn.functional._bs_vega_gamma_relation',
    'pfhedge.nn.functional.bs_european_price', 'pfhedge.nn.functional.bs_european_delta',
    'pfhedge.nn.functional.bs_european_gamma', 'pfhedge.nn.functional.bs_european_vega',
    'pfhedge.nn.functional.bs_european_theta',
    'pfhedge.nn.functional.bs_european_binary_price', 'pfhedge.nn.functional.bs_european_binary_delta',
    'pfhedge.nn.functional.bs_european_binary_gamma', 'pfhedge.nn.functional.bs_european_binary_vega',
    'pfhedge.nn.functional.bs_european_binary_theta',
    'pfhedge.nn.functional.bs_american_binary_price', 'pfhedge.nn.functional.bs_american_binary_delta',
    'pfhedge.nn.functional.bs_american_binary_gamma', 'pfhedge.nn.functional.bs_american_binary_vega',
    'pfhedge.nn.functional.bs_american_binary_theta',
    'pfhedge.nn.functional.bs_lookback_price', 'pfhedge.nn.functional.bs_lookback_delta',
    'pfhedge.nn.functional.bs_lookback_gamma', 'pfhedge.nn.functional.bs_lookback_vega',
    'pfhedge.nn.functional.bs_lookback_theta',
    'pfhedge.autogreek.delta', 'pfhedge.autogreek.gamma', 'pfhedge.autogreek.gamma_from_delta',
    'pfhedge.autogreek.vega', 'pfhedge.autogreek.theta',
    'pfhedge._utils.parse.parse_spot', 'pfhedge._utils.parse.parse_volatility',
    'pfhedge._utils.parse.parse_time_to_maturity',
    'pfhedge.nn.modules.bs._base.BSModuleMixin.delta', 'pfhedge.nn.modules.bs._base.BSModuleMixin.gamma',
    'pfhedge.nn.modules.bs._base.BSModuleMixin.vega', 'pfhedge.nn.modules.bs._base.BSModuleMixin.theta',
    'pfhedge.nn.modules.bs.european.BSEuropeanOption.delta', 'pfhedge.nn.modules.bs.european.BSEuropeanOption.gamma',
    'pfhedge.nn.modules.bs.european.BSEuropeanOption.vega', 'pfhedge.nn.modules.bs.european.BSEuropeanOption.theta',
    'pfhedge.nn.modules.bs.european.BSEuropeanOption.price',
    'pfhedge.nn.modules.bs.european_binary.BSEuropeanBinaryOption.delta',
    'pfhedge.nn.modules.bs.european_binary.BSEuropeanBinaryOption.gamma',
    'pfhedge.nn.modules.bs.european_binary.BSEuropeanBinaryOption.vega',
    'pfhedge.nn.modules.bs.european_binary.BSEuropeanBinaryOption.theta',
    'pfhedge.nn.modules.bs.european_binary.BSEuropeanBinaryOption.price',
    'pfhedge.nn.modules.bs.american_binary.BSAmericanBinaryOption.delta',
    'pfhedge.nn.modules.bs.american_binary.BSAmericanBinaryOption.gamma',
    'pfhedge.nn.modules.bs.american_binary.BSAmericanBinaryOption.vega',
    'pfhedge.nn.modules.bs.american_binary.BSAmericanBinaryOption.theta',
    'pfhedge.nn.modules.bs.american_binary.BSAmericanBinaryOption.price',
    'pfhedge.nn.modules.bs.lookback.BSLookbackOption.delta', 'pfhedge.nn.modules.bs.lookback.BSLookbackOption.gamma',
    'pfhedge.nn.modules.bs.lookback.BSLookbackOption.vega', 'pfhedge.nn.modules.bs.lookback.BSLookbackOption.theta',
    'pfhedge.nn.modules.bs.lookback.BSLookbackOption.price',
]

ASSUMPTIONS = [
    'A1 reals for floats: identities are over the mathematical reals; float32/float64 rounding is not modelled',
    'A2 special functions: ncdf\' = npdf, npdf(u) = exp(-u^2/2)/sqrt(2 pi), exp/log/sqrt calculus rules (pfv/diff.py); each derivative VC is re-validated numerically at 8 domain points in 50-digit arithmetic',
    'A3 torch contracts used: broadcast_all, Normal(0,1).cdf = ncdf, Normal.log_prob(.).exp() = npdf, element-wise arithmetic, where, zeros_like/ones_like, torch.autograd.grad = derivative of the recorded element-wise graph (pfv/torchlib)',
    'A5 generator trust: pfv/diff.py (differentiation) and sympy expand/cancel (zero test); the polynomial identities are re-checked by z3 QF_NRA',
    'A6 user pricers handed to autogreek are smooth and element-wise in their tensor arguments (precondition of the autograd contract with grad_outputs = ones)',
    'domain: the open orthant t > 0, v > 0, K > 0 (barrier products: x <= m < 0 and m >= 0 separately); the boundary t = 0 / v = 0 is C18',
]

# ---- family tables -----------------------------------------------------------------------------

FAMILIES = {
    # name: (with_m, price takes strike, greeks take strike, call variants, branches)
    'european': dict(with_m=False, calls=(True, False)),
    'european_binary': dict(with_m=False, calls=(True, False)),
    'american_binary': dict(with_m=True, calls=(None,)),
    'lookback': dict(with_m=True, calls=(None,)),
}


def _sig(family, which, call):
    """(with_m, strike, call) keyword layout of pfhedge.nn.functional.bs_<family>_<which>."""
    if family == 'european':
        return {'price': (False, True, call), 'delta': (False, False, call), 'gamma': (False, True, None),
                'vega': (False, True, None), 'theta': (False, True, None)}[which]
    if family == 'european_binary':
        return {'price': (False, False, call)}.get(which, (False, True, call))
    if family == 'american_binary':
        return {'price': (True, False, None)}.get(which, (True, True, None))
    return (True, True, None)


def broadcast_ob(family, which, call, prop):
    """bs_<family>_<which> on operands of DIFFERENT shapes - x: (), t: (3,), v: (1,), m: (2, 3), scalar strike - returns the
    broadcast shape (2, 3) (or (3,) without m) and, element by element, the value of the scalar case."""
    import time
    from pfv import smt
    from pfv.framework import Obligation, Verdict, real_exec
    from pfv.proxies import explore, SReal, Unsupported
    wm, st, cl = _sig(family, which, call)
    tag = ('call' if call else 'put') if call is not None else ''
    snippet = ('import pfhedge.nn.functional as F\n'
               'x = T(0.1); t = T([0.3, 0.7, 1.1]); v = T([0.25]); m = T([[0.15, 0.2, 0.3], [0.12, 0.5, 0.11]]); K = 1.3\n'
               'kw = {}\n'
               + ('kw["strike"] = K\n' if st else '') + ('kw["call"] = %r\n' % cl if cl is not None else '') +
               'args = (x, m, t, v) if %r else (x, t, v)\n' % wm +
               'out = F.bs_%s_%s(*args, **kw)\n' % (family, which) +
               'ref = [[float(F.bs_%s_%s(*((x, m[i, j], t[j], v[0]) if %r else (x, t[j], v[0])), **kw)) for j in range(3)] for i in range(2 if %r else 1)]\n' % (family, which, wm, wm) +
               'result = {"got": [list(out.shape), out.reshape(-1).tolist()], "ref": [[2, 3] if %r else [3], [q for row in ref for q in row]]}' % wm)

    def check():
        t0 = time.time()
        import torch
        import pfhedge.nn.functional as Fm
        from pfv.torchlib.tensor import Tensor, inline_leaves, ti
        i_, j_ = tm.var('bi', 'I'), tm.var('bj', 'I')
        fa = tm.var('fa', 'I')
        hyps = [tm.gt(K, tm.ZERO), tm.gt(tm.sel('vb', tm.IZERO), tm.ZERO), tm.forall(fa, tm.IZERO, tm.const(3, 'I'), tm.gt(tm.sel('tb', fa), tm.ZERO))]
        fb = tm.var('fb', 'I')
        if wm:
            # the same branch for every element (running maximum above the strike and above the spot): element-wise code does not fork
            hyps.append(tm.forall(fa, tm.IZERO, tm.const(2, 'I'), tm.forall(fb, tm.IZERO, tm.const(3, 'I'), tm.and_(tm.gt(tm.sel('mb', fa, fb), tm.ZERO), tm.ge(tm.sel('mb', fa, fb), tm.var('xb'))))))

        def run(c):
            kw = dict(log_moneyness=Tensor.input('xb', (), torch.float64), time_to_maturity=Tensor.input('tb', (3,), torch.float64), volatility=Tensor.input('vb', (1,), torch.float64))
            if wm:
                kw['max_log_moneyness'] = Tensor.input('mb', (2, 3), torch.float64)
            if st:
                kw['strike'] = SReal(K)
            if cl is not None:
                kw['call'] = cl
            return getattr(Fm, 'bs_%s_%s' % (family, which))(**kw)
        try:
            paths = explore(run, hyps, max_paths=16)
        except Unsupported as e:
            return Verdict('unknown', 'engine', time.time() - t0, 'out of reach: %s' % e)
        want_shape = (2, 3) if wm else (3,)
        for p in paths:
            if p.outcome() != 'returns':
                from pfv import fc
                if p.exception is not None and not fc._from_repo_or_contract(p):
                    return Verdict('unknown', 'engine', time.time() - t0, 'path %s: %s %s' % (p.outcome(), p.exception, p.traceback[-500:]))
                rr = real_exec(snippet, {})
                return Verdict('refuted', 'path-exploration', time.time() - t0, 'operands of shapes (), (3,), (1,)%s: %s: %s' % (', (2,3)' if wm else '', p.outcome(), str(p.exception)[:200]),
                               witness={'shapes': 'x: (), t: (3,), v: (1,)' + (', m: (2,3)' if wm else '')}, replay={'real': rr, 'confirmed': not rr.get('ok') or rr['result']['got'] != rr['result']['ref']})
            res = p.result
            if tuple(res._shape) != want_shape:
                rr = real_exec(snippet, {})
                return Verdict('refuted', 'shape', time.time() - t0, 'result shape %s, broadcast shape %s' % (res._shape, want_shape), witness={'shape': str(res._shape)},
                               replay={'real': rr, 'confirmed': not rr.get('ok') or rr['result']['got'][0] != rr['result']['ref'][0]})
            idx = (i_, j_) if wm else (j_,)
            rng = [tm.le(tm.IZERO, j_), tm.lt(j_, tm.const(3, 'I'))] + ([tm.le(tm.IZERO, i_), tm.lt(i_, tm.const(2, 'I'))] if wm else [])
            el = inline_leaves(res.at(idx), p.ctx)
            scal_hyps = B.OPEN + ([tm.gt(m, tm.ZERO), tm.ge(m, x)] if wm else [])
            scal = fterm(family, which, call, scal_hyps)
            sub = {x: tm.var('xb'), t: tm.sel('tb', j_), v: tm.sel('vb', tm.IZERO)}
            if wm:
                sub[m] = tm.sel('mb', i_, j_)
            want = tm.subst(scal, sub)
            r = smt.prove(p.facts(hyps) + rng, tm.eq(el, want), timeout_ms=20000)
            if r.status != 'unsat':
                rr = real_exec(snippet, {})
                conf = rr.get('ok') and any(abs(a_ - b_) > 1e-9 * max(1.0, abs(b_)) for a_, b_ in zip(rr['result']['got'][1], rr['result']['ref'][1]))
                return Verdict('refuted' if (r.status == 'sat' and conf) else 'unknown', r.backend, time.time() - t0, 'element [i,j] of the broadcast result differs from the scalar evaluation at (x, m[i,j], t[j], v[0])',
                               witness={'element': tm.show(el)[:300], 'scalar': tm.show(want)[:300]}, replay={'real': rr, 'confirmed': bool(conf)})
        return Verdict('proved', 'path-exploration + z3 (UF)', time.time() - t0, '%d path(s)' % len(paths), sample={'claim': 'broadcast shape and element-wise value', 'shapes': 'x: (), t: (3,), v: (1,)' + (', m: (2,3)' if wm else '')})
    return Obligation('%s/bs_%s_%s/broadcast%s' % (prop, family, which, ('[%s]' % tag) if tag else ''), 'post', 'pfhedge.nn.functional.bs_%s_%s' % (family, which), check, [prop],
                      clause='bs_%s_%s broadcasts its operands (x: (), t: (3,), v: (1,)%s) and evaluates element-wise' % (family, which, ', m: (2,3)' if wm else ''))


def mixed_batch_ob(family, which, prop):
    """barrier products on a batch that MIXES the two branches (running maximum below / above the strike): every element is
    the scalar evaluation of its own branch - no early return or guard may look at the whole batch."""
    import time
    from pfv.framework import real_exec
    wm, st, cl = _sig(family, which, None)
    snippet = ('import pfhedge.nn.functional as F\n'
               'x = T(-0.2); t = T(0.6); v = T(0.3); m = T([-0.05, 0.15]); K = 1.3\n'
               'kw = {"strike": K} if %r else {}\n' % st +
               'out = F.bs_%s_%s(x, m, t, v, **kw)\n' % (family, which) +
               'ref = [float(F.bs_%s_%s(x, m[i], t, v, **kw)) for i in range(2)]\n' % (family, which) +
               'result = {"got": [list(out.shape), out.tolist()], "ref": [[2], ref]}')

    def check():
        t0 = time.time()
        import torch
        import pfhedge.nn.functional as Fm
        from pfv.torchlib.tensor import Tensor, inline_leaves
        m0, m1 = tm.var('m0'), tm.var('m1')
        xb, tb, vb = tm.var('xb'), tm.var('tb'), tm.var('vb')
        hyps = [tm.gt(K, tm.ZERO), tm.gt(tb, tm.ZERO), tm.gt(vb, tm.ZERO), tm.lt(m0, tm.ZERO), tm.le(xb, m0), tm.gt(m1, tm.ZERO)]

        def run(c):
            mt = Tensor.fresh(lambda idx: tm.ite(tm.eq(idx[0], tm.IZERO), m0, m1), (2,), torch.float64)
            kw = dict(log_moneyness=Tensor.fresh(lambda idx: xb, (), torch.float64), max_log_moneyness=mt,
                      time_to_maturity=Tensor.fresh(lambda idx: tb, (), torch.float64), volatility=Tensor.fresh(lambda idx: vb, (), torch.float64))
            if st:
                kw['strike'] = SReal(K)
            return getattr(Fm, 'bs_%s_%s' % (family, which))(**kw)
        try:
            paths = explore(run, hyps, max_paths=16)
        except Unsupported as e:
            return Verdict('unknown', 'engine', time.time() - t0, 'out of reach: %s' % e)
        for p in paths:
            if p.outcome() != 'returns':
                from pfv import fc
                if p.exception is not None and not fc._from_repo_or_contract(p):
                    return Verdict('unknown', 'engine', time.time() - t0, 'path %s: %s %s' % (p.outcome(), p.exception, p.traceback[-500:]))
                rr = real_exec(snippet, {})
                return Verdict('refuted', 'path-exploration', time.time() - t0, 'mixed batch: %s: %s' % (p.outcome(), str(p.exception)[:200]), witness={'m': 'one element below, one above the strike'},
                               replay={'real': rr, 'confirmed': not rr.get('ok') or rr['result']['got'] != rr['result']['ref']})
            res = p.result
            if tuple(res._shape) != (2,):
                rr = real_exec(snippet, {})
                return Verdict('refuted', 'shape', time.time() - t0, 'result shape %s, expected (2,)' % (res._shape,), witness={'shape': str(res._shape)},
                               replay={'real': rr, 'confirmed': not rr.get('ok') or rr['result']['got'] != rr['result']['ref']})
            for k_, (mk, mh) in enumerate(((m0, [tm.lt(m, tm.ZERO), tm.le(x, m)]), (m1, [tm.gt(m, tm.ZERO), tm.le(x, m)]))):
                el = inline_leaves(res.at((tm.const(k_, 'I'),)), p.ctx)
                scal = fterm(family, which, None, B.OPEN + mh)
                want = tm.subst(scal, {x: xb, t: tb, v: vb, m: mk})
                r = smt.prove(p.facts(hyps), tm.eq(el, want), timeout_ms=20000)
                if r.status != 'unsat':
                    rr = real_exec(snippet, {})
                    conf = rr.get('ok') and any(abs(a_ - b_) > 1e-9 * max(1.0, abs(b_)) for a_, b_ in zip(rr['result']['got'][1], rr['result']['ref'][1]))
                    return Verdict('refuted' if (r.status == 'sat' and conf) else 'unknown', r.backend, time.time() - t0,
                                   'element %d (running maximum %s the strike) of a mixed batch differs from its own scalar evaluation' % (k_, 'below' if k_ == 0 else 'above'),
                                   witness={'element': tm.show(el)[:300], 'scalar': tm.show(want)[:300]}, replay={'real': rr, 'confirmed': bool(conf)})
        return Verdict('proved', 'path-exploration + z3 (UF)', time.time() - t0, '%d path(s)' % len(paths), sample={'claim': 'element-wise evaluation on a batch mixing both branches'})
    return Obligation('%s/bs_%s_%s/mixed-batch' % (prop, family, which), 'post', 'pfhedge.nn.functional.bs_%s_%s' % (family, which), check, [prop],
                      clause='bs_%s_%s on a batch with one running maximum below and one above the strike: each element equals the scalar evaluation of its own branch' % (family, which))


def branches(family):
    if family in ('american_binary',):
        return [('m<0', OPEN + [tm.lt(m, tm.ZERO), tm.le(x, m)], 'neg'), ('m>=0', OPEN + [tm.ge(m, tm.ZERO), tm.le(x, m)], 'pos')]
    if family == 'lookback':
        return [('m<0', OPEN + [tm.lt(m, tm.ZERO), tm.le(x, m)], 'neg'), ('m>0', OPEN + [tm.gt(m, tm.ZERO), tm.le(x, m)], 'pos')]
    return [('', OPEN, None)]


def fterm(family, which, call, hyps):
    wm, st, cl = _sig(family, which, call)
    return B.bs_term('bs_%s_%s' % (family, which), hyps, with_m=wm, strike=st, call=cl)[0]


def reference(V, which):
    if which == 'delta':
        return tm.div(D.diff(V, x), S)
    if which == 'gamma':
        return tm.div(D.diff(tm.div(D.diff(V, x), S), x), S)
    if which == 'vega':
        return D.diff(V, v)
    if which == 'theta':
        return tm.neg(D.diff(V, t))
    raise ValueError(which)


_CALLS = {
    'european': ('F.bs_european_price(XX, TT, VV, strike=K, call=CALL)', {
        'delta': 'F.bs_european_delta(x, t, v, call=CALL)', 'gamma': 'F.bs_european_gamma(x, t, v, strike=K)',
        'vega': 'F.bs_european_vega(x, t, v, strike=K)', 'theta': 'F.bs_european_theta(x, t, v, strike=K)'}),
    'european_binary': ('F.bs_european_binary_price(XX, TT, VV, call=CALL)', {
        w: 'F.bs_european_binary_%s(x, t, v, call=CALL, strike=K)' % w for w in ('delta', 'gamma', 'vega', 'theta')}),
    'american_binary': ('F.bs_american_binary_price(XX, m, TT, VV)', {
        w: 'F.bs_american_binary_%s(x, m, t, v, strike=K)' % w for w in ('delta', 'gamma', 'vega', 'theta')}),
    'lookback': ('F.bs_lookback_price(XX, m, TT, VV, strike=K)', {
        w: 'F.bs_lookback_%s(x, m, t, v, strike=K)' % w for w in ('delta', 'gamma', 'vega', 'theta')}),
}


def replay_snippet(family, which, call, module=False):
    price, greeks = _CALLS[family]
    g = greeks[which]
    if module:
        cls = {'european': 'BSEuropeanOption', 'european_binary': 'BSEuropeanBinaryOption',
               'american_binary': 'BSAmericanBinaryOption', 'lookback': 'BSLookbackOption'}[family]
        ctor = 'M = pfhedge.nn.%s(%sstrike=K)' % (cls, ('call=CALL, ' if call is not None else ''))
        args_p = 'XX, m, TT, VV' if family in ('american_binary', 'lookback') else 'XX, TT, VV'
        args_g = 'x, m, t, v' if family in ('american_binary', 'lookback') else 'x, t, v'
        price = 'M.price(%s)' % args_p
        g = 'M.%s(%s)' % (which, args_g)
    else:
        ctor = ''
    lines = ['import pfhedge.nn.functional as F', 'import pfhedge.nn',
             'x=T(W["x"]); t=T(W["t"]); v=T(W["v"]); K=W["K"]; m=T(W.get("m", 0.0)); CALL=%r' % (True if call is None else call), ctor]
    if which in ('delta', 'gamma'):
        lines += ['Sx=(x.exp()*K).detach().requires_grad_()', 'price=' + price.replace('XX', '(Sx/K).log()').replace('TT', 't').replace('VV', 'v'),
                  'd,=torch.autograd.grad(price,Sx,create_graph=True)']
        if which == 'gamma':
            lines += ['ref,=torch.autograd.grad(d,Sx)']
        else:
            lines += ['ref=d']
    elif which == 'vega':
        lines += ['vv=v.detach().requires_grad_()', 'price=' + price.replace('XX', 'x').replace('TT', 't').replace('VV', 'vv'),
                  'ref,=torch.autograd.grad(price,vv)']
    else:
        lines += ['tt=t.detach().requires_grad_()', 'price=' + price.replace('XX', 'x').replace('TT', 'tt').replace('VV', 'v'),
                  'ref,=torch.autograd.grad(price,tt)', 'ref=-ref']
    lines += ['got=' + g, 'result={"got": float(got), "ref": float(ref)}']
    return '\n'.join(l for l in lines if l)


# ---- module-level terms ------------------------------------------------------------------------

def module_term(family, which, call, hyps):
    """Run BS<Family>Option(call, strike=K).<which>(x[, m], t, v) on symbols."""
    import pfhedge.nn as pnn
    cls = {'european': pnn.BSEuropeanOption, 'european_binary': pnn.BSEuropeanBinaryOption,
           'american_binary': pnn.BSAmericanBinaryOption, 'lookback': pnn.BSLookbackOption}[family]
    wm = family in ('american_binary', 'lookback')
    build = B.std_inputs(with_m=wm, strike=False)

    def run(c):
        kw = dict(strike=SReal(K))
        if call is not None:
            kw['call'] = call
        mod = cls(**kw)
        return getattr(mod, which)(**build())
    paths = explore(run, hyps)
    rets = [p for p in paths if p.outcome() == 'returns']
    if len(paths) != 1 or len(rets) != 1:
        raise Unsupported('module %s.%s: paths %s' % (family, which, [(p.outcome(), str(p.exception)[:200], p.traceback[-300:]) for p in paths]))
    from pfv.torchlib.tensor import inline_leaves
    return inline_leaves(rets[0].result.at(()), rets[0].ctx)


# ---- autogreek dataflow --------------------------------------------------------------------------

AUTOGREEK_REPLAY = '''
import math
import pfhedge.autogreek as ag
bad = []
K0 = 1.25        # exactly representable in float32: autogreek turns a Python strike into a default-dtype tensor
S = T([0.9, 1.25, 1.7]); v = T([0.2, 0.3, 0.25]); tt = T([0.5, 0.3, 1.0])
pricers = {
    "spot": lambda spot, volatility: spot ** 3 / K0 ** 3 * volatility + spot * volatility,
    "moneyness": lambda moneyness, volatility: moneyness ** 3 * volatility + moneyness * K0 * volatility,
    "log_moneyness": lambda log_moneyness, volatility: (3 * log_moneyness).exp() * volatility + log_moneyness.exp() * K0 * volatility,
}
callers = {"spot": lambda: {"spot": S.clone(), "strike": K0}, "moneyness": lambda: {"moneyness": S / K0, "strike": K0}, "log_moneyness": lambda: {"log_moneyness": (S / K0).log(), "strike": K0}}
want_delta = 3 * S ** 2 / K0 ** 3 * v + v
want_gamma = 6 * S / K0 ** 3 * v
ran = 0
for pn, pr in pricers.items():
    for cn, mk in callers.items():
        for greek, want in (("delta", want_delta), ("gamma", want_gamma)):
            kw = mk(); kw["volatility"] = v.clone()
            if pn == "spot" and cn == "spot": kw.pop("strike")
            before = {k_: (x_.clone() if torch.is_tensor(x_) else x_) for k_, x_ in kw.items()}
            try:
                got = getattr(ag, greek)(pr, **kw)
            except Exception as e:
                bad.append((greek, pn, cn, type(e).__name__ + ": " + str(e)[:80])); continue
            ran += 1
            if not torch.allclose(got, want, rtol=1e-9): bad.append((greek, "pricer(%s)" % pn, "caller passes %s" % cn, got.tolist(), want.tolist()))
            for k_, x_ in kw.items():
                if torch.is_tensor(x_) and not torch.equal(x_.detach(), before[k_]): bad.append((greek, pn, cn, "argument %s modified" % k_))
# vega / theta
for (pn, pr, kw, want) in (("volatility", lambda spot, volatility: spot * volatility ** 3, {"spot": S, "volatility": v}, 3 * S * v ** 2),
                           ("variance", lambda spot, variance: spot * variance ** 2, {"spot": S, "volatility": v}, 4 * S * v ** 3),
                           ("variance<-variance", lambda spot, variance: spot * variance ** 2, {"spot": S, "variance": v ** 2}, 4 * S * v ** 3),
                           ("volatility<-variance", lambda spot, volatility: spot * volatility ** 3, {"spot": S, "variance": v ** 2}, 3 * S * v ** 2)):
    got = ag.vega(pr, **{k_: x_.clone() for k_, x_ in kw.items()})
    if not torch.allclose(got, want, rtol=1e-9): bad.append(("vega", pn, got.tolist(), want.tolist()))
got = ag.theta(lambda spot, time_to_maturity: spot * time_to_maturity ** 2, spot=S.clone(), time_to_maturity=tt.clone())
if not torch.allclose(got, -2 * S * tt, rtol=1e-9): bad.append(("theta", got.tolist()))
result = {"got": [str(b) for b in bad][:10], "ref": [], "ran": ran}
'''


def _replay_autogreek():
    from pfv.framework import real_exec
    r = real_exec(AUTOGREEK_REPLAY, {}, timeout=300)
    ok = r.get('ok') and r['result']['got'] == [] and r['result'].get('ran') == 18
    return {'real': r, 'confirmed': not ok, 'note': 'replay: autogreek.delta/gamma for concrete polynomial/exponential pricers in the three parametrisations x three caller namings (18 calls) against the analytic derivative, caller arguments unchanged; vega (volatility/variance) and theta'}


def autogreek_obligations(seed):
    """For an uninterpreted smooth pricer P with each accepted parameter naming, the value returned by
    autogreek.<greek> equals the derivative of P along the documented reparametrisation."""
    import torch
    from pfv.torchlib.tensor import Tensor, _ew2
    import pfhedge.autogreek as ag

    obs = []
    sp_, mo, lm, vo, va, tt = [tm.var(n) for n in ('spot', 'mny', 'lmny', 'vol', 'var', 'ttm')]
    pos = [tm.gt(sp_, tm.ZERO), tm.gt(mo, tm.ZERO), tm.gt(vo, tm.ZERO), tm.gt(va, tm.ZERO), tm.gt(tt, tm.ZERO), tm.gt(K, tm.ZERO)]

    def P(*names):
        """pricer with the given keyword signature, value = uninterpreted smooth P_<names>(args)."""
        fname = 'P_' + '_'.join(names)
        src = 'def pricer(%s):\n    return _apply(%s)\n' % (', '.join(names), ', '.join(names))

        def _apply(*ts):
            ts = [t_ if isinstance(t_, Tensor) else torch.as_tensor(t_) for t_ in ts]
            rds = [t_.reader() for t_ in ts]
            deps = frozenset().union(*[t_.deps for t_ in ts])
            return Tensor.fresh(lambda idx: tm.app(fname, *[r(()) for r in rds]), (), torch.float64, deps)
        g = {'_apply': _apply, '__name__': 'user_pricers'}      # like functions defined in a user's module: all called `pricer`
        exec(src, g)
        return g['pricer'], fname

    def case(greek, pricer_names, caller, expect_fn, label, before=None):
        """caller: dict name -> var term passed by the user; expect_fn(Pname) -> T expected value.
        before: (greek, pricer_names, caller) of an EARLIER call in the same process with another pricer of the same
        qualified name (all generated pricers are called `pricer`): nothing of it may influence this call."""
        def check():
            pricer, fname = P(*pricer_names)

            def run(c):
                if before is not None:
                    g0, names0, caller0 = before
                    pr0, _ = P(*names0)
                    kw0 = {k_: (SReal(t_) if k_ == 'strike' else Tensor.fresh(lambda idx, t_=t_: t_, (), torch.float64)) for k_, t_ in caller0.items()}
                    getattr(ag, g0)(pr0, **kw0)
                kw = {}
                for k_, term in caller.items():
                    kw[k_] = SReal(term) if k_ == 'strike' else Tensor.fresh(lambda idx, term=term: term, (), torch.float64)
                return getattr(ag, greek)(pricer, **kw)
            paths = explore(run, pos)
            rets = [p for p in paths if p.outcome() == 'returns']
            if len(paths) != 1 or not rets:
                # the user pricer rejected the keyword arguments autogreek built for it (raised at the call inside autogreek.py, not in the
                # torch shim): the contract says this call returns the derivative - decided by the replay on real torch
                wrong_kw = [p for p in paths if p.outcome() == 'raises:TypeError' and 'pricer()' in str(p.exception) and 'autogreek.py' in (p.traceback or '') and 'torchlib' not in (p.traceback or '')[-600:]]
                if wrong_kw:
                    rp = _replay_autogreek()
                    if rp.get('confirmed'):
                        return Verdict('refuted', 'path-exploration', 0, 'autogreek.%s calls the pricer with the wrong keyword arguments: %s' % (greek, str(wrong_kw[0].exception)[:200]),
                                       witness={'exception': str(wrong_kw[0].exception)[:200]}, replay=rp)
                return Verdict('unknown', 'engine', 0, 'paths: %s' % [(p.outcome(), str(p.exception)[:200], p.traceback[-400:]) for p in paths])
            got = rets[0].result.at(())
            got = _inline_leaves(got, rets[0])
            exp = expect_fn(fname)
            r = smt.prove(pos, tm.eq(got, exp), timeout_ms=20000)
            sample = {'claim': label, 'got': tm.show(got)[:500], 'expected': tm.show(exp)[:500]}
            if r.status == 'unsat':
                return Verdict('proved', r.backend, r.time_s, '', sample=sample)
            if r.status == 'sat':
                return Verdict('refuted', r.backend, r.time_s, 'autogreek.%s result differs from the chain-rule value: got %s expected %s' % (greek, tm.show(got)[:300], tm.show(exp)[:300]),
                               witness={'got': tm.show(got)[:800], 'expected': tm.show(exp)[:800]}, sample=sample, replay=_replay_autogreek())
            return Verdict('unknown', r.backend, r.time_s, r.reason, sample=sample)
        return Obligation('C08/autogreek.%s/%s' % (greek, label), 'post', 'pfhedge.autogreek.' + greek, check, [PROP],
                          clause='autogreek.%s(pricer(%s); caller passes %s) == chain-rule derivative at the caller\'s point' % (greek, ','.join(pricer_names), ','.join(caller)))

    def d0(f, *args):
        return tm.app(f + '.d0', *args)

    def d00(f, *args):
        return tm.app(f + '.d0.d0', *args)
    # ---- delta: all spot namings x pricer parametrisations
    # pricer(spot, volatility)
    obs.append(case('delta', ('spot', 'volatility'), {'spot': sp_, 'volatility': vo},
                    lambda f: d0(f, sp_, vo), 'spot->spot'))
    obs.append(case('delta', ('spot', 'volatility'), {'moneyness': mo, 'strike': K, 'volatility': vo},
                    lambda f: d0(f, tm.mul(mo, K), vo), 'moneyness+strike->spot'))
    obs.append(case('delta', ('spot', 'volatility'), {'log_moneyness': lm, 'strike': K, 'volatility': vo},
                    lambda f: d0(f, tm.mul(tm.app('exp', lm), K), vo), 'log_moneyness+strike->spot'))
    # pricer(moneyness, ...): d/dS P(S/K) = P'(S/K)/K
    obs.append(case('delta', ('moneyness', 'volatility'), {'spot': sp_, 'strike': K, 'volatility': vo},
                    lambda f: tm.div(d0(f, tm.div(sp_, K), vo), K), 'spot+strike->moneyness'))
    obs.append(case('delta', ('moneyness', 'volatility'), {'moneyness': mo, 'strike': K, 'volatility': vo},
                    lambda f: tm.div(d0(f, mo, vo), K), 'moneyness+strike->moneyness'))
    # pricer(log_moneyness, ...): d/dS P(log(S/K)) = P'(log(S/K))/S
    obs.append(case('delta', ('log_moneyness', 'volatility'), {'spot': sp_, 'strike': K, 'volatility': vo},
                    lambda f: tm.div(d0(f, tm.app('log', tm.div(sp_, K)), vo), sp_), 'spot+strike->log_moneyness'))
    obs.append(case('delta', ('log_moneyness', 'volatility'), {'log_moneyness': lm, 'strike': K, 'volatility': vo},
                    lambda f: tm.div(d0(f, lm, vo), tm.mul(tm.app('exp', lm), K)), 'log_moneyness+strike->log_moneyness'))
    # ---- gamma (second derivative w.r.t. the same leaf)
    obs.append(case('gamma', ('spot', 'volatility'), {'spot': sp_, 'volatility': vo},
                    lambda f: d00(f, sp_, vo), 'spot->spot'))
    obs.append(case('gamma', ('moneyness', 'volatility'), {'spot': sp_, 'strike': K, 'volatility': vo},
                    lambda f: tm.div(d00(f, tm.div(sp_, K), vo), tm.mul(K, K)), 'spot+strike->moneyness'))
    obs.append(case('gamma', ('log_moneyness', 'volatility'), {'log_moneyness': lm, 'strike': K, 'volatility': vo},
                    lambda f: (lambda Sx: tm.div(tm.sub(d00(f, lm, vo), d0(f, lm, vo)), tm.mul(Sx, Sx)))(tm.mul(tm.app('exp', lm), K)),
                    'log_moneyness+strike->log_moneyness'))
    # ---- vega: volatility | variance
    obs.append(case('vega', ('spot', 'volatility'), {'spot': sp_, 'volatility': vo},
                    lambda f: tm.app(f + '.d1', sp_, vo), 'volatility->volatility'))
    obs.append(case('vega', ('spot', 'variance'), {'spot': sp_, 'volatility': vo},
                    lambda f: tm.mul(tm.app(f + '.d1', sp_, tm.mul(vo, vo)), tm.const(2, 'R'), vo), 'volatility->variance'))
    obs.append(case('vega', ('spot', 'variance'), {'spot': sp_, 'variance': va},
                    lambda f: tm.mul(tm.app(f + '.d1', sp_, va), tm.const(2, 'R'), tm.app('sqrt', va)), 'variance->variance'))
    obs.append(case('vega', ('spot', 'volatility'), {'spot': sp_, 'variance': va},
                    lambda f: tm.app(f + '.d1', sp_, tm.app('sqrt', va)), 'variance->volatility'))
    # ---- theta
    obs.append(case('theta', ('spot', 'time_to_maturity'), {'spot': sp_, 'time_to_maturity': tt},
                    lambda f: tm.neg(tm.app(f + '.d1', sp_, tt)), 'time_to_maturity'))
    # call history: an earlier call with ANOTHER pricer of the same name and a different signature leaves no trace
    obs.append(case('delta', ('moneyness', 'volatility'), {'spot': sp_, 'strike': K, 'volatility': vo},
                    lambda f: tm.div(d0(f, tm.div(sp_, K), vo), K), 'history[after a same-named pricer(spot,volatility)]->moneyness',
                    before=('delta', ('spot', 'volatility'), {'spot': sp_, 'volatility': vo})))
    obs.append(case('vega', ('spot', 'variance'), {'spot': sp_, 'volatility': vo},
                    lambda f: tm.mul(tm.app(f + '.d1', sp_, tm.mul(vo, vo)), tm.const(2, 'R'), vo), 'history[after a same-named pricer(spot,volatility)]->variance',
                    before=('vega', ('spot', 'volatility'), {'spot': sp_, 'volatility': vo})))
    obs.append(case('gamma', ('log_moneyness', 'volatility'), {'log_moneyness': lm, 'strike': K, 'volatility': vo},
                    lambda f: (lambda Sx: tm.div(tm.sub(d00(f, lm, vo), d0(f, lm, vo)), tm.mul(Sx, Sx)))(tm.mul(tm.app('exp', lm), K)),
                    'history[after a same-named pricer(spot,volatility)]->log_moneyness',
                    before=('gamma', ('spot', 'volatility'), {'spot': sp_, 'volatility': vo})))
    # extra caller arguments not in the pricer's signature are dropped, not passed
    obs.append(case('delta', ('spot',), {'spot': sp_, 'volatility': vo, 'time_to_maturity': tt},
                    lambda f: d0(f, sp_), 'drops-unknown-arguments'))
    return obs


def _inline_leaves(term, path):
    from pfv.torchlib.tensor import inline_leaves
    return inline_leaves(term, path.ctx)


# ---- build -------------------------------------------------------------------------------------

def build(tier, seed):
    from pfv.torchlib import import_pfhedge
    import_pfhedge()
    obs = []
    for family, spec in FAMILIES.items():
        for call in spec['calls']:
            for (bname, hyps, msign) in branches(family):
                for which in ('delta', 'gamma', 'vega', 'theta'):
                    if family == 'european' and which != 'delta' and call is False:
                        # gamma/vega/theta take no call flag: they must match the put price as well
                        pass
                    tag = '%s%s%s' % ('' if call is None else ('call' if call else 'put'), ',' if (call is not None and bname) else '', bname)
                    oid = 'C08/bs_%s_%s/post[%s]' % (family, which, tag)
                    obs.append(B.identity_ob(
                        oid, 'pfhedge.nn.functional.bs_%s_%s' % (family, which), [PROP],
                        (lambda family=family, which=which, call=call, hyps=hyps: fterm(family, which, call, hyps)),
                        (lambda family=family, which=which, call=call, hyps=hyps: reference(fterm(family, 'price', call, hyps), which)),
                        hyps,
                        'bs_%s_%s == %s of bs_%s_price [%s]' % (family, which, {'delta': '(1/S) d/dx', 'gamma': '(1/S)d/dx((1/S)d/dx)', 'vega': 'd/dv', 'theta': '-d/dt'}[which], family, tag),
                        seed=seed, with_m=spec['with_m'], m_sign=msign,
                        replay_snippet=replay_snippet(family, which, call)))
                    oid = 'C08/BS%s.%s/post[%s]' % (family, which, tag)
                    obs.append(B.identity_ob(
                        oid, 'pfhedge.nn.modules.bs.%s.%s' % (family, which), [PROP],
                        (lambda family=family, which=which, call=call, hyps=hyps: module_term(family, which, call, hyps)),
                        (lambda family=family, which=which, call=call, hyps=hyps: reference(module_term(family, 'price', call, hyps), which)),
                        hyps,
                        'BS<%s>(call=%s, strike=K).%s == derivative of the module\'s own price [%s]' % (family, call, which, tag),
                        seed=seed + 1, with_m=spec['with_m'], m_sign=msign,
                        replay_snippet=replay_snippet(family, which, call, module=True)))
    obs.extend(autogreek_obligations(seed))
    # canaries: deliberately false variants that the engine must refute
    obs.append(B.identity_ob('C08/canary/gamma-doubled', '', [PROP],
                             lambda: fterm('european', 'gamma', True, OPEN),
                             lambda: tm.mul(tm.const(2, 'R'), reference(fterm('european', 'price', True, OPEN), 'gamma')),
                             OPEN, 'CANARY (must be refuted): european gamma == 2 * second derivative', seed=seed, kind='canary'))
    obs.append(B.identity_ob('C08/canary/binary-gamma-t-squared', '', [PROP],
                             lambda: tm.subst(fterm('european_binary', 'gamma', True, OPEN), {tm.app('sqrt', t): tm.mul(t, t)}),
                             lambda: reference(fterm('european_binary', 'price', True, OPEN), 'gamma'),
                             OPEN, 'CANARY (must be refuted): binary gamma with sqrt(t) replaced by t^2 (the defect fixed in 0345cb1)', seed=seed, kind='canary'))
    # operands of different shapes: broadcast shape and element-wise value of every closed-form Greek
    for family, spec in FAMILIES.items():
        if family == 'lookback':
            continue          # lookback Greeks are taken by autograd of the price (covered by the autogreek obligations)
        for call in spec['calls']:
            for which in ('delta', 'gamma', 'vega', 'theta'):
                if family == 'european' and which != 'delta' and call is False:
                    continue
                obs.append(broadcast_ob(family, which, call, PROP))
    for which in ('delta', 'gamma', 'vega', 'theta'):
        obs.append(mixed_batch_ob('american_binary', which, PROP))
    return {
        'obligations': obs,
        'functions': FUNCTIONS,
        'assumptions': ASSUMPTIONS,
        'level': 'proof',
        'trusted_base': ['pfv symbolic executor + torch contract shim (pfv/torchlib)', 'pfv/diff.py symbolic differentiation',
                         'sympy 1.14 expand/cancel (zero test generator)', 'z3 4.x/5.x QF_NRA (polynomial identity re-check, chain-rule equalities)',
                         'CPython 3.11 executing the real pfhedge functions'],
        'note': 'Each Greek identity is a VC generated by running the real function from /repo on symbols and differentiating the real price term; discharged as a polynomial identity over exp/ncdf atoms.',
    }
