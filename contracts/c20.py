"""C20 - clamps, the Whalley-Wilmott band and small helpers follow their formulas.

Contracts (ensures written from the property statement / the documented formulas):
  leaky_clamp(x, lo, hi, s, io)  lo<=hi: x<lo -> lo+s(x-lo); lo<=x<=hi -> x; x>hi -> hi+s(x-hi)
                                 lo>hi : (lo+hi)/2 for io='mean', hi for io='max'; one-sided halves; invalid io raises
  clamp(x, lo, hi, io)           the same with s = 0
  LeakyClamp(s, io).forward / Clamp(io).forward   == the functional with the configured options
  ww_width(G, S, c, a)           == (3 c G^2 S / (2 a))^(1/3)
  WhalleyWilmott(d, a).forward   prev in [delta-w, delta+w] -> prev, below -> delta-w, above -> delta+w; c = 0 -> delta
  svi_variance, SVIVariance.forward, bilerp, box_muller, realized_volatility: documented formulas
"""
from pfv import terms as tm
from pfv import fc, evalc
from pfv.framework import Obligation, Verdict
from pfv.proxies import SReal, SInt
from pfv.bslib import K

PROP = 'C20'
FUNCTIONS = [
    'pfhedge.nn.functional.leaky_clamp', 'pfhedge.nn.functional.clamp',
    'pfhedge.nn.modules.clamp.LeakyClamp.__init__', 'pfhedge.nn.modules.clamp.LeakyClamp.forward',
    'pfhedge.nn.modules.clamp.Clamp.__init__', 'pfhedge.nn.modules.clamp.Clamp.forward',
    'pfhedge.nn.functional.ww_width', 'pfhedge.nn.modules.ww.WhalleyWilmott.__init__',
    'pfhedge.nn.modules.ww.WhalleyWilmott.inputs', 'pfhedge.nn.modules.ww.WhalleyWilmott.forward',
    'pfhedge.nn.modules.ww.WhalleyWilmott.width',
    'pfhedge.nn.functional.svi_variance', 'pfhedge.nn.modules.svi.SVIVariance.__init__',
    'pfhedge.nn.modules.svi.SVIVariance.forward', 'pfhedge.nn.functional.bilerp', 'pfhedge.nn.functional.box_muller',
    'pfhedge.nn.functional.realized_variance', 'pfhedge.nn.functional.realized_volatility',
]
ASSUMPTIONS = [
    'A1 reals for floats (the literal 1/3 in ww_width denotes the real 1/3)',
    'A3 torch contracts: maximum/minimum/where/clamp/lerp/as_tensor/.to, broadcasting; torch.clamp(x, lo, hi) = min(max(x, lo), hi); lerp(a,b,w) = a + w(b-a)',
    'A2 sqrt/cbrt/log/cos/sin as uninterpreted functions with their defining axioms; box_muller and realized_volatility are compared as terms over these atoms',
    'WhalleyWilmott: the underlier cost c >= 0 and risk aversion a > 0 (documented domain); Black-Scholes delta/gamma of the wrapped module are the C08-verified functions (run, not stubbed)',
]
X, LO, HI, S_ = tm.var('x'), tm.var('lo'), tm.var('hi'), tm.var('s')


def _t(name):
    import torch
    from pfv.torchlib.tensor import Tensor
    return Tensor.input(name, (), torch.float64)


def spec_leaky(x, lo, hi, s, io, has_lo=True, has_hi=True):
    below = tm.add(lo, tm.mul(s, tm.sub(x, lo))) if has_lo else None
    above = tm.add(hi, tm.mul(s, tm.sub(x, hi))) if has_hi else None
    if has_lo and has_hi:
        inside = tm.ite(tm.lt(x, lo), below, tm.ite(tm.gt(x, hi), above, x))
        inv = tm.div(tm.add(lo, hi), tm.const(2, 'R')) if io == 'mean' else hi
        return tm.ite(tm.le(lo, hi), inside, inv)
    if has_lo:
        return tm.ite(tm.lt(x, lo), below, x)
    if has_hi:
        return tm.ite(tm.gt(x, hi), above, x)
    return x


def _snippet(call):
    return ('import pfhedge.nn.functional as F\nimport pfhedge.nn\n'
            'x=T(W.get("x",0.0)); lo=T(W.get("lo",0.0)); hi=T(W.get("hi",0.0)); s=W.get("s",0.0)\n'
            'result={"got": float(%s)}' % call)


def clamp_case(fn_name, has_lo, has_hi, io, slope_hyps, scalar_bounds=False, module=None, slope=True):
    """Case builder for leaky_clamp / clamp / the two modules."""
    def build():
        import pfhedge.nn.functional as F
        import pfhedge.nn as pnn

        def run(c):
            x = _t('x')
            lo = (SReal(LO) if scalar_bounds else _t('lo')) if has_lo else None
            hi = (SReal(HI) if scalar_bounds else _t('hi')) if has_hi else None
            if module == 'LeakyClamp':
                kw = {} if io is None else {'inverted_output': io}
                return pnn.LeakyClamp(clamped_slope=SReal(S_), **kw)(x, lo, hi)
            if module == 'Clamp':
                kw = {} if io is None else {'inverted_output': io}
                return pnn.Clamp(**kw)(x, lo, hi)
            kw = {} if io is None else {'inverted_output': io}
            if fn_name == 'leaky_clamp':
                return F.leaky_clamp(x, lo, hi, clamped_slope=SReal(S_), **kw)
            return F.clamp(x, lo, hi, **kw)
        s = S_ if slope else tm.ZERO
        eff_io = io or 'mean'
        valid = eff_io in ('mean', 'max')
        spec = spec_leaky(X, LO, HI, s, eff_io, has_lo, has_hi) if valid else None
        raises = {}
        if not valid and ((has_lo and has_hi) or fn_name == 'clamp' or module == 'Clamp'):
            raises = {'ValueError': tm.TRUE}
        args = 'x%s%s' % (', min=' + ('W["lo"]' if scalar_bounds else 'lo') if has_lo else '', ', max=' + ('W["hi"]' if scalar_bounds else 'hi') if has_hi else '')
        iokw = '' if io is None else ', inverted_output=%r' % io
        if module == 'LeakyClamp':
            call = 'pfhedge.nn.LeakyClamp(clamped_slope=s%s)(%s)' % (iokw, args)
        elif module == 'Clamp':
            call = 'pfhedge.nn.Clamp(%s)(%s)' % (iokw.lstrip(', '), args)
        elif fn_name == 'leaky_clamp':
            call = 'F.leaky_clamp(%s, clamped_slope=s%s)' % (args, iokw)
        else:
            call = 'F.clamp(%s%s)' % (args, iokw)
        return fc.Case(run, hyps=slope_hyps,
                       ensures=(lambda res, p: [('value', [], res.at(()), spec)]) if spec is not None else None,
                       raises=raises, shape=(lambda res: ()) if spec is not None else None,
                       scalars=['x', 'lo', 'hi', 's'], real_snippet=_snippet(call)), spec
    return build


def clamp_ob(oid, function, clause, builder):
    holder = {}

    def case_fn():
        case, spec = builder()
        holder['spec'] = spec
        return case

    def spec_eval(W):
        spec = builder()[1]
        env = {k: W.get(k, 0.0) for k in ('x', 'lo', 'hi', 's')}
        env = {k: (__import__('fractions').Fraction(val).limit_denominator(10 ** 12) if isinstance(val, float) else val) for k, val in env.items()}
        return float(evalc.evaluate(spec, env))
    return fc.contract_ob(oid, function, [PROP], case_fn, clause, spec_eval=spec_eval)


def build(tier, seed):
    from pfv.torchlib import import_pfhedge
    import_pfhedge()
    obs = []
    F_ = 'pfhedge.nn.functional.'
    S01 = [tm.le(tm.ZERO, S_), tm.le(S_, tm.ONE)]
    SGT = [tm.gt(S_, tm.ONE)]
    SLT = [tm.lt(S_, tm.ZERO)]
    # ---- leaky_clamp, documented slope range
    for io in (None, 'mean', 'max'):
        for (hl, hh) in ((True, True), (True, False), (False, True), (False, False)):
            for sb in (False, True):
                if sb and not (hl or hh):
                    continue
                tag = 'io=%s,%s%s%s' % (io, 'lo' if hl else '', 'hi' if hh else '', ',scalar-bounds' if sb else '')
                obs.append(clamp_ob('C20/leaky_clamp/post[%s,0<=s<=1]' % tag, F_ + 'leaky_clamp',
                                    'leaky_clamp == documented piecewise formula, slope in [0,1] [%s]' % tag,
                                    clamp_case('leaky_clamp', hl, hh, io, S01, scalar_bounds=sb)))
    # all slopes: the property quantifies over every slope
    obs.append(clamp_ob('C20/leaky_clamp/post[io=mean,lohi,s>1]', F_ + 'leaky_clamp', 'leaky_clamp == documented piecewise formula for slopes > 1',
                        clamp_case('leaky_clamp', True, True, 'mean', SGT)))
    obs.append(clamp_ob('C20/leaky_clamp/post[io=mean,lohi,s<0]', F_ + 'leaky_clamp', 'leaky_clamp == documented piecewise formula for slopes < 0',
                        clamp_case('leaky_clamp', True, True, 'mean', SLT)))
    obs.append(clamp_ob('C20/leaky_clamp/raises[invalid io]', F_ + 'leaky_clamp', 'invalid inverted_output with both bounds raises ValueError',
                        clamp_case('leaky_clamp', True, True, 'min', S01)))
    # ---- clamp
    for io in (None, 'mean', 'max'):
        for (hl, hh) in ((True, True), (True, False), (False, True)):
            tag = 'io=%s,%s%s' % (io, 'lo' if hl else '', 'hi' if hh else '')
            obs.append(clamp_ob('C20/clamp/post[%s]' % tag, F_ + 'clamp', 'clamp == input inside, nearer bound outside, documented inverted value [%s]' % tag,
                                clamp_case('clamp', hl, hh, io, [], slope=False)))
    obs.append(clamp_ob('C20/clamp/raises[invalid io]', F_ + 'clamp', 'invalid inverted_output raises ValueError',
                        clamp_case('clamp', True, True, 'foo', [], slope=False)))
    # ---- modules honour their options
    for io in (None, 'mean', 'max'):
        obs.append(clamp_ob('C20/LeakyClamp.forward/post[io=%s]' % io, 'pfhedge.nn.modules.clamp.LeakyClamp.forward',
                            'LeakyClamp(s, inverted_output=%s).forward == leaky clamp formula with that option' % io,
                            clamp_case('leaky_clamp', True, True, io, S01, module='LeakyClamp')))
        obs.append(clamp_ob('C20/Clamp.forward/post[io=%s]' % io, 'pfhedge.nn.modules.clamp.Clamp.forward',
                            'Clamp(inverted_output=%s).forward == clamp formula with that option' % io,
                            clamp_case('clamp', True, True, io, [], module='Clamp', slope=False)))
    obs.extend(helper_obs(seed))
    obs.extend(ww_obs(seed))
    # canary
    obs.append(clamp_ob('C20/canary/leaky_clamp-with-wrong-inverted-value', '', 'CANARY (must be refuted): inverted bounds give lo',
                        _canary_case()))
    obs[-1].kind = 'canary'
    return {'obligations': obs, 'functions': FUNCTIONS, 'assumptions': ASSUMPTIONS, 'level': 'proof',
            'trusted_base': ['pfv executor + torch contract shim', 'z3 (LRA/NRA + UF)', 'CPython 3.11 running the real functions'],
            'note': 'Every case runs the real function/module from /repo on symbolic scalars/tensors, all paths; value VCs are piecewise-linear/polynomial queries.'}


def _canary_case():
    def build():
        case, spec = clamp_case('leaky_clamp', True, True, 'mean', [tm.le(tm.ZERO, S_), tm.le(S_, tm.ONE)])()
        bad = tm.ite(tm.le(LO, HI), spec, LO)
        case.ensures = lambda res, p: [('value', [], res.at(()), bad)]
        return case, bad
    return build


# ------------------------------------------------------------------ helpers: ww_width, svi, bilerp, box_muller, realized_volatility

def helper_obs(seed):
    import math
    obs = []
    F_ = 'pfhedge.nn.functional.'
    G, SP, C, A = [tm.var(n) for n in ('G', 'S', 'c', 'a')]

    def ww_case():
        import pfhedge.nn.functional as F

        def run(c_):
            return F.ww_width(_t('G'), _t('S'), SReal(C), SReal(A))
        spec = tm.app('cbrt', tm.div(tm.mul(tm.const(3, 'R'), C, G, G, SP), tm.mul(tm.const(2, 'R'), A)))
        return fc.Case(run, hyps=[tm.ge(C, tm.ZERO), tm.gt(A, tm.ZERO), tm.gt(SP, tm.ZERO)],
                       ensures=lambda res, p: [('value', [], res.at(()), spec)], scalars=['G', 'S', 'c', 'a'],
                       real_snippet='import pfhedge.nn.functional as F\nresult={"got": float(F.ww_width(T(W["G"]),T(W["S"]),W["c"],W["a"])), "ref": (3*W["c"]*W["G"]**2*W["S"]/(2*W["a"]))**(1/3)}')
    obs.append(fc.contract_ob('C20/ww_width/post', F_ + 'ww_width', [PROP], ww_case, 'ww_width == (3 c G^2 S / (2 a))^(1/3)'))

    kk, a_, b_, rho, m_, sg = [tm.var(n) for n in ('k', 'a', 'b', 'rho', 'm', 'sg')]

    def svi_spec():
        km = tm.sub(kk, m_)
        return tm.add(a_, tm.mul(b_, tm.add(tm.mul(rho, km), tm.app('sqrt', tm.add(tm.mul(km, km), tm.mul(sg, sg))))))

    def svi_case(module):
        def build():
            import pfhedge.nn.functional as F
            import pfhedge.nn as pnn

            def run(c_):
                if module:
                    return pnn.SVIVariance(a=SReal(a_), b=SReal(b_), rho=SReal(rho), m=SReal(m_), sigma=SReal(sg))(_t('k'))
                return F.svi_variance(_t('k'), SReal(a_), SReal(b_), SReal(rho), SReal(m_), SReal(sg))
            call = ('pfhedge.nn.SVIVariance(a=W["a"],b=W["b"],rho=W["rho"],m=W["m"],sigma=W["sg"])(T(W["k"]))' if module
                    else 'F.svi_variance(T(W["k"]),W["a"],W["b"],W["rho"],W["m"],W["sg"])')
            return fc.Case(run, hyps=[], ensures=lambda res, p: [('value', [], res.at(()), svi_spec())],
                           scalars=['k', 'a', 'b', 'rho', 'm', 'sg'],
                           real_snippet='import pfhedge.nn.functional as F\nimport pfhedge.nn\nkm=W["k"]-W["m"]\nresult={"got": float(%s), "ref": W["a"]+W["b"]*(W["rho"]*km+(km*km+W["sg"]**2)**0.5)}' % call)
        return build
    obs.append(fc.contract_ob('C20/svi_variance/post', F_ + 'svi_variance', [PROP], svi_case(False), 'svi_variance == a + b(rho(k-m) + sqrt((k-m)^2 + sigma^2))'))
    obs.append(fc.contract_ob('C20/SVIVariance.forward/post', 'pfhedge.nn.modules.svi.SVIVariance.forward', [PROP], svi_case(True),
                              'SVIVariance(a,b,rho,m,sigma).forward == the same formula with the module parameters'))

    x1, x2, x3, x4, w1, w2 = [tm.var(n) for n in ('x1', 'x2', 'x3', 'x4', 'w1', 'w2')]

    def bilerp_case(scalar_w):
        def build():
            import pfhedge.nn.functional as F

            def run(c_):
                ws = (SReal(w1), SReal(w2)) if scalar_w else (_t('w1'), _t('w2'))
                return F.bilerp(_t('x1'), _t('x2'), _t('x3'), _t('x4'), *ws)
            one = tm.ONE
            spec = tm.add(tm.mul(tm.sub(one, w1), tm.sub(one, w2), x1), tm.mul(w1, tm.sub(one, w2), x2),
                          tm.mul(tm.sub(one, w1), w2, x3), tm.mul(w1, w2, x4))
            return fc.Case(run, hyps=[], ensures=lambda res, p: [('value', [], res.at(()), spec)],
                           scalars=['x1', 'x2', 'x3', 'x4', 'w1', 'w2'],
                           real_snippet='import pfhedge.nn.functional as F\na,b,c_,d,u,w=[W[k] for k in ("x1","x2","x3","x4","w1","w2")]\n'
                                        'result={"got": float(F.bilerp(T(a),T(b),T(c_),T(d),%s)), "ref": (1-u)*(1-w)*a+u*(1-w)*b+(1-u)*w*c_+u*w*d}' % ('u,w' if scalar_w else 'T(u),T(w)'))
        return build
    obs.append(fc.contract_ob('C20/bilerp/post[tensor weights]', F_ + 'bilerp', [PROP], bilerp_case(False), 'bilerp == documented bilinear formula'))
    obs.append(fc.contract_ob('C20/bilerp/post[scalar weights]', F_ + 'bilerp', [PROP], bilerp_case(True), 'bilerp == documented bilinear formula (float weights)'))

    def bilerp_broadcast():
        import torch
        import pfhedge.nn.functional as F
        from pfv.torchlib.tensor import Tensor
        i_, j_ = tm.var('bi', 'I'), tm.var('bj', 'I')

        hold = {}

        def run(c_):
            # the second pair and the second weight have a LARGER broadcast shape than the first interpolation
            hold['ts'] = (Tensor.input('A1', (3,), torch.float64), Tensor.input('A2', (3,), torch.float64), Tensor.input('A3', (2, 3), torch.float64),
                          Tensor.input('A4', (2, 3), torch.float64), Tensor.input('U1', (), torch.float64), Tensor.input('U2', (2, 1), torch.float64))
            return F.bilerp(*hold['ts'])

        def ens(res, p):
            one = tm.ONE
            A1, A2, A3, A4, U1, U2 = hold['ts']
            a1, a2, a3, a4 = A1.at((j_,)), A2.at((j_,)), A3.at((i_, j_)), A4.at((i_, j_))
            u, w = U1.at(()), U2.at((i_, tm.IZERO))
            spec = tm.add(tm.mul(tm.sub(one, u), tm.sub(one, w), a1), tm.mul(u, tm.sub(one, w), a2), tm.mul(tm.sub(one, u), w, a3), tm.mul(u, w, a4))
            return [('value[i,j]', [tm.le(tm.IZERO, i_), tm.lt(i_, tm.const(2, 'I')), tm.le(tm.IZERO, j_), tm.lt(j_, tm.const(3, 'I'))], res.at((i_, j_)), spec)]
        cs = fc.Case(run, hyps=[], ensures=ens, shape=lambda res: (2, 3),
                     real_snippet='import pfhedge.nn.functional as F\ntorch.manual_seed(0)\na1,a2=torch.randn(3,dtype=torch.float64),torch.randn(3,dtype=torch.float64)\n'
                                  'a3,a4=torch.randn(2,3,dtype=torch.float64),torch.randn(2,3,dtype=torch.float64)\nu,w=torch.tensor(0.3,dtype=torch.float64),torch.rand(2,1,dtype=torch.float64)\n'
                                  'result={"got": F.bilerp(a1,a2,a3,a4,u,w).reshape(-1).tolist(), "ref": ((1-u)*(1-w)*a1+u*(1-w)*a2+(1-u)*w*a3+u*w*a4).reshape(-1).tolist()}')
        cs.battery = True
        return cs
    obs.append(fc.contract_ob('C20/bilerp/post[broadcast operands]', F_ + 'bilerp', [PROP], bilerp_broadcast,
                              'bilerp broadcasts: first pair (3,), second pair (2,3), weights () and (2,1) -> (2,3), element-wise the bilinear formula'))

    u1, u2, eps = tm.var('u1'), tm.var('u2'), tm.var('eps')

    def bm_case():
        import pfhedge.nn.functional as F

        def run(c_):
            return F.box_muller(_t('u1'), _t('u2'), epsilon=SReal(eps))
        radius = tm.app('sqrt', tm.mul(tm.const(-2, 'R'), tm.app('log', tm.tmax(u1, eps))))
        angle = tm.mul(tm.const(2, 'R'), tm.const(math.pi), u2)

        def ens(res, p):
            z0, z1 = res
            return [('output1', [], z0.at(()), tm.mul(radius, tm.app('cos', angle))),
                    ('output2', [], z1.at(()), tm.mul(radius, tm.app('sin', angle)))]
        return fc.Case(run, hyps=[tm.gt(eps, tm.ZERO), tm.lt(eps, tm.ONE), tm.ge(u1, tm.ZERO), tm.le(u1, tm.ONE), tm.ge(u2, tm.ZERO), tm.le(u2, tm.ONE)],
                       ensures=ens, scalars=['u1', 'u2', 'eps'],
                       real_snippet='import pfhedge.nn.functional as F\nimport math\nz0,z1=F.box_muller(T(W["u1"]),T(W["u2"]),epsilon=W["eps"])\n'
                                    'r=math.sqrt(-2*math.log(max(W["u1"],W["eps"])))\nresult={"got":[float(z0),float(z1)],"ref":[r*math.cos(2*math.pi*W["u2"]), r*math.sin(2*math.pi*W["u2"])]}')
    obs.append(fc.contract_ob('C20/box_muller/post', F_ + 'box_muller', [PROP], bm_case, 'box_muller == (sqrt(-2 log max(u1,eps)) cos 2 pi u2, ... sin 2 pi u2)'))

    def rv_case():
        import torch
        import pfhedge.nn.functional as F
        from pfv.torchlib.tensor import Tensor
        N, Tn = tm.var('N', 'I'), tm.var('T', 'I')
        dt = tm.var('dt')

        def run(c_):
            xs = Tensor.input('X', (N, Tn), torch.float64)
            c_.assume(_all_pos('X', (N, Tn)))
            return F.realized_volatility(xs, dt=SReal(dt))

        def ens(res, p):
            n = p.ctx.fresh('n', 'I')
            k = p.ctx.fresh('k', 'I')
            lr = tm.sub(tm.app('log', tm.sel('X', n, tm.add(k, tm.IONE))), tm.app('log', tm.sel('X', n, k)))
            var = tm.div(tm.div(tm.toreal(tm.tsum(k, tm.IZERO, tm.sub(Tn, tm.IONE), tm.mul(lr, lr))), tm.toreal(tm.sub(Tn, tm.IONE))), dt)
            return [('value', [tm.le(tm.IZERO, n), tm.lt(n, N)], res.at((n,)), tm.app('sqrt', var))]
        return fc.Case(run, hyps=[tm.ge(N, tm.IONE), tm.ge(Tn, tm.const(2, 'I')), tm.gt(dt, tm.ZERO)], ensures=ens,
                       shape=lambda res: (N,), scalars=['dt'], tensors={'X': ((N, Tn), 'R')},
                       real_snippet='import pfhedge.nn.functional as F\nimport math\nX=T(W["X"])\ngot=F.realized_volatility(X, dt=W["dt"])\n'
                                    'ref=[math.sqrt(sum((math.log(r[i+1])-math.log(r[i]))**2 for i in range(len(r)-1))/(len(r)-1)/W["dt"]) for r in W["X"]]\nresult={"got": got, "ref": ref}')
    obs.append(fc.contract_ob('C20/realized_volatility/post', F_ + 'realized_volatility', [PROP], rv_case,
                              'realized_volatility == sqrt( (1/(T-1)) sum_t (log x[t+1] - log x[t])^2 / dt ) for every path, all N, T >= 2'))
    return obs


def _all_pos(name, shape):
    i, j = tm.fresh('pi', 'I'), tm.fresh('pj', 'I')
    return tm.forall(i, tm.IZERO, shape[0], tm.forall(j, tm.IZERO, shape[1], tm.gt(tm.sel(name, i, j), tm.ZERO)))


# ------------------------------------------------------------------ Whalley-Wilmott

def ww_obs(seed):
    obs = []
    xx, tt, vv, pv, cc, aa = [tm.var(n) for n in ('x', 't', 'v', 'prev', 'c', 'a')]
    base = [tm.gt(tt, tm.ZERO), tm.gt(vv, tm.ZERO), tm.gt(K, tm.ZERO), tm.ge(cc, tm.ZERO), tm.gt(aa, tm.ZERO)]

    def mk(call, extra_hyps, tag, lemma_zero_cost=False):
        def build():
            import torch
            import pfhedge.nn.functional as F
            import pfhedge.nn as pnn
            from pfhedge.instruments import BrownianStock, EuropeanOption
            from pfv.torchlib.tensor import Tensor, stack
            from contracts import c08
            hy = base + extra_hyps

            def run(c_):
                d = EuropeanOption(BrownianStock(cost=SReal(cc)), call=call, strike=SReal(K))
                ww = pnn.WhalleyWilmott(d, a=SReal(aa))
                assert ww.inputs() == ['log_moneyness', 'time_to_maturity', 'volatility', 'prev_hedge'], ww.inputs()
                inp = stack([_t('x'), _t('t'), _t('v'), _t('prev')], dim=0).unsqueeze(0)     # shape (1, 4)
                return ww(inp)
            # spec from the property: band around the BS delta with half-width (3 c G^2 S / 2a)^(1/3)
            from pfv import bslib as B
            delta = B.bs_term('bs_european_delta', B.OPEN, strike=False, call=call)[0]
            gamma = B.bs_term('bs_european_gamma', B.OPEN, strike=True)[0]
            spot = tm.mul(K, tm.app('exp', xx))
            width = tm.app('cbrt', tm.div(tm.mul(tm.const(3, 'R'), cc, gamma, gamma, spot), tm.mul(tm.const(2, 'R'), aa)))
            lo, hi = tm.sub(delta, width), tm.add(delta, width)
            spec = tm.ite(tm.lt(pv, lo), lo, tm.ite(tm.gt(pv, hi), hi, pv))
            if lemma_zero_cost:
                spec = delta
            return fc.Case(run, hyps=hy, ensures=lambda res, p: [('value', [], res.at((tm.IZERO, tm.IZERO)), spec)],
                           shape=lambda res: (1, 1), scalars=['x', 't', 'v', 'prev', 'c', 'a', 'K'], max_paths=16,
                           real_snippet=('import pfhedge.nn\nfrom pfhedge.instruments import BrownianStock, EuropeanOption\nimport pfhedge.nn.functional as F\n'
                                         'd=EuropeanOption(BrownianStock(cost=W["c"]), call=%r, strike=W["K"])\nww=pfhedge.nn.WhalleyWilmott(d, a=W["a"])\n'
                                         'inp=T([[W["x"],W["t"],W["v"],W["prev"]]])\ngot=float(ww(inp))\n'
                                         'x,t,v=T(W["x"]),T(W["t"]),T(W["v"])\ndl=float(F.bs_european_delta(x,t,v,call=%r)); g=float(F.bs_european_gamma(x,t,v,strike=W["K"]))\n'
                                         'import math\nw=(3*W["c"]*g*g*W["K"]*math.exp(W["x"])/(2*W["a"]))**(1/3)\nref=min(max(W["prev"],dl-w),dl+w)\nresult={"got":got,"ref":ref}') % (call, call))
        return build
    for call in (True, False):
        tag = 'call' if call else 'put'
        obs.append(fc.contract_ob('C20/WhalleyWilmott.forward/post[%s]' % tag, 'pfhedge.nn.modules.ww.WhalleyWilmott.forward', [PROP], mk(call, [], tag),
                                  'WhalleyWilmott keeps prev inside [delta-w, delta+w], else moves to the nearest edge; w = (3 c Gamma^2 S/(2a))^(1/3) [%s]' % tag))
    obs.append(fc.contract_ob('C20/WhalleyWilmott.forward/lemma[zero cost => delta]', 'pfhedge.nn.modules.ww.WhalleyWilmott.forward', [PROP],
                              mk(True, [tm.eq(cc, tm.ZERO)], 'c=0', lemma_zero_cost=True),
                              'with zero cost the Whalley-Wilmott hedge coincides with the Black-Scholes delta', kind='lemma'))
    return obs
