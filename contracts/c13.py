"""C13 - the time grid matches maturity and step size."""
from contracts import instruments as ins
from contracts import hedging

PROP = 'C13'


def build(tier, seed):
    from pfv.torchlib import import_pfhedge
    import_pfhedge()
    obs = [ins.simulate_wiring_ob(c) for c in ins.PRIMARIES] + [ins.derivative_simulate_ob(), ins.ttm_ob()] + [ins.fp_steps_ob(c, tier) for c in ins.PRIMARIES]
    obs += [o for o in hedging.feature_obligations(seed) + hedging.hedger_obligations(seed, tier) if PROP in o.props and 'history' not in o.id]
    obs += [o for o in hedging.feature_obligations(seed) if 'time_to_maturity' in o.id and 'history' in o.id]
    return {'obligations': obs, 'functions': ins.FUNCTIONS + hedging.FEATURE_FUNCTIONS[:6],
            'assumptions': [
                'real-arithmetic obligations: n_steps = ceil(horizon/dt)+1 over the reals; the rounding clause of the property is decided separately and bit-precisely (z3 QF_FP, IEEE double) for maturity = fl(k*dt), k in [1,4000], dt in (1e-4, 1]',
                'the generators return series of shape (n_paths, n_steps) (their own contracts, C11); here they are stubbed by that contract',
                'A3 torch contracts (arange, expand, tensor([[.]]), .to)',
                'payoffs/features/hedges use the same grid: every shape in the C02/C03/C12 obligations is derived from underlier.spot.size()',
            ],
            'level': 'proof', 'trusted_base': ['pfv executor + torch shim', 'z3 LIA/LRA and QF_FP'],
            'note': 'simulate() of the 8 primaries run from /repo with the generator stubbed by its contract; time_to_maturity with a symbolic (possibly negative) step; bit-precise query for the float clause.'}
