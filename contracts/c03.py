"""C03 - batched and step-wise evaluation agree; prev_hedge is the last output."""
from contracts import hedging

PROP = 'C03'


def build(tier, seed):
    from pfv.torchlib import import_pfhedge
    import_pfhedge()
    obs = [o for o in hedging.feature_obligations(seed) if PROP in o.props] + hedging.c03_obligations(seed, tier)
    return {'obligations': obs, 'functions': hedging.FEATURE_FUNCTIONS + hedging.HEDGER_FUNCTIONS,
            'assumptions': [
                'A1 reals for floats: t[-1]-t[i] and (T-1-i)*dt are equal over the reals (they differ in the last ulp in floats)',
                'A3 torch contracts (indexing, cummax vs max over a prefix as the same big operator, cat, Module.__call__ hook order, register_buffer)',
                'per-feature identities hold for every step i and every T, N (symbolic); hedger-level statements use an uninterpreted point-wise model and symbolic N; for EVERY T (H in {1,2}) by cutting the step loop of compute_hedge: invariant prev_output == the last output (zeros (N,1,H) before step 0) gives the prev_hedge flow, invariant outputs[k] == column k of the all-at-once hedge gives batched == stepwise (VCs with running-max binders under a quantifier are decided by explicit instantiation, fc.prove_inst); the enumerated runs (H,T) in {(1,2),(1,3),(2,3)} / {(1,3),(2,3),(3,2)} (more in the thorough tier) are kept as a second route and for the aliasing model',
                'Empty is excluded from value equality (uninitialised by contract)',
            ],
            'level': 'proof', 'trusted_base': ['pfv executor + torch shim', 'z3 LIA/LRA/UF with max/min axioms'],
            'note': 'get(i) vs get(None)[:, i] as element identities with a symbolic step; the recurrent prev_hedge flow observed through a recording uninterpreted model.'}
