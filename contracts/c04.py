"""C04 - risk measures obey the convex-risk-measure axioms.

Two layers, glued by Lean itself:

 layer 1 (pfv + z3, on the real code, every run)   code(x) == spec term(x)  for every sample size N and sample x
          - the C05 postconditions of entropic_risk_measure / EntropicRiskMeasure, expected_shortfall /
            ExpectedShortfall, EntropicLoss, IsoelasticLoss, and of quadratic_cvar around its bisect call
 glue    (Lean, generated on every run)             spec term == PfRisk.<def> applied to the sample
          - the Lean text of the right-hand side is PRINTED from the contract term (pfv/leanio.to_lean), never transcribed
 layer 2 (Lean 4 + Mathlib, /verif/lean/*.lean)     PfRisk.<def> satisfies the axioms, for every N and every real sample
          - `#print axioms` of every theorem must list only propext / Classical.choice / Quot.sound

A refuted layer-1 obligation does not by itself violate C04 (another formula may also be a convex risk measure):
it is a ROUTE obligation here.  The check then searches an axiom instance that fails on the REAL code
(bounded search, float64) and reports a violation only with that replayed instance; otherwise UNDECIDED.
A bounded float battery (labelled bounded) exercises the axioms on real torch in float32/float64 with ties,
constants, N = 1, trailing shapes, columns on very different levels and magnitudes 1e-6 .. 1e6.
"""
import os
import time

from pfv import terms as tm
from pfv import leanio
from pfv.framework import Obligation, Verdict, real_exec
from contracts import risk as R

PROP = 'C04'
LEAN_DIR = os.path.join(os.path.dirname(os.path.dirname(os.path.abspath(__file__))), 'lean')

# ------------------------------------------------------------------ axiom search / battery on the real code

AXIOMS_REAL = r'''
import math, itertools
import pfhedge.nn as pnn
import pfhedge.nn.functional as F
fams = W.get("families") or ["entropic", "es", "eloss", "iso", "qcvar"]
dtypes = [getattr(torch, d) for d in (W.get("dtypes") or ["float64"])]
mode = W.get("mode", "battery")
g = torch.Generator().manual_seed(int(W.get("seed", 0)))
bad = []
def note(fam, ax, detail, **kw):
    if len(bad) < 12:
        bad.append({"family": fam, "axiom": ax, "detail": detail, **{k: (v.tolist() if hasattr(v, "tolist") else v) for k, v in kw.items()}})
def tol_of(dtype, *ts):
    scale = max([1.0] + [float(t.abs().max()) for t in ts if t.numel()])
    return (2e-4 if dtype == torch.float32 else 1e-9) * scale
def samples(dtype, positive=False, scales=(1.0,)):
    out = []
    for N in (1, 2, 5, 40):
        for trail in ((), (3,), (2, 2)):
            shape = (N,) + trail
            for sc in scales:
                base = torch.randn(shape, generator=g, dtype=torch.float64)
                ties = torch.randint(-1, 2, shape, generator=g).to(torch.float64)
                const = torch.full(shape, 0.7, dtype=torch.float64)
                heavy = torch.randn(shape, generator=g, dtype=torch.float64) / (torch.randn(shape, generator=g, dtype=torch.float64).abs() + 0.05)
                for kind, x in (("normal", base), ("ties", ties), ("constant", const), ("heavy", heavy)):
                    x = x * sc
                    if positive:
                        x = x.abs() + 0.1 * sc
                    out.append((kind + "/N=%d/trail=%s/scale=%g" % (N, trail, sc), x.to(dtype)))
    return out
def levels(dtype):
    # columns on very different levels (a stabilising shift must be taken per column)
    x = torch.randn((6, 4), generator=g, dtype=torch.float64)
    x = x + torch.tensor([0.0, -2000.0, 1500.0, 1e6], dtype=torch.float64)
    return [("levels/N=6/trail=(4,)", x.to(dtype))]
def partner(x):
    d = torch.rand(x.shape, generator=g, dtype=torch.float64).to(x.dtype)
    mask = (torch.rand(x.shape, generator=g) < 0.5).to(x.dtype)
    return x + d * mask * max(1.0, float(x.abs().max())) * 0.5          # pointwise >= x, equal on about half the entries
def other(x):
    return (x.flip(0) * 0.5 + torch.randn(x.shape, generator=g, dtype=torch.float64).to(x.dtype) * float(x.abs().max() + 1e-12) * 0.3)
def check_risk(fam, name, rho, x, dtype, hom=False, shift=0.0):
    """monotone, cash-invariant, convex, bounds; optionally positively homogeneous.  rho reduces dim 0."""
    y = partner(x)
    r_x, r_y = rho(x), rho(y)
    tol = tol_of(dtype, x, y)
    if not torch.isfinite(r_x).all():
        note(fam, "finite", "%s: non-finite risk %s" % (name, r_x.flatten()[:4].tolist()), x=x); return
    if (r_y > r_x + tol).any():
        note(fam, "monotone", "%s: y >= x pointwise but risk(y) - risk(x) = %g" % (name, float((r_y - r_x).max())), x=x, y=y)
    for c in (0.37, -2.5):
        cc = c * max(1.0, float(x.abs().max()))
        r_c = rho(x + cc)
        if ((r_c - (r_x - cc)).abs() > tol_of(dtype, x, x + cc) * 4).any():
            note(fam, "cash-invariant", "%s: risk(x + %g) - (risk(x) - %g) = %g" % (name, cc, cc, float((r_c - (r_x - cc)).abs().max())), x=x, c=cc)
    z = other(x)
    r_z = rho(z)
    for t in (0.3, 0.5):
        lhs = rho(t * x + (1 - t) * z)
        if torch.isfinite(r_z).all() and (lhs > t * r_x + (1 - t) * r_z + tol_of(dtype, x, z) * 4).any():
            note(fam, "convex", "%s: risk(t x + (1-t) z) exceeds the mix by %g (t=%g)" % (name, float((lhs - t * r_x - (1 - t) * r_z).max()), t), x=x, z=z, t=t)
    lo, hi, mean = x.min(0).values, x.max(0).values, x.to(torch.float64).mean(0).to(x.dtype)
    if (r_x > -lo - shift + tol).any() or (r_x < -hi - shift - tol).any():
        note(fam, "bounds", "%s: risk outside [-max, -min]%s: risk=%s, -max=%s, -min=%s" % (name, " - 1/(4 lam)" if shift else "", r_x.flatten()[:3].tolist(), (-hi).flatten()[:3].tolist(), (-lo).flatten()[:3].tolist()), x=x)
    if not shift and (r_x < -mean - tol).any():
        note(fam, "at-least-minus-mean", "%s: risk below minus the mean by %g" % (name, float((-mean - r_x).max())), x=x)
    if hom:
        for c in (0.0, 2.5):
            if ((rho(c * x) - c * r_x).abs() > tol_of(dtype, x, c * x) * 4).any():
                note(fam, "positively-homogeneous", "%s: risk(%g x) != %g risk(x)" % (name, c, c), x=x, c=c)
for dtype in dtypes:
    if "entropic" in fams:
        for a in (0.5, 1.0, 3.0):
            for (nm, x) in samples(dtype, scales=(1e-6, 1.0, 1e3, 1e6)) + levels(dtype):
                check_risk("entropic", "EntropicRiskMeasure(a=%g) %s %s" % (a, nm, dtype), lambda v: pnn.EntropicRiskMeasure(a)(v), x, dtype)
                check_risk("entropic", "entropic_risk_measure(a=%g) %s %s" % (a, nm, dtype), lambda v: F.entropic_risk_measure(v, a=a), x, dtype)
        for (nm, x) in samples(dtype):
            r1, r2 = F.entropic_risk_measure(x, a=0.5), F.entropic_risk_measure(x, a=2.0)
            if (r1 > r2 + tol_of(dtype, x)).any():
                note("entropic", "non-decreasing in a", "entropic risk a=0.5 exceeds a=2 by %g %s" % (float((r1 - r2).max()), nm), x=x)
    if "es" in fams:
        for p in (0.05, 0.3, 0.5, 1.0):
            for (nm, x) in samples(dtype, scales=(1e-6, 1.0, 1e6)) + levels(dtype):
                check_risk("es", "ExpectedShortfall(p=%g) %s %s" % (p, nm, dtype), lambda v: pnn.ExpectedShortfall(p)(v), x, dtype, hom=True)
                check_risk("es", "expected_shortfall(p=%g, dim=0) %s %s" % (p, nm, dtype), lambda v: F.expected_shortfall(v, p, dim=0), x, dtype, hom=True)
        for (nm, x) in samples(dtype):
            ps = (0.05, 0.2, 0.21, 0.5, 0.77, 1.0)
            rs = [F.expected_shortfall(x, p, dim=0) for p in ps]
            for i in range(len(ps) - 1):
                if (rs[i + 1] > rs[i] + tol_of(dtype, x)).any():
                    note("es", "non-increasing in p", "ES(p=%g) exceeds ES(p=%g) by %g %s" % (ps[i + 1], ps[i], float((rs[i + 1] - rs[i]).max()), nm), x=x)
    def check_loss(fam, name, loss, x):
        y = partner(x)
        l_x, l_y = loss(x), loss(y)
        tol = tol_of(x.dtype, l_x, l_y)
        if (l_y > l_x + tol).any():
            note(fam, "monotone", "%s: y >= x pointwise but loss(y) - loss(x) = %g" % (name, float((l_y - l_x).max())), x=x, y=y)
        z = (x.flip(0) * 0.5 + x.mean() * 0.5) if fam == "iso" else other(x)
        l_z = loss(z)
        for t in (0.3, 0.5):
            lhs = loss(t * x + (1 - t) * z)
            if torch.isfinite(l_z).all() and (lhs > t * l_x + (1 - t) * l_z + tol_of(x.dtype, l_x, l_z) * 4).any():
                note(fam, "convex", "%s: loss of the mix exceeds the mix of losses by %g" % (name, float((lhs - t * l_x - (1 - t) * l_z).max())), x=x, z=z, t=t)
    if "eloss" in fams:
        for a in (0.5, 2.0):
            for (nm, x) in samples(dtype, scales=(1e-6, 1.0, 10.0)):
                check_loss("eloss", "EntropicLoss(a=%g) %s %s" % (a, nm, dtype), lambda v: pnn.EntropicLoss(a)(v), x)
    if "iso" in fams:
        for a in (0.5, 1.0):
            for (nm, x) in samples(dtype, positive=True, scales=(1e-6, 1.0, 1e6)):
                check_loss("iso", "IsoelasticLoss(a=%g) %s %s" % (a, nm, dtype), lambda v: pnn.IsoelasticLoss(a)(v), x)
    if "qcvar" in fams and dtype == torch.float64:
        skipped = 0
        for lam in (1.0, 10.0):
            for (nm, x) in samples(dtype, scales=(1.0, 1e3)):
                xs = [x, partner(x), other(x)]
                def inside(v):      # the precondition of the inner bisect call (known finding D7 outside it)
                    return bool(((v.max(0).values - v.mean(0)) >= 0.5 / lam * 1.001).all())
                mixes = [0.3 * xs[0] + 0.7 * xs[2], 0.5 * xs[0] + 0.5 * xs[2], xs[0] + 0.37 * max(1.0, float(x.abs().max())), xs[0] - 2.5 * max(1.0, float(x.abs().max()))]
                if not all(inside(v) for v in xs + mixes):
                    skipped += 1; continue
                qtol = 1e-4 * max(1.0, float(x.abs().max()))
                def rho(v):
                    return pnn.QuadraticCVaR(lam)(v)
                y = xs[1]
                r_x, r_y = rho(x), rho(y)
                if (r_y > r_x + qtol).any():
                    note("qcvar", "monotone", "QuadraticCVaR(lam=%g) %s: risk(y) - risk(x) = %g" % (lam, nm, float((r_y - r_x).max())), x=x, y=y)
                cc = 0.37 * max(1.0, float(x.abs().max()))
                if ((rho(x + cc) - (r_x - cc)).abs() > qtol).any():
                    note("qcvar", "cash-invariant", "QuadraticCVaR(lam=%g) %s: |risk(x+c) - risk(x) + c| = %g" % (lam, nm, float((rho(x + cc) - (r_x - cc)).abs().max())), x=x, c=cc)
                z = xs[2]
                for t in (0.3, 0.5):
                    lhs = rho(t * x + (1 - t) * z)
                    if (lhs > t * r_x + (1 - t) * rho(z) + qtol).any():
                        note("qcvar", "convex", "QuadraticCVaR(lam=%g) %s: mix exceeds by %g" % (lam, nm, float((lhs - t * r_x - (1 - t) * rho(z)).max())), x=x, z=z, t=t)
                lo, hi = x.min(0).values, x.max(0).values
                if (r_x > -lo - 0.25 / lam + qtol).any() or (r_x < -hi - 0.25 / lam - qtol).any():
                    note("qcvar", "bounds", "QuadraticCVaR(lam=%g) %s: risk outside [-max, -min] - 1/(4 lam)" % (lam, nm), x=x)
result = {"got": bad, "ref": []}
'''


def _axiom_search(families, dtypes=('float64',), seed=0, timeout=1500):
    r = real_exec(AXIOMS_REAL, {'families': list(families), 'dtypes': list(dtypes), 'seed': seed}, timeout=timeout)
    return r


FAMILY_OF = {'entropic_risk_measure': 'entropic', 'expected_shortfall': 'es', 'EntropicLoss': 'eloss', 'exp_utility': 'eloss', 'IsoelasticLoss': 'iso', 'quadratic_cvar': 'qcvar'}


def _family(ob_id):
    for k, v in FAMILY_OF.items():
        if k in ob_id:
            return v
    return None


def route(ob):
    """wrap a layer-1 (code == spec) obligation as a route obligation of C04"""
    inner = ob.check

    def check():
        t0 = time.time()
        v = inner()
        if v.status != 'refuted':
            return v
        fam = _family(ob.id)
        if fam is None:
            return Verdict('unknown', v.backend, time.time() - t0, 'layer 1 refuted (%s); no axiom search for this function' % v.detail[:200], sample=v.sample)
        r = _axiom_search([fam])
        got = (r.get('result') or {}).get('got') if r.get('ok') else None
        if got:
            first = got[0]
            return Verdict('refuted', 'layer 1: %s; axiom instance found on the real code (bounded search)' % v.backend, time.time() - t0,
                           'the code no longer equals its spec function (%s) AND violates the axiom "%s": %s' % (v.detail[:160], first['axiom'], first['detail'][:300]),
                           witness={'axiom': first['axiom'], 'instance': first, 'layer1': v.witness}, sample=v.sample, replay={'real': r, 'confirmed': True})
        if not r.get('ok'):
            return Verdict('refuted', v.backend, time.time() - t0, 'the code no longer equals its spec function (%s) and the real code raises on the axiom battery: %s' % (v.detail[:160], str(r)[:300]),
                           witness={'layer1': v.witness}, sample=v.sample, replay={'real': r, 'confirmed': True})
        return Verdict('unknown', v.backend, time.time() - t0,
                       'the code no longer equals its spec function (%s) but no axiom instance fails on the real code in the bounded search: the axioms are not decided for the new formula' % v.detail[:300],
                       sample=v.sample)
    o = Obligation(ob.id, ob.kind, ob.function, check, [PROP], deciding=getattr(ob, 'deciding', True), clause='[layer 1, code == spec function] ' + (ob.clause or ''))
    return o


def layer1_obs():
    obs = []
    for ob in R.entropic_obs() + R.es_obs():
        obs.append(route(ob))
    for ob in R.utility_obs():
        if ob.id in ('RK/exp_utility/post', 'RK/EntropicLoss.forward/post', 'RK/IsoelasticLoss.forward/post[a=0.5]', 'RK/IsoelasticLoss.forward/post[a=1]'):
            obs.append(route(ob))
    for ob in R.qcvar_obs():
        if ob.id == 'RK/quadratic_cvar/pre@callsite[bisect]':
            ob.props = [PROP]
            ob.clause = '[layer 1] ' + (ob.clause or '') + ' (otherwise the returned value is not the minimum of G: the -1/(4 lam) bounds fail)'
            obs.append(ob)
        else:
            obs.append(route(ob))
    return obs


# ------------------------------------------------------------------ glue: printed contract terms == Lean definitions

class _Fresh:
    def __init__(self):
        self.k = 0

    def fresh(self, prefix, sort='R'):
        self.k += 1
        return tm.var('%s%d' % (prefix, self.k), sort)


def glue_specs():
    """(lean file, glue theorem text).  The sample is X - Z (module form: input - target); Z = 0 is the functional form."""
    c = _Fresh()
    fn = {'X': 'X'}
    Z = tm.var('Z')
    xf = lambda n: tm.sub(R.X1(n), Z)
    k = tm.var('k', 'I')
    out = []
    out.append(('RiskRho', leanio.glue_theorem('rho_glue', '(a Z : ℝ) (N : ℕ) (X : ℕ → ℝ)', 'PfRisk.rho a N (fun n => X n - Z)', R.rho_spec(xf, c), ['PfRisk.rho'], fn)))
    n = c.fresh('n', 'I')
    mean_exp = tm.div(tm.tsum(n, tm.IZERO, R.N, tm.app('exp', tm.neg(tm.mul(R.A, xf(n))))), tm.toreal(R.N))
    out.append(('RiskRho', leanio.glue_theorem('eloss_glue', '(a Z : ℝ) (N : ℕ) (X : ℕ → ℝ)', '(∑ n ∈ range N, Real.exp (-(a * (X n - Z)))) / (N : ℝ)', mean_exp, ['neg_neg'], fn)))
    n2 = c.fresh('n', 'I')
    iso = tm.neg(tm.div(tm.tsum(n2, tm.IZERO, R.N, tm.powt(R.X1(n2), tm.const(0.5))), tm.toreal(R.N)))
    out.append(('RiskRho', leanio.glue_theorem('iso_half_glue', '(N : ℕ) (X : ℕ → ℝ)', 'PfRisk.uloss (fun x : ℝ => x ^ ((1 : ℝ) - (1 / 2 : ℝ))) N X', iso, ['PfRisk.uloss', 'Real.sqrt_eq_rpow'], fn)))
    n3 = c.fresh('n', 'I')
    lg = tm.neg(tm.div(tm.tsum(n3, tm.IZERO, R.N, tm.app('log', R.X1(n3))), tm.toreal(R.N)))
    out.append(('RiskRho', leanio.glue_theorem('log_glue', '(N : ℕ) (X : ℕ → ℝ)', 'PfRisk.uloss Real.log N X', lg, ['PfRisk.uloss'], fn)))
    out.append(('RiskES', leanio.glue_theorem('es_glue', '(Z : ℝ) (k N : ℕ) (X : ℕ → ℝ)', 'PfRisk.es k N (fun n => X n - Z)', R.es_spec(xf, c, k), ['PfRisk.es'], fn)))
    lvl = tm.ceil(tm.mul(R.P, tm.toreal(R.N)))
    out.append(('RiskES', 'theorem level_glue (p : ℝ) (N : ℕ) : ⌈p * (N : ℝ)⌉₊ = %s := by\n  first\n  | rfl\n  | (congr! 1 <;> ring1)\n' % leanio.to_lean(lvl, fn)))
    out.append(('RiskQ', leanio.glue_theorem('qobj_glue', '(lam w : ℝ) (N : ℕ) (X : ℕ → ℝ)', 'PfRisk.qobj lam N X w', R.qobj_term(tm.var('w'), R.X1), ['PfRisk.qobj'], fn)))
    return out


# clause of the property -> (layer-1 obligations, glue, Lean theorems).  Every named theorem becomes an obligation.
CLAUSES = [
    ('entropic risk: monotone', ['RK/entropic_risk_measure/post[*]'], 'rho_glue', 'RiskRho', ['rho_mono']),
    ('entropic risk: cash-invariant', ['RK/entropic_risk_measure/post[*]'], 'rho_glue', 'RiskRho', ['rho_cash']),
    ('entropic risk: convex under mixing', ['RK/entropic_risk_measure/post[*]'], 'rho_glue', 'RiskRho', ['rho_convex']),
    ('entropic risk: non-decreasing in risk aversion', ['RK/entropic_risk_measure/post[*]'], 'rho_glue', 'RiskRho', ['rho_mono_a']),
    ('entropic risk: between -max and -min, at least -mean', ['RK/entropic_risk_measure/post[*]'], 'rho_glue', 'RiskRho', ['rho_le_neg_min', 'neg_max_le_rho', 'neg_mean_le_rho', 'rho_const']),
    ('expected shortfall: the order statistic of the contract is the sorted rearrangement', ['RK/expected_shortfall/post[*]'], 'es_glue', 'RiskES', ['ostat_monotone', 'ostat_rearrangement', 'sumk_le_sum', 'exists_sum_eq_sumk']),
    ('expected shortfall: monotone', ['RK/expected_shortfall/post[*]'], 'es_glue', 'RiskES', ['es_mono']),
    ('expected shortfall: cash-invariant', ['RK/expected_shortfall/post[*]'], 'es_glue', 'RiskES', ['es_cash']),
    ('expected shortfall: convex under mixing', ['RK/expected_shortfall/post[*]'], 'es_glue', 'RiskES', ['es_convex']),
    ('expected shortfall: positively homogeneous', ['RK/expected_shortfall/post[*]'], 'es_glue', 'RiskES', ['es_pos_hom']),
    ('expected shortfall: non-increasing in the quantile level', ['RK/expected_shortfall/post[*]'], 'level_glue', 'RiskES', ['es_anti_k', 'ceil_level_mono', 'ceil_level_range']),
    ('expected shortfall: between -max and -min, at least -mean', ['RK/expected_shortfall/post[*]'], 'es_glue', 'RiskES', ['es_le_neg_min', 'neg_max_le_es', 'neg_mean_le_es']),
    ('expected-utility losses: monotone and convex for a non-decreasing concave utility', [], None, 'RiskRho', ['uloss_mono', 'uloss_convex']),
    ('entropic loss: exponential utility is non-decreasing and concave', ['RK/exp_utility/post', 'RK/EntropicLoss.forward/post'], 'eloss_glue', 'RiskRho', ['exp_utility_ok', 'eloss_eq']),
    ('isoelastic loss: power / log utility is non-decreasing and concave', ['RK/IsoelasticLoss.forward/post[a=0.5]', 'RK/IsoelasticLoss.forward/post[a=1]'], 'iso_half_glue', 'RiskRho', ['isoelastic_utility_ok', 'log_utility_ok']),
    ('quadratic CVaR objective G: monotone, cash-covariant, jointly convex, bounded below', ['RK/quadratic_cvar/stationarity+value'], 'qobj_glue', 'RiskQ', ['qobj_mono', 'qobj_cash', 'qobj_convex', 'qobj_lower', 'qobj_bddBelow']),
    ('quadratic CVaR Q = min_w G: monotone, cash-invariant, convex, bounds lowered by 1/(4 lam)', ['RK/quadratic_cvar/stationarity+value', 'RK/quadratic_cvar/pre@callsite[bisect]'], 'qobj_glue', 'RiskQ', ['qcvar_mono', 'qcvar_cash', 'qcvar_convex', 'qcvar_bounds']),
]
EXTRA_GLUE = {'RiskRho': ['log_glue']}


def lean_obs():
    """start the three Lean jobs now (before the pool forks); one obligation per theorem and per glue theorem"""
    glue = {}
    try:
        for (f, text) in glue_specs():
            glue.setdefault(f, []).append(text)
        glue_err = None
    except leanio.NotPrintable as e:
        glue_err = str(e)
    jobs = {}
    for f in ('RiskRho', 'RiskES', 'RiskQ'):
        jobs[f] = leanio.LeanJob(os.path.join(LEAN_DIR, f + '.lean'), '\n'.join(glue.get(f, [])))
    obs = []
    claimed = set()
    for (clause, l1, gl, f, thms) in CLAUSES:
        for th in thms:
            if (f, th) in claimed:
                continue
            claimed.add((f, th))

            def check(f=f, th=th):
                t0 = time.time()
                job = jobs[f]
                if job.forbidden:
                    return Verdict('unknown', 'scan', time.time() - t0, '%s.lean contains %s outside comments' % (f, job.forbidden))
                st, detail = job.status('PfRisk.' + th)
                r = job.result()
                return Verdict(st, 'lean 4.33 + Mathlib (kernel-checked; #print axioms)', r['wall'] if st == 'proved' else time.time() - t0, detail,
                               sample={'claim': clause, 'file': 'lean/%s.lean' % f, 'theorem': th})
            obs.append(Obligation('C04/lean/%s.%s' % (f, th), 'lemma', 'lean/%s.lean:%s' % (f, th), check, [PROP], clause='[layer 2, Lean] %s  (theorem %s)' % (clause, th)))
    gl_names = [(f, n) for f in jobs for n in jobs[f].glue_names]
    for (f, gname) in gl_names:
        def gcheck(f=f, gname=gname):
            t0 = time.time()
            if glue_err:
                return Verdict('unknown', 'printer', time.time() - t0, 'contract term not printable as Lean: %s' % glue_err)
            st, detail = jobs[f].status('PfGlue.' + gname)
            r = jobs[f].result()
            return Verdict(st, 'lean 4.33 (generated glue theorem)', r['wall'] if st == 'proved' else time.time() - t0, detail,
                           sample={'claim': 'the contract spec term, printed mechanically, equals the Lean definition the theorems are about', 'file': 'lean/%s.lean' % f, 'theorem': gname})
        obs.append(Obligation('C04/glue/%s' % gname, 'lemma', 'contracts/risk.py spec term <-> lean/%s.lean' % f, gcheck, [PROP],
                              clause='[glue] the spec term of the contract (printed from the pfv term on this run) equals the Lean definition: %s' % gname))
    if glue_err or not gl_names:
        obs.append(Obligation('C04/glue/printable', 'lemma', 'contracts/risk.py', lambda: Verdict('unknown', 'printer', 0.0, 'glue not generated: %s' % glue_err), [PROP], clause='[glue] spec terms printable'))
    return obs


def battery_ob(tier, seed):
    def check():
        t0 = time.time()
        dts = ['float64', 'float32']
        r = None
        for sd in ([seed] if tier == 'quick' else [seed + i for i in range(6)]):
            r = _axiom_search(['entropic', 'es', 'eloss', 'iso', 'qcvar'], dts, seed=sd, timeout=3000)
            if not r.get('ok') or r['result']['got']:
                break
        if not r.get('ok'):
            real_raise = r.get('exception') not in (None, 'NoResult', 'Timeout') and '/pfhedge/' in (r.get('traceback') or '')
            return Verdict('refuted' if real_raise else 'unknown', 'bounded: real torch battery', time.time() - t0,
                           'the axiom battery raised %s: %s' % ('inside the real code' if real_raise else '(in the harness, not in pfhedge)', str(r)[:400]), witness={'exception': r.get('exception')}, replay={'real': r, 'confirmed': real_raise})
        got = r['result']['got']
        if got:
            return Verdict('refuted', 'bounded: real torch battery', time.time() - t0, '%d axiom instance(s) fail, first: [%s] %s' % (len(got), got[0]['axiom'], got[0]['detail'][:300]),
                           witness={'axiom': got[0]['axiom'], 'instance': got[0]}, replay={'real': r, 'confirmed': True})
        return Verdict('proved', 'bounded: real torch battery', time.time() - t0, 'axioms held on the battery', sample={'claim': 'BOUNDED: axioms on real torch, float32/float64'})
    return Obligation('C04/axioms/float-battery[bounded]', 'post', 'pfhedge.nn.modules.loss', check, [PROP], bounded=True,
                      clause='BOUNDED: monotone / cash-invariant / convex / bounds / homogeneity / parameter monotonicity of the five criteria on real torch in float32 and float64: N in {1,2,5,40}, trailing shapes (), (3,), (2,2), '
                             'normal / tied / constant / heavy-tailed samples, magnitudes 1e-6..1e6, columns on levels 0, -2000, 1500, 1e6 (quadratic CVaR inside the precondition of its bisect call only: known finding D7 outside)')


def build(tier, seed):
    from pfv.torchlib import import_pfhedge
    import_pfhedge()
    obs = layer1_obs() + lean_obs() + [battery_ob(tier, seed)]
    table = ['%s  <=  layer 1 %s + glue %s + Lean %s.{%s}' % (c, l1 or '(generic)', g, f, ', '.join(t)) for (c, l1, g, f, t) in CLAUSES]
    return {'obligations': obs, 'functions': R.FUNCTIONS + ['lean/RiskRho.lean', 'lean/RiskES.lean', 'lean/RiskQ.lean'],
            'assumptions': [
                'A1 reals for floats: the axioms are proved for the real-valued spec functions; float rounding, overflow and underflow are outside (the bounded battery is the only float evidence)',
                'A3 torch contracts (shim): logsumexp = log sum exp, topk(largest=False) returns the order statistics of the bag (ostat_bot), mean/sum/relu element-wise; the bag semantics of ostat_bot ("j-th smallest") is the Lean definition PfRisk.ostat (sorted rearrangement, theorems ostat_monotone / ostat_rearrangement)',
                'quadratic CVaR: layer 1 proves that the function bisected is dG/dw = 0 and that the returned value is G at the point handed back by bisect; Lean proves the axioms for Q = inf_w G and for G itself. '
                'The returned float equals Q only up to the tolerance of bisect (C19) - it is G(w) >= Q at an approximate root - so for the RETURNED value the axioms hold up to that tolerance; outside the precondition of the bisect call the value is wrong (known finding D7)',
                'isoelastic loss: layer 1 at a = 0.5 and a = 1 (the printed glue is for these two); the Lean lemma covers every 0 < a < 1',
                'Lean: Mathlib v4.33.0 as compiled in the sandbox; kernel axioms propext, Classical.choice, Quot.sound only (checked per theorem by #print axioms on every run)',
                'clause table: ' + ' || '.join(table),
            ],
            'level': 'proof', 'trusted_base': ['pfv executor + torch shim (layer 1)', 'lean 4.33.0 kernel + Mathlib', 'pfv/leanio.to_lean printer (glue is re-checked by Lean)'],
            'bounded_note': 'C04/axioms/float-battery[bounded]: finite battery on real torch; also used as the counterexample finder when a layer-1 obligation is refuted',
            'note': 'layer 1 on the real code (z3), layer 2 in Lean, glued by generated Lean theorems.'}
