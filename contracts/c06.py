"""C06 - cash() is the certainty equivalent and price() the indifference price."""
from contracts import risk

PROP = 'C06'


def build(tier, seed):
    from pfv.torchlib import import_pfhedge
    import_pfhedge()
    obs = risk.c06_obligations(seed, tier)
    return {'obligations': obs, 'functions': [f for f in risk.FUNCTIONS if 'cash' in f or 'HedgeLoss' in f] + ['pfhedge.nn.modules.hedger.Hedger.price', 'pfhedge._utils.bisect.bisect', 'pfhedge._utils.operations.ensemble_mean'],
            'assumptions': [
                'closed-form cash amounts: criterion(constant sample at cash) == criterion(sample - target) proved as term identities (exp/log axioms, sum of a constant, order statistics of a constant multiset)',
                'the bounds min <= cash <= max and cash <= mean for risk-averse criteria follow from the C04 bounds/Jensen lemma (trusted there); here only the certainty-equivalent identity and the wiring are decided',
                'default search: decided as pre@callsite of bisect (C19\'s contract); where its requires hold the postcondition of bisect gives |cash - c*| <= precision',
                'price for every n_times: modular - the loop-cut contract of ensemble_mean (every n_times) + price handing it the caller\'s n_times and a stateless function (pre@callsite); the value identity price == -mean cash is additionally run for n_times in {1,2}',
                'price: "adding k to the payoff raises the price by k" follows from price == -cash(portfolio - payoff) (proved here) and translation-equivariance of the closed-form cash amounts (cash-invariance, C04); "same simulated paths" = the simulation is an arbitrary but fixed store',
            ],
            'level': 'proof', 'trusted_base': ['pfv executor + torch shim', 'z3 NRA/UF with exp/log axioms', 'bisect contract (C19)'],
            'note': 'cash methods and Hedger.price run from /repo on symbolic samples; the default search is checked against bisect\'s contract at its call site.'}
