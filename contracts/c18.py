"""C18 - Black-Scholes functions are total at maturity and at zero volatility.

The terms extracted from the real bs_* functions under `t == 0` (resp. `v == 0`) are evaluated in
the extended-real domain (IEEE rules for x/0, 0/0, 0*inf; pfv/extreal.py), sign case by sign case:
    ensures  kind(result) = finite  and  result = the payoff that is then certain / the limiting delta
    raises   ValueError for negative time to maturity or volatility, in every bs_* entry point
The hedger clause (finite hedges and P&L incl. the final step) is an obligation of the hedging
stack contracts (C02: the final column is overwritten by the previous one) and is listed there."""
import time

from pfv import terms as tm
from pfv import smt, extreal
from pfv import bslib as B
from pfv.bslib import x, t, v, K, m
from pfv.framework import Obligation, Verdict, real_exec
from pfv.proxies import explore, SReal, Unsupported

PROP = 'C18'
F_ = 'pfhedge.nn.functional.'
FUNCTIONS = [F_ + 'd1', F_ + 'd2', F_ + 'ww_width'] + [F_ + 'bs_%s_%s' % (fam, w) for fam in ('european', 'european_binary', 'american_binary', 'lookback')
                                        for w in ('price', 'delta', 'gamma', 'vega', 'theta')]
ASSUMPTIONS = [
    'extended-real evaluation follows IEEE-754 for x/0, 0/0, 0*inf, inf-inf, comparisons with nan; zero is +0 (denominators are products of non-negative factors); ncdf(+-inf) = 1/0, npdf(+-inf) = 0, exp(-inf) = 0; every evaluated case is also replayed on real torch (float64) when it fails',
    '"tiny but positive" t, v (underflow territory) is not covered: the exact-zero cases are',
    'A3 torch contracts: where selects element-wise (the unselected branch may be nan), broadcast_all, comparisons with nan are False',
]
S = tm.mul(K, tm.app('exp', x))


def sig(family, which, call):
    from contracts import c08
    return c08._sig(family, which, call)


def term_at(family, which, call, hyps):
    wm, st, cl = sig(family, which, call)
    return B.bs_term('bs_%s_%s' % (family, which), hyps, with_m=wm, strike=st, call=cl)[0]


def term_at_mixed(family, which, call, hyps):
    """the same element term, but taken from a TWO-element batch whose other element is alive (t1 > 0, v1 > 0): a guard that looks at the
    whole batch (`.any()`, `.all()`, a Python `if` on a reduced tensor) instead of element-wise shows up here"""
    import torch
    import pfhedge.nn.functional as Fm
    from pfv.torchlib.tensor import Tensor, inline_leaves
    from pfv.proxies import SReal
    wm, st, cl = sig(family, which, call)
    x1, t1, v1, m1 = tm.var('x1'), tm.var('t1'), tm.var('v1'), tm.var('m1')

    def two(a, b):
        return Tensor.fresh(lambda idx: tm.ite(tm.eq(idx[0], tm.IZERO), a, b), (2,), torch.float64)

    def build():
        kw = dict(log_moneyness=two(x, x1), time_to_maturity=two(t, t1), volatility=two(v, v1))
        if wm:
            kw['max_log_moneyness'] = two(m, m1)
        if st:
            kw['strike'] = SReal(K)
        if cl is not None:
            kw['call'] = cl
        return kw
    live = [tm.gt(t1, tm.ZERO), tm.gt(v1, tm.ZERO), tm.le(x1, m1), tm.lt(m1, tm.ZERO)]
    paths = B.run_real(getattr(Fm, 'bs_%s_%s' % (family, which)), build, hyps + live)
    rets = [p for p in paths if p.outcome() == 'returns']
    if len(paths) != 1 or len(rets) != 1:
        raise Unsupported('mixed batch: expected one returning path, got %s' % [(p.outcome(), str(p.exception)[:100]) for p in paths])
    return inline_leaves(rets[0].result.at((tm.IZERO,)), rets[0].ctx), live


def call_expr(family, which, call):
    wm, st, cl = sig(family, which, call)
    args = 'x, m, t, v' if wm else 'x, t, v'
    kw = ''
    if st:
        kw += ', strike=K'
    if cl is not None:
        kw += ', call=%r' % cl
    return 'F.bs_%s_%s(%s%s)' % (family, which, args, kw)


def total_ob(family, which, call, regime, xcase, expected_fn, mcase=None, mixed=False):
    """regime: 't=0' | 'v=0' | 't=0,v=0'."""
    rh = {'t=0': [tm.eq(t, tm.ZERO), tm.gt(v, tm.ZERO)], 'v=0': [tm.eq(v, tm.ZERO), tm.gt(t, tm.ZERO)],
          't=0,v=0': [tm.eq(t, tm.ZERO), tm.eq(v, tm.ZERO)]}[regime]
    xh = {'x>0': [tm.gt(x, tm.ZERO)], 'x<0': [tm.lt(x, tm.ZERO)], 'x=0': [tm.eq(x, tm.ZERO)]}[xcase]
    mh = {None: [], 'm>=0': [tm.ge(m, tm.ZERO), tm.le(x, m)], 'm<0': [tm.lt(m, tm.ZERO), tm.le(x, m)]}[mcase]
    hyps = [tm.gt(K, tm.ZERO)] + rh + xh + mh
    tag = ','.join([s for s in (('call' if call else 'put') if call is not None else None, regime, xcase, mcase) if s])
    oid = 'C18/bs_%s_%s/total[%s%s]' % (family, which, tag, ',in a batch with a live element' if mixed else '')
    point = {'x': {'x>0': 0.3, 'x<0': -0.3, 'x=0': 0.0}[xcase], 't': 0.0 if 't=0' in regime else 0.5, 'v': 0.0 if 'v=0' in regime else 0.2, 'K': 1.3}
    if mcase == 'm>=0':
        point['m'] = max(point['x'], 0.0) + 0.1
    elif mcase == 'm<0':
        point['x'] = -0.3
        point['m'] = -0.1
    snippet = ('import pfhedge.nn.functional as F\nx=T(W["x"]); t=T(W["t"]); v=T(W["v"]); K=W["K"]; m=T(W.get("m",0.0))\n'
               'result={"got": %s}' % call_expr(family, which, call))
    if mixed:
        snippet = ('import pfhedge.nn.functional as F\nx=T([W["x"], -0.2]); t=T([W["t"], 0.5]); v=T([W["v"], 0.3]); K=W["K"]; m=T([W.get("m",0.0), -0.1])\n'
                   'result={"got": (%s)[0]}' % call_expr(family, which, call))

    def check():
        t0 = time.time()
        hyps_ = hyps
        tm.KEEP_ZERO_FACTOR = True          # a literal 0 factor is kept: 0 * inf must show up as nan
        try:
            if mixed:
                term, live = term_at_mixed(family, which, call, hyps)
                hyps_ = hyps + live
            else:
                term = term_at(family, which, call, hyps)
        except Unsupported as e:
            return Verdict('unknown', 'engine', time.time() - t0, str(e))
        finally:
            tm.KEEP_ZERO_FACTOR = False
        try:
            cs = extreal.cases(term, hyps_)
        except extreal.Split as s:
            return Verdict('unknown', 'extreal', time.time() - t0, 'sign case analysis did not close: %s' % tm.show(s.cond))
        expected = expected_fn() if expected_fn else None
        sample = {'claim': 'finite and equal to the certain payoff / limiting delta', 'case': tag, 'term': tm.show(term)[:500], 'subcases': len(cs),
                  'values': [c[1][0] + ((':' + tm.show(c[1][1])[:80]) if c[1][0] == 'fin' else '') for c in cs][:4]}
        for (hy, val) in cs:
            bad = None
            if val[0] != 'fin':
                bad = 'evaluates to %s' % val[0]
            elif expected is not None:
                r = smt.prove(hy, tm.eq(val[1], expected), timeout_ms=10000)
                if r.status == 'sat':
                    bad = 'value %s differs from %s' % (tm.show(val[1])[:120], tm.show(expected)[:120])
                elif r.status != 'unsat':
                    return Verdict('unknown', r.backend, time.time() - t0, 'value comparison undecided', sample=sample)
            if bad:
                # candidate inputs: a solver model of the failing sign sub-case first (it may sit on a boundary such as m = 0), then the fixed point of the case
                cands = []
                try:
                    rm = smt.check_sat(list(hy) + list(hyps_), timeout_ms=10000, want_model=True)
                    if rm.status == 'sat' and rm.model and not mixed:
                        pm = dict(point)
                        for k_ in ('x', 't', 'v', 'm', 'K'):
                            if k_ in rm.model:
                                pm[k_] = float(rm.model[k_])
                        cands.append(pm)
                except Exception:
                    pass
                cands.append(point)
                for pt in cands:
                    rr = real_exec(snippet, pt)
                    got = rr.get('result', {}).get('got') if rr.get('ok') else None
                    exp_num = None
                    confirmed = (not rr.get('ok')) or isinstance(got, str) or (got is not None and got != got)
                    if not confirmed and expected is not None and got is not None:
                        from pfv import evalc
                        try:
                            exp_num = float(evalc.evaluate(expected, {k_: __import__('fractions').Fraction(val_).limit_denominator(10**9) for k_, val_ in pt.items()}))
                            confirmed = abs(got - exp_num) > 1e-9
                        except Exception:
                            pass
                    if confirmed:
                        break
                return Verdict('refuted', 'extreal+z3', time.time() - t0, '%s at %s: %s' % (call_expr(family, which, call), tag, bad),
                               witness={'point': pt, 'real_value': got, 'expected': exp_num}, sample=sample,
                               replay={'real': rr, 'confirmed': bool(confirmed)})
        return Verdict('proved', 'extreal+z3', time.time() - t0, '%d sign sub-case(s), all finite' % len(cs), sample=sample)
    return Obligation(oid, 'post', F_ + 'bs_%s_%s' % (family, which), check, [PROP],
                      clause='%s is finite%s at %s' % (call_expr(family, which, call), ' and equals the certain payoff / limiting delta' if expected_fn else '', tag))


def raises_ob(family, which, call, neg):
    hyps = [tm.gt(K, tm.ZERO)] + ([tm.lt(t, tm.ZERO), tm.gt(v, tm.ZERO)] if neg == 't<0' else [tm.lt(v, tm.ZERO), tm.gt(t, tm.ZERO)])
    wm, st, cl = sig(family, which, call)
    point = {'x': 0.1, 't': -0.5 if neg == 't<0' else 0.5, 'v': 0.2 if neg == 't<0' else -0.2, 'K': 1.3, 'm': 0.2}
    snippet = ('import pfhedge.nn.functional as F\nx=T(W["x"]); t=T(W["t"]); v=T(W["v"]); K=W["K"]; m=T(W.get("m",0.0))\n'
               'result={"got": %s}' % call_expr(family, which, call))

    def check():
        import pfhedge.nn.functional as Fm
        fn = getattr(Fm, 'bs_%s_%s' % (family, which))
        t0 = time.time()
        try:
            paths = B.run_real(fn, B.std_inputs(wm, st, cl), hyps)
        except Unsupported as e:
            return Verdict('unknown', 'engine', time.time() - t0, str(e))
        outs = [p.outcome() for p in paths]
        sample = {'claim': 'negative argument rejected', 'paths': outs}
        if paths and all(o == 'raises:ValueError' for o in outs):
            return Verdict('proved', 'path-exploration+z3', time.time() - t0, '%d path(s), all raise ValueError' % len(paths), sample=sample)
        if any(o == 'returns' for o in outs):
            # an input on which the function returns although the argument is negative: a model of a returning path's condition
            pt = dict(point)
            for p_ in paths:
                if p_.outcome() != 'returns':
                    continue
                rm = smt.check_sat(p_.facts(hyps), timeout_ms=10000, want_model=True)
                if rm.status == 'sat' and rm.model:
                    try:
                        for k_ in ('x', 't', 'v', 'm', 'K'):
                            if k_ in rm.model:
                                pt[k_] = float(rm.model[k_])
                    except Exception:
                        pt = dict(point)
                    break
            rr = real_exec(snippet, pt)
            if not rr.get('ok'):
                rr0 = rr
                rr = real_exec(snippet, point)
                if not rr.get('ok'):
                    rr = rr0
                else:
                    pt = dict(point)
            point_used = pt
            return Verdict('refuted', 'path-exploration+z3', time.time() - t0, 'a path returns a value for %s' % neg, witness={'point': point_used}, sample=sample,
                           replay={'real': rr, 'confirmed': bool(rr.get('ok'))})
        return Verdict('unknown', 'engine', time.time() - t0, 'paths: %s' % [(p.outcome(), str(p.exception)[:100]) for p in paths], sample=sample)
    tag = ('call,' if call else 'put,') if call is not None else ''
    return Obligation('C18/bs_%s_%s/raises[%s%s]' % (family, which, tag, neg), 'raises', F_ + 'bs_%s_%s' % (family, which), check, [PROP],
                      clause='%s raises ValueError when %s' % (call_expr(family, which, call), neg))


WW_REPLAY = '''
import pfhedge.nn as pnn
from pfhedge.instruments import BrownianStock, EuropeanOption
d = EuropeanOption(BrownianStock(sigma=0.2, cost=W["cost"]), strike=W["K"])
m = pnn.WhalleyWilmott(d)
out = m(T([[W["x"], W["t"], W["v"], W["prev"]]]).to(torch.float32))
result = {"got": float(out.reshape(-1)[0])}
'''


def ww_module_ob(regime, xcase, cost_case):
    """the Whalley-Wilmott hedging module at zero time to maturity / zero volatility: the hedge is finite - the limiting delta where
    the band has collapsed, the previous hedge where the band is the whole line (gamma = +inf at the strike)."""
    c_, a_, prev = tm.var('cost'), tm.var('a_ww'), tm.var('prev')
    rh = {'t=0': [tm.eq(t, tm.ZERO), tm.gt(v, tm.ZERO)], 'v=0': [tm.eq(v, tm.ZERO), tm.gt(t, tm.ZERO)], 't=0,v=0': [tm.eq(t, tm.ZERO), tm.eq(v, tm.ZERO)]}[regime]
    xh = {'x>0': [tm.gt(x, tm.ZERO)], 'x<0': [tm.lt(x, tm.ZERO)], 'x=0': [tm.eq(x, tm.ZERO)]}[xcase]
    ch = {'cost>0': [tm.gt(c_, tm.ZERO)], 'cost=0': [tm.eq(c_, tm.ZERO)]}[cost_case]
    hyps = [tm.gt(K, tm.ZERO), tm.gt(a_, tm.ZERO)] + rh + xh + ch
    tag = '%s,%s,%s' % (regime, xcase, cost_case)
    point = {'x': {'x>0': 0.3, 'x<0': -0.3, 'x=0': 0.0}[xcase], 't': 0.0 if 't=0' in regime else 0.5, 'v': 0.0 if 'v=0' in regime else 0.2, 'K': 1.0, 'cost': 0.0 if cost_case == 'cost=0' else 1e-3, 'prev': 0.3}

    def check():
        t0 = time.time()
        import torch
        import pfhedge.nn as pnn
        import pfhedge.instruments as pi
        from pfv.torchlib.tensor import Tensor, inline_leaves
        from pfv.proxies import SReal, explore

        def run(c):
            d = pi.EuropeanOption(pi.BrownianStock(cost=SReal(c_), dtype=torch.float64), strike=SReal(K))
            m_ = pnn.WhalleyWilmott(d, a=SReal(a_))
            vals = [x, t, v, prev]
            inp = Tensor.fresh(lambda idx: vals[int(idx[-1].args[0])] if idx[-1].op == 'const' else tm.ite(tm.eq(idx[-1], tm.IZERO), x, tm.ite(tm.eq(idx[-1], tm.IONE), t, tm.ite(tm.eq(idx[-1], tm.const(2, 'I')), v, prev))), (1, 4), torch.float64)
            return m_(inp)
        tm.KEEP_ZERO_FACTOR = True          # a literal 0 factor is kept: 0 * inf must show up as nan
        try:
            paths = explore(run, hyps, max_paths=8)
            rets = [p for p in paths if p.outcome() == 'returns']
            if len(paths) != 1 or len(rets) != 1:
                return Verdict('unknown', 'engine', time.time() - t0, 'paths: %s' % [(p.outcome(), str(p.exception)[:150], p.traceback[-300:]) for p in paths])
            term = inline_leaves(rets[0].result.at((tm.IZERO, tm.IZERO)), rets[0].ctx)
        except Unsupported as e:
            return Verdict('unknown', 'engine', time.time() - t0, str(e))
        finally:
            tm.KEEP_ZERO_FACTOR = False
        try:
            cs = extreal.cases(term, hyps)
        except extreal.Split as s_:
            return Verdict('unknown', 'extreal', time.time() - t0, 'sign case analysis did not close: %s' % tm.show(s_.cond))
        sample = {'claim': 'Whalley-Wilmott hedge finite', 'case': tag, 'term': tm.show(term)[:400], 'values': [c[1][0] + ((':' + tm.show(c[1][1])[:80]) if c[1][0] == 'fin' else '') for c in cs][:4]}
        for (hy, val) in cs:
            if val[0] != 'fin':
                rr = real_exec(WW_REPLAY, point)
                got = rr.get('result', {}).get('got') if rr.get('ok') else None
                confirmed = (not rr.get('ok')) or got is None or isinstance(got, str) or got != got or got in (float('inf'), float('-inf'))
                return Verdict('refuted', 'extreal+z3', time.time() - t0, 'WhalleyWilmott.forward at %s evaluates to %s' % (tag, val[0]), witness={'point': point, 'real_value': got}, sample=sample,
                               replay={'real': rr, 'confirmed': bool(confirmed)})
        return Verdict('proved', 'extreal+z3', time.time() - t0, '%d sign sub-case(s), all finite' % len(cs), sample=sample)
    return Obligation('C18/WhalleyWilmott.forward/total[%s]' % tag, 'post', 'pfhedge.nn.modules.ww.WhalleyWilmott.forward', check, [PROP],
                      clause='the Whalley-Wilmott hedge is finite at %s (European call; previous hedge finite; risk aversion a > 0)' % tag)


def build(tier, seed):
    from pfv.torchlib import import_pfhedge
    import_pfhedge()
    obs = []
    one, zero = (lambda: tm.ONE), (lambda: tm.ZERO)
    for regime in ('t=0', 'v=0', 't=0,v=0'):
        for xc in ('x>0', 'x<0', 'x=0'):
            pos = xc == 'x>0'
            for call in (True, False):
                intrinsic = (lambda call=call: tm.tmax(tm.sub(S, K), tm.ZERO) if call else tm.tmax(tm.sub(K, S), tm.ZERO))
                obs.append(total_ob('european', 'price', call, regime, xc, intrinsic))
                if xc != 'x=0':
                    obs.append(total_ob('european', 'delta', call, regime, xc, (lambda call=call, pos=pos: tm.const(1.0 if pos else 0.0) if call else tm.const(0.0 if pos else -1.0))))
                    obs.append(total_ob('european_binary', 'price', call, regime, xc, (lambda call=call, pos=pos: tm.const(1.0 if (pos == call) else 0.0))))
                    obs.append(total_ob('european_binary', 'delta', call, regime, xc, zero))
                else:
                    obs.append(total_ob('european', 'delta', call, regime, xc, None))
                    obs.append(total_ob('european_binary', 'price', call, regime, xc, None))
            # barrier products (call only)
            obs.append(total_ob('american_binary', 'price', None, regime, xc, one, mcase='m>=0'))
            obs.append(total_ob('american_binary', 'delta', None, regime, xc, zero, mcase='m>=0'))
            obs.append(total_ob('lookback', 'price', None, regime, xc, (lambda: tm.sub(tm.mul(K, tm.app('exp', m)), K)), mcase='m>=0'))
            if xc == 'x<0':
                obs.append(total_ob('american_binary', 'price', None, regime, xc, zero, mcase='m<0'))
                obs.append(total_ob('american_binary', 'delta', None, regime, xc, zero, mcase='m<0'))
                obs.append(total_ob('lookback', 'price', None, regime, xc, zero, mcase='m<0'))
    # element-wise totality: the same cases with the degenerate element sitting in a batch next to a live one
    # (a guard that looks at the whole batch instead of element-wise is decided here; x<0 cases, where nothing is knocked in)
    mixed = []
    for regime in ('t=0', 'v=0', 't=0,v=0'):
        for call in (True, False):
            intrinsic = (lambda call=call: tm.tmax(tm.sub(S, K), tm.ZERO) if call else tm.tmax(tm.sub(K, S), tm.ZERO))
            mixed.append(total_ob('european', 'price', call, regime, 'x<0', intrinsic, mixed=True))
            mixed.append(total_ob('european', 'delta', call, regime, 'x<0', (lambda call=call: tm.const(0.0) if call else tm.const(-1.0)), mixed=True))
            mixed.append(total_ob('european_binary', 'price', call, regime, 'x<0', (lambda call=call: tm.const(0.0 if call else 1.0)), mixed=True))
            mixed.append(total_ob('european_binary', 'delta', call, regime, 'x<0', zero, mixed=True))
        mixed.append(total_ob('american_binary', 'price', None, regime, 'x<0', zero, mcase='m<0', mixed=True))
        mixed.append(total_ob('american_binary', 'delta', None, regime, 'x<0', zero, mcase='m<0', mixed=True))
        mixed.append(total_ob('lookback', 'price', None, regime, 'x<0', zero, mcase='m<0', mixed=True))
    obs += mixed
    from contracts import c08
    for family, spec in c08.FAMILIES.items():
        for which in ('price', 'delta', 'gamma', 'vega', 'theta'):
            if family == 'lookback' and which != 'price':
                pass
            for neg in ('t<0', 'v<0'):
                calls = spec['calls'] if sig(family, which, True)[2] is not None else (None,)
                for call in calls:
                    obs.append(raises_ob(family, which, call if sig(family, which, call)[2] is not None else None, neg))
    for regime in ('t=0', 'v=0', 't=0,v=0'):
        for xc in ('x>0', 'x<0', 'x=0'):
            for cc in ('cost>0', 'cost=0'):
                obs.append(ww_module_ob(regime, xc, cc))
    # Whalley-Wilmott band width is defined (finite) for every real gamma, incl. negative gamma of binaries:
    # the definedness obligations of the real ww_width (fractional powers) must be provable without a sign assumption
    from contracts import c20
    from pfv import fc
    for ob in c20.helper_obs(seed):
        if ob.id == 'C20/ww_width/post':
            ob.id = 'C18/ww_width/total[all real gamma]'
            ob.props = [PROP]
            ob.clause = 'ww_width(gamma, spot, cost, a) is defined and equals (3 c gamma^2 S/(2a))^(1/3) for every real gamma (negative gammas occur for binaries), cost >= 0, a > 0, S > 0'
            obs.append(ob)
    # canary: the engine must see 0/0 as nan
    def canary():
        t0 = time.time()
        cs = extreal.cases(tm.div(tm.var('x'), tm.var('t')), [tm.eq(tm.var('t'), tm.ZERO), tm.eq(tm.var('x'), tm.ZERO)])
        if all(c[1] == extreal.NAN for c in cs):
            return Verdict('refuted', 'extreal', time.time() - t0, '0/0 evaluates to nan', witness={})
        return Verdict('proved', 'extreal', time.time() - t0, 'engine failed to produce nan for 0/0')
    obs.append(Obligation('C18/canary/0-over-0-is-finite', 'canary', '', canary, [PROP], clause='CANARY (must be refuted): 0/0 is finite'))
    return {'obligations': obs, 'functions': FUNCTIONS, 'assumptions': ASSUMPTIONS, 'level': 'proof',
            'trusted_base': ['pfv executor + torch shim', 'pfv/extreal.py (IEEE rules)', 'z3 (sign decisions, value equalities)'],
            'note': 'Exact-zero regimes only (t = 0, v = 0, both), every sign case of log-moneyness and of the running maximum; each function is run from /repo under the regime hypotheses and its term evaluated in the extended reals.'}
