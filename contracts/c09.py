"""C09 - no-arbitrage structure of the Black-Scholes prices.

All obligations are lemmas over the price / Greek terms extracted from the real functions (the same
terms C07/C08 put under contract); equalities by the exp/ncdf zero test, inequalities by z3 over
the special-function axioms A2 (0 < ncdf < 1, npdf > 0, exp > 0, monotonicity, ncdf(-u) = 1 - ncdf(u),
u*ncdf(u) + npdf(u) > 0).  Monotonicity / convexity / dominance statements are reduced to sign
conditions on the Greeks proved equal to the derivatives in C08, plus the trusted calculus lemma
"derivative >= 0 on an interval => non-decreasing" (Mathlib: monotoneOn_of_deriv_nonneg)."""
from pfv import terms as tm
from pfv import diff as D
from pfv import sym, smt
from pfv import bslib as B
from pfv.bslib import x, t, v, K, m, S, OPEN
from pfv.framework import Obligation, Verdict, real_exec
from contracts import c08

PROP = 'C09'
FUNCTIONS = [q for q in c08.FUNCTIONS if q.startswith('pfhedge.nn.functional.')]
ASSUMPTIONS = [
    'A2 special-function axioms as listed in the module docstring (pfv/smt.py _special); each is a classical fact, none is proved here',
    'TRUSTED calculus lemma (A4): a differentiable function with non-negative derivative on an interval is non-decreasing; with non-negative second derivative it is convex. Used to pass from the sign obligations on delta/gamma/vega/theta (equal to the derivatives by C08) to monotonicity, convexity and the intrinsic-value bound (with the terminal limit of C07).',
    'A1 reals for floats; A3 torch element-wise contracts',
]
R = tm.var('r')          # r = sqrt(t) > 0
E = tm.var('E')          # E = exp(x) > 0


def atomise(term, hyps):
    """Resolve conditions under hyps, then replace sqrt(t) by r (t = r^2) and exp(x) by E so that the
    inequality is polynomial over (x, v, r, K, E) and the ncdf/npdf atoms."""
    term = sym.simplify_under(term, hyps)
    term = tm.subst(term, {tm.app('sqrt', t): R, tm.app('exp', x): E})
    term = tm.subst(term, {t: tm.mul(R, R)})
    return term


def ATOM_HYPS():
    return [tm.gt(R, tm.ZERO), tm.gt(E, tm.ZERO), tm.eq(t, tm.mul(R, R)),
            tm.implies(tm.lt(x, tm.ZERO), tm.lt(E, tm.ONE)), tm.implies(tm.gt(x, tm.ZERO), tm.gt(E, tm.ONE)),
            tm.implies(tm.eq(x, tm.ZERO), tm.eq(E, tm.ONE)), tm.ge(E, tm.add(tm.ONE, x))]


def ineq_ob(oid, function, clause, goal_fn, hyps, seed, replay=None, kind='lemma', deciding=True, timeout_ms=30000):
    """goal_fn() -> T boolean built from code terms; proved under hyps with the A2 axioms."""
    def check():
        goal = goal_fn()
        g2 = atomise(goal, hyps)
        r = smt.prove(list(hyps) + ATOM_HYPS(), g2, timeout_ms=timeout_ms)
        sample = {'claim': clause, 'hypotheses': [tm.show(h) for h in hyps], 'goal_over_atoms': tm.show(g2)[:700]}
        if r.status == 'unsat':
            return Verdict('proved', r.backend + '(NRA+UF axioms)', r.time_s, '', sample=sample)
        # a `sat` over uninterpreted atoms is only a candidate: search a numeric witness on the real term
        pts = B._points_for(hyps, 64, seed, True, None)
        for p in pts:
            try:
                ok = B.eval_at(goal, p)
            except Exception:
                continue
            if not ok:
                rp = replay(B.pt_json(p)) if replay else None
                return Verdict('refuted', 'z3+mpmath', r.time_s, 'inequality fails at %s' % (B.pt_json(p),), witness={'point': B.pt_json(p)}, sample=sample, replay=rp)
        return Verdict('unknown', r.backend, r.time_s, 'solver: %s (%s); no numeric counterexample among %d domain points' % (r.status, r.reason, len(pts)), sample=sample)
    return Obligation(oid, kind, function, check, [PROP], deciding=deciding, clause=clause)


def eq_ob(oid, function, clause, lhs_fn, rhs_fn, hyps, seed, with_m=False, msign=None, replay_snippet=None):
    return B.identity_ob(oid, function, [PROP], lhs_fn, rhs_fn, hyps, clause, seed=seed, with_m=with_m, m_sign=msign,
                         replay_snippet=replay_snippet, kind='lemma')


PARITY_REPLAY = '''
import pfhedge.nn.functional as F
x=T(W["x"]); t=T(W["t"]); v=T(W["v"]); K=W["K"]
c=F.bs_european_price(x,t,v,strike=K,call=True); p=F.bs_european_price(x,t,v,strike=K,call=False)
result={"got": float(c-p), "ref": float(K*x.exp()-K)}
'''
BIN_PARITY_REPLAY = '''
import pfhedge.nn.functional as F
x=T(W["x"]); t=T(W["t"]); v=T(W["v"])
result={"got": float(F.bs_european_binary_price(x,t,v,call=True)+F.bs_european_binary_price(x,t,v,call=False)), "ref": 1.0}
'''


def real_ineq_replay(expr):
    """expr: python expression over F, x, m, t, v, K evaluating to True when the property holds."""
    snippet = 'import pfhedge.nn.functional as F\nx=T(W["x"]); t=T(W["t"]); v=T(W["v"]); K=W["K"]; m=T(W.get("m",0.0))\nresult={"holds": bool(%s)}' % expr

    def rp(pt):
        r = real_exec(snippet, pt)
        return {'real': r, 'confirmed': bool(r.get('ok') and r['result'].get('holds') is False)}
    return rp


def build(tier, seed):
    from pfv.torchlib import import_pfhedge
    import_pfhedge()
    f = c08.fterm
    obs = []
    eu = lambda which, call=True: f('european', which, call, OPEN)
    bi = lambda which, call=True: f('european_binary', which, call, OPEN)
    AM_LO = OPEN + [tm.lt(m, tm.ZERO), tm.le(x, m)]
    AM_HI = OPEN + [tm.ge(m, tm.ZERO), tm.le(x, m)]
    LB_LO = OPEN + [tm.lt(m, tm.ZERO), tm.le(x, m)]
    LB_HI = OPEN + [tm.ge(m, tm.ZERO), tm.le(x, m)]
    F_ = 'pfhedge.nn.functional.'
    # ---- parities
    obs.append(eq_ob('C09/parity/european', F_ + 'bs_european_price', 'European call - put == S - K',
                     lambda: tm.sub(eu('price', True), eu('price', False)), lambda: tm.sub(S, K), OPEN, seed, replay_snippet=PARITY_REPLAY))
    obs.append(eq_ob('C09/parity/binary', F_ + 'bs_european_binary_price', 'binary call + binary put == 1',
                     lambda: tm.add(bi('price', True), bi('price', False)), lambda: tm.ONE, OPEN, seed, replay_snippet=BIN_PARITY_REPLAY))
    # ---- bounds
    obs.append(ineq_ob('C09/bounds/call<=spot', F_ + 'bs_european_price', 'European call <= spot',
                       lambda: tm.le(eu('price'), S), OPEN, seed, replay=real_ineq_replay('F.bs_european_price(x,t,v,strike=K) <= K*x.exp()*(1+1e-12)')))
    obs.append(ineq_ob('C09/bounds/call>=intrinsic[via theta<=0 and terminal limit]', F_ + 'bs_european_theta',
                       'European theta <= 0 (price non-decreasing in time to maturity; with lim_{t->0+} = intrinsic (C07) gives call >= intrinsic >= 0)',
                       lambda: tm.lt(eu('theta'), tm.ZERO), OPEN, seed, replay=real_ineq_replay('F.bs_european_theta(x,t,v,strike=K) <= 0')))
    for call in (True, False):
        tag = 'call' if call else 'put'
        obs.append(ineq_ob('C09/bounds/binary[%s] in [0,1]' % tag, F_ + 'bs_european_binary_price', 'European binary %s price in [0,1]' % tag,
                           lambda call=call: tm.and_(tm.le(tm.ZERO, bi('price', call)), tm.le(bi('price', call), tm.ONE)), OPEN, seed,
                           replay=real_ineq_replay('0 <= F.bs_european_binary_price(x,t,v,call=%s) <= 1' % call)))
    obs.append(ineq_ob('C09/bounds/american_binary>=0', F_ + 'bs_american_binary_price', 'American binary price >= 0 (barrier not yet hit)',
                       lambda: tm.le(tm.ZERO, f('american_binary', 'price', None, AM_LO)), AM_LO, seed,
                       replay=real_ineq_replay('F.bs_american_binary_price(x,m,t,v) >= 0')))
    obs.append(ineq_ob('C09/bounds/american_binary<=1[via delta>0 and value 1 at the barrier]', F_ + 'bs_american_binary_delta',
                       'American binary delta > 0 for x <= m < 0 (increasing in spot; equals 1 at x = 0 by C07 boundary => price <= 1)',
                       lambda: tm.gt(f('american_binary', 'delta', None, AM_LO), tm.ZERO), AM_LO, seed,
                       replay=real_ineq_replay('F.bs_american_binary_delta(x,m,t,v,strike=K) > 0')))
    obs.append(eq_ob('C09/american_binary==1 once hit', F_ + 'bs_american_binary_price', 'American binary price == 1 when the running maximum has reached the strike (m >= 0)',
                     lambda: f('american_binary', 'price', None, AM_HI), lambda: tm.ONE, AM_HI, seed, with_m=True, msign='pos',
                     replay_snippet='import pfhedge.nn.functional as F\nx=T(W["x"]); t=T(W["t"]); v=T(W["v"]); m=T(W["m"])\nresult={"got": float(F.bs_american_binary_price(x,m,t,v)), "ref": 1.0}'))
    obs.append(eq_ob('C09/american_binary at barrier', F_ + 'bs_american_binary_price', 'continuity at the barrier: not-yet-hit formula equals 1 at x = 0',
                     lambda: tm.subst(f('american_binary', 'price', None, OPEN + [tm.lt(m, tm.ZERO)]), {x: tm.ZERO}), lambda: tm.ONE, OPEN + [tm.lt(m, tm.ZERO)], seed, with_m=True, msign='neg'))
    # ---- monotone / convex in spot, non-decreasing in volatility and time to maturity
    obs.append(ineq_ob('C09/monotone/call delta in [0,1]', F_ + 'bs_european_delta', 'European call delta in (0,1): increasing in spot',
                       lambda: tm.and_(tm.gt(eu('delta'), tm.ZERO), tm.lt(eu('delta'), tm.ONE)), OPEN, seed, replay=real_ineq_replay('0 <= F.bs_european_delta(x,t,v) <= 1')))
    obs.append(ineq_ob('C09/convex/call gamma>0', F_ + 'bs_european_gamma', 'European gamma > 0: convex in spot',
                       lambda: tm.gt(eu('gamma'), tm.ZERO), OPEN, seed, replay=real_ineq_replay('F.bs_european_gamma(x,t,v,strike=K) >= 0')))
    obs.append(ineq_ob('C09/monotone/call vega>0', F_ + 'bs_european_vega', 'European vega > 0: non-decreasing in volatility',
                       lambda: tm.gt(eu('vega'), tm.ZERO), OPEN, seed, replay=real_ineq_replay('F.bs_european_vega(x,t,v,strike=K) >= 0')))
    # ---- dominance
    obs.append(ineq_ob('C09/dominance/american>=european binary', F_ + 'bs_american_binary_price', 'American binary >= European binary call',
                       lambda: tm.ge(f('american_binary', 'price', None, AM_LO), f('european_binary', 'price', True, AM_LO)), AM_LO, seed,
                       replay=real_ineq_replay('F.bs_american_binary_price(x,m,t,v) >= F.bs_european_binary_price(x,t,v)')))
    obs.append(ineq_ob('C09/dominance/american>=european binary[m>=0]', F_ + 'bs_american_binary_price', 'American binary (hit) >= European binary call',
                       lambda: tm.ge(f('american_binary', 'price', None, AM_HI), f('european_binary', 'price', True, AM_HI)), AM_HI, seed,
                       replay=real_ineq_replay('F.bs_american_binary_price(x,m,t,v) >= F.bs_european_binary_price(x,t,v)')))
    obs.append(ineq_ob('C09/dominance/lookback>=european[m<0]', F_ + 'bs_lookback_price', 'lookback call >= European call (running max below strike)',
                       lambda: tm.ge(f('lookback', 'price', None, LB_LO), f('european', 'price', True, LB_LO)), LB_LO, seed,
                       replay=real_ineq_replay('F.bs_lookback_price(x,m,t,v,strike=K) >= F.bs_european_price(x,t,v,strike=K) - 1e-12')))
    # continuity where the running maximum crosses the strike
    LO_ = OPEN + [tm.lt(m, tm.ZERO), tm.le(x, m)]
    HI_ = OPEN + [tm.gt(m, tm.ZERO), tm.le(x, m)]
    obs.append(eq_ob('C09/continuity/lookback[m=0]', F_ + 'bs_lookback_price', 'lookback price is continuous where the running maximum crosses the strike',
                     lambda: tm.subst(f('lookback', 'price', None, LO_), {m: tm.ZERO}), lambda: tm.subst(f('lookback', 'price', None, HI_), {m: tm.ZERO}),
                     OPEN + [tm.le(x, tm.ZERO)], seed))
    # canary
    obs.append(ineq_ob('C09/canary/call<=strike', '', 'CANARY (must be refuted): European call <= K', lambda: tm.le(eu('price'), K), OPEN, seed, kind='canary'))
    res = {
        'obligations': obs, 'functions': FUNCTIONS, 'assumptions': ASSUMPTIONS, 'level': 'proof',
        'trusted_base': ['special-function axioms A2', 'calculus lemma derivative sign => monotone/convex (trusted)', 'pfv executor + torch shim', 'z3 NRA+UF', 'sympy (zero test)'],
        'note': 'Lemmas over the extracted price/Greek terms. The two lookback dominance clauses on the branch m >= 0 (>= European call, >= locked-in payoff) are bounded stand-ins (see bounded_note).',
    }
    # ---- bounded stand-ins (never counted as discharged): lookback dominance on the m >= 0 branch
    # no-arbitrage relations are element-wise: a batch mixing running maxima below and above the strike prices every element by its own branch
    from contracts import c08 as _c08
    for fam_ in ('american_binary', 'lookback'):
        obs.append(_c08.mixed_batch_ob(fam_, 'price', PROP))
    obs.extend(bounded_lookback(seed, tier))
    res['bounded_note'] = 'lookback >= European call and lookback >= K e^m - K for m >= 0: z3 cannot derive these from the atom axioms (they need the integral representation); checked on a seeded grid of %d domain points in 50-digit arithmetic on the extracted term. Bound: x in [-1,1], t in (0,5], v in (0,2], K in (0.1,10], m in [max(x,0), max(x,0)+0.5].' % (256 if tier == 'quick' else 4096)
    return res


def bounded_lookback(seed, tier):
    n = 256 if tier == 'quick' else 4096
    LB_HI = OPEN + [tm.ge(m, tm.ZERO), tm.le(x, m)]

    def mk(oid, clause, goal_fn, expr):
        def check():
            goal = goal_fn()
            pts = B._points_for(LB_HI, n, seed, True, 'pos')
            for p in pts:
                if not B.eval_at(goal, p):
                    rp = real_ineq_replay(expr)(B.pt_json(p))
                    return Verdict('refuted', 'mpmath grid', 0, 'fails at %s' % B.pt_json(p), witness={'point': B.pt_json(p)}, replay=rp)
            return Verdict('proved', 'bounded: mpmath grid (%d points)' % len(pts), 0, 'held on %d seeded domain points' % len(pts),
                           sample={'claim': clause, 'points': len(pts), 'first': B.pt_json(pts[0])})
        return Obligation(oid, 'lemma', 'pfhedge.nn.functional.bs_lookback_price', check, [PROP], clause=clause, bounded=True)
    f = c08.fterm
    eps = tm.const(1e-30)
    return [
        mk('C09/bounded/lookback>=european[m>=0]', 'BOUNDED: lookback call >= European call on m >= 0',
           lambda: tm.ge(tm.add(f('lookback', 'price', None, LB_HI), eps), f('european', 'price', True, LB_HI)),
           'F.bs_lookback_price(x,m,t,v,strike=K) >= F.bs_european_price(x,t,v,strike=K) - 1e-12'),
        mk('C09/bounded/lookback>=locked-in[m>=0]', 'BOUNDED: lookback call >= K e^m - K (already locked in)',
           lambda: tm.ge(tm.add(f('lookback', 'price', None, LB_HI), eps), tm.sub(tm.mul(K, tm.app('exp', m)), K)),
           'F.bs_lookback_price(x,m,t,v,strike=K) >= K*m.exp() - K - 1e-12'),
    ]
