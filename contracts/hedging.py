"""Contracts of the hedging stack shared by C01, C02, C03, C13, C14, C16, C17, C18:
option mixin methods, features, feature containers, Hedger.compute_hedge / compute_pl /
compute_portfolio.  Every obligation is tagged with the properties it decides.

Scenario: real instruments from /repo whose buffers are symbolic (N, T) tensors - an arbitrary
simulated path set - so a proof covers every simulated path, every N and (where stated) every T."""
import time

from pfv import terms as tm
from pfv import smt, fc
from pfv.framework import Obligation, Verdict, real_exec
from pfv.proxies import explore, SReal, SInt, Unsupported, ctx, lift
import functools as _ft
_explore_raw = explore
explore = _ft.partial(_explore_raw, enforce_bounds=True)     # shim range assumptions (slices / indices) must be provable on every returning path

N, T, I = tm.var('N', 'I'), tm.var('T', 'I'), tm.var('i', 'I')
K, SIGMA, DT, B = tm.var('K'), tm.var('sigma'), tm.var('dt'), tm.var('B')
DIMS = [tm.ge(N, tm.IONE), tm.ge(T, tm.const(2, 'I')), tm.gt(K, tm.ZERO), tm.gt(DT, tm.ZERO), tm.gt(SIGMA, tm.ZERO)]
STEP = [tm.le(tm.IZERO, I), tm.lt(I, T)]
BUFFERS = ('spot', 'variance', 'volatility', 'spot2', 'variance2')

FEATURE_FUNCTIONS = [
    'pfhedge.instruments.derivative.base.OptionMixin.moneyness', 'pfhedge.instruments.derivative.base.OptionMixin.log_moneyness',
    'pfhedge.instruments.derivative.base.OptionMixin.time_to_maturity', 'pfhedge.instruments.derivative.base.OptionMixin.max_moneyness',
    'pfhedge.instruments.derivative.base.OptionMixin.max_log_moneyness',
    'pfhedge.features.features.Moneyness.get', 'pfhedge.features.features.TimeToMaturity.get', 'pfhedge.features.features.UnderlierSpot.get',
    'pfhedge.features.features.Spot.get', 'pfhedge.features.features.Volatility.get', 'pfhedge.features.features.Variance.get',
    'pfhedge.features.features.PrevHedge.get', 'pfhedge.features.features.Barrier.get', 'pfhedge.features.features.Zeros.get',
    'pfhedge.features.features.Ones.get', 'pfhedge.features.features.Empty.get', 'pfhedge.features.features.MaxMoneyness.get',
    'pfhedge.features._base.Feature.of', 'pfhedge.features._base.StateIndependentFeature.of', 'pfhedge.features._base.Feature.is_state_dependent',
    'pfhedge.features.container.FeatureList.get', 'pfhedge.features.container.FeatureList.of', 'pfhedge.features.container.FeatureList.is_state_dependent',
    'pfhedge.features.container.ModuleOutput.get', 'pfhedge.features.container.ModuleOutput.of',
    'pfhedge.instruments.primary.base.BasePrimary.spot', 'pfhedge.instruments.primary.base.BasePrimary.get_buffer',
    'pfhedge.instruments.primary.base.BasePrimary.register_buffer', 'pfhedge.instruments.derivative.base.BaseDerivative.ul',
    'pfhedge.instruments.derivative.base.BaseDerivative.spot',
    'pfhedge.instruments.primary.heston.HestonStock.volatility', 'pfhedge.instruments.primary.brownian.BrownianStock.volatility',
    'pfhedge.instruments.primary.brownian.BrownianStock.variance',
]
HEDGER_FUNCTIONS = [
    'pfhedge.nn.modules.hedger.Hedger.compute_hedge', 'pfhedge.nn.modules.hedger.Hedger.forward', 'pfhedge.nn.modules.hedger.Hedger.get_input',
    'pfhedge.nn.modules.hedger.Hedger._get_hedge', 'pfhedge.nn.modules.hedger.Hedger.compute_pl', 'pfhedge.nn.modules.hedger.Hedger.compute_portfolio',
    'pfhedge._utils.hook.save_prev_output', 'pfhedge.nn.modules.bs._base.BSModuleMixin.forward', 'pfhedge.nn.modules.bs._base.BSModuleMixin.inputs',
    'pfhedge.nn.modules.bs.black_scholes.BlackScholes.__new__', 'pfhedge.nn.modules.bs.european.BSEuropeanOption.delta',
    'pfhedge.nn.modules.ww.WhalleyWilmott.forward', 'pfhedge.nn.modules.naked.Naked.forward',
    'pfhedge.nn.functional.pl',
]


# ------------------------------------------------------------------ scenario builders (run inside explore)

def mk_derivative(kind='european', underlier='brownian', dtype=None, call=True, cost=None, name='spot'):
    """Real instruments with symbolic buffers.  Returns the derivative."""
    import torch
    from pfv.torchlib.tensor import Tensor
    import pfhedge.instruments as pi
    dt_ = dtype or torch.float64
    kw = {}
    if cost is not None:
        kw['cost'] = cost
    if underlier == 'brownian':
        s = pi.BrownianStock(sigma=SReal(SIGMA), dt=SReal(DT), dtype=dt_, **kw)
        s.register_buffer('spot', Tensor.input(name, (N, T), dt_))
    elif underlier == 'heston':
        s = pi.HestonStock(dt=SReal(DT), dtype=dt_, **kw)
        s.register_buffer('spot', Tensor.input(name, (N, T), dt_))
        s.register_buffer('variance', Tensor.input('variance' if name == 'spot' else 'variance2', (N, T), dt_))
    else:
        raise ValueError(underlier)
    cls = {'european': pi.EuropeanOption, 'lookback': pi.LookbackOption, 'american_binary': pi.AmericanBinaryOption,
           'european_binary': pi.EuropeanBinaryOption}[kind]
    d = cls(s, call=call, strike=SReal(K))
    return d


def assume_positive_spot(c, name='spot'):
    i_, j_ = c.fresh('pi', 'I'), c.fresh('pj', 'I')
    c.assume(tm.forall(i_, tm.IZERO, N, tm.forall(j_, tm.IZERO, T, tm.gt(tm.sel(name, i_, j_), tm.ZERO))))


def assume_nonneg(c, name):
    i_, j_ = c.fresh('pi', 'I'), c.fresh('pj', 'I')
    c.assume(tm.forall(i_, tm.IZERO, N, tm.forall(j_, tm.IZERO, T, tm.ge(tm.sel(name, i_, j_), tm.ZERO))))


FEATURES = {
    # name: (factory, underlier kinds, needs listing)
    'moneyness': (lambda: 'moneyness', ('brownian',), False),
    'log_moneyness': (lambda: 'log_moneyness', ('brownian',), False),
    'max_moneyness': (lambda: 'max_moneyness', ('brownian',), False),
    'max_log_moneyness': (lambda: 'max_log_moneyness', ('brownian',), False),
    'time_to_maturity': (lambda: 'time_to_maturity', ('brownian',), False),
    'expiry_time': (lambda: 'expiry_time', ('brownian',), False),
    'underlier_spot': (lambda: 'underlier_spot', ('brownian',), False),
    'underlier_log_spot': (lambda: _cls('UnderlierLogSpot')(), ('brownian',), False),
    'spot': (lambda: 'spot', ('brownian',), True),
    'log_spot': (lambda: _cls('Spot')(log=True), ('brownian',), True),
    'volatility': (lambda: 'volatility', ('brownian', 'heston'), False),
    'variance': (lambda: 'variance', ('brownian', 'heston'), False),
    'barrier_up': (lambda: _cls('Barrier')(SReal(B), up=True), ('brownian',), False),
    'barrier_down': (lambda: _cls('Barrier')(SReal(B), up=False), ('brownian',), False),
    'zeros': (lambda: 'zeros', ('brownian',), False),
    'ones': (lambda: _cls('Ones')(), ('brownian',), False),
    'empty': (lambda: 'empty', ('brownian',), False),
}


def _cls(name):
    import pfhedge.features.features as ff
    return getattr(ff, name)


def bound_feature(fname, underlier, dtype=None):
    """(derivative, bound feature).  A listed derivative's pricer returns an ALIAS of the underlier's
    buffer (worst case for the frame condition)."""
    from pfhedge.features import get_feature
    fac, _, listed = FEATURES[fname]
    d = mk_derivative(underlier=underlier, dtype=dtype)
    if listed:
        d.list(lambda dd: dd.ul().spot)
    c = ctx()
    assume_positive_spot(c)
    if underlier == 'heston':
        assume_nonneg(c, 'variance')
    return d, get_feature(fac()).of(d)


def _buffer_accesses(term):
    return [(g, a) for (g, a) in tm.accesses(term) if a.args[0] in BUFFERS]


# ------------------------------------------------------------------ feature obligations

def feature_obligations(seed):
    obs = []
    for fname, (fac, unders, listed) in FEATURES.items():
        for und in unders:
            tag = '%s@%s' % (fname, und)
            obs.append(feature_reads_ob(fname, und, tag, aspects=('reads', 'shape'), props=('C02', 'C13')))
            obs.append(feature_reads_ob(fname, und, tag, aspects=('frame',), props=('C16',)))
            obs.append(feature_consistency_ob(fname, und, tag))
            obs.append(feature_history_ob(fname, und, tag))
    obs.append(prev_hedge_ob())
    obs.append(feature_list_ob())
    obs.append(rebind_ob())
    return obs


def _explore_feature(fname, und, step, hyps):
    def run(c):
        d, f = bound_feature(fname, und)
        return f.get(SInt(I) if step else None)
    return explore(run, hyps, max_paths=16)


def feature_reads_ob(fname, und, tag, aspects=('reads', 'frame', 'shape'), props=('C02', 'C16', 'C13')):
    """C02: non-anticipation as a `reads` frame; C16: `modifies nothing`; shapes."""
    def check():
        t0 = time.time()
        nvc = 0
        sample = {'claim': 'reads(get(i)) within columns <= i; reads(get(None)[:, j]) within columns <= j; no in-place write to a buffer', 'feature': tag, 'accesses': []}
        for step in (True, False):
            hyps = DIMS + [tm.gt(B, tm.ZERO)] + (STEP if step else [])
            paths = _explore_feature(fname, und, step, hyps)
            for p in paths:
                if p.outcome() != 'returns':
                    return Verdict('unknown', 'engine', time.time() - t0, 'path %s: %s %s' % (p.outcome(), p.exception, p.traceback[-500:]), sample=sample)
                res = p.result
                n, j = tm.var('n', 'I'), tm.var('j', 'I')
                rng = [tm.le(tm.IZERO, n), tm.lt(n, N)] + ([] if step else [tm.le(tm.IZERO, j), tm.lt(j, T)])
                want_shape = (N, 1, 1) if step else (N, T, 1)
                from pfv.torchlib.tensor import ti
                if len(res._shape) != 3:
                    return Verdict('refuted', 'shape', time.time() - t0, 'rank %d' % len(res._shape), witness={'shape': str(res._shape)}, sample=sample, replay=_replay_feature(fname, und))
                facts = p.facts(hyps) + rng
                for a, b in zip(res._shape, want_shape):
                    if 'shape' not in aspects:
                        break
                    nvc += 1
                    r = smt.prove(facts, tm.eq(ti(a), ti(b)), timeout_ms=10000)
                    if r.status != 'unsat':
                        return Verdict('refuted' if r.status == 'sat' else 'unknown', r.backend, time.time() - t0, 'shape %s, expected %s' % (res._shape, want_shape),
                                       witness={'shape': str(res._shape)}, sample=sample, replay=_replay_feature(fname, und))
                col = I if step else j
                el = res.at((n, tm.IZERO, tm.IZERO) if step else (n, j, tm.IZERO))
                for (g, acc) in (_buffer_accesses(el) if 'reads' in aspects else []):
                    nvc += 1
                    goal = tm.le(acc.args[2], col)
                    r = smt.prove(facts + [g], goal, timeout_ms=10000)
                    if len(sample['accesses']) < 6:
                        sample['accesses'].append({'access': tm.show(acc), 'guard': tm.show(g)[:120], 'must_be_le': tm.show(col), 'status': r.status})
                    if r.status != 'unsat':
                        rp = _replay_feature(fname, und)
                        return Verdict('refuted' if r.status == 'sat' else 'unknown', r.backend, time.time() - t0,
                                       'feature %s at %s reads %s (a column that may be later than %s)' % (tag, 'step i' if step else 'column j', tm.show(acc), tm.show(col)),
                                       witness={'access': tm.show(acc), 'column_bound': tm.show(col)}, sample=sample, replay=rp)
                for (st, what) in (p.writes if 'frame' in aspects else []):
                    if st.origin != 'fresh' and not st.origin.startswith('leaf:'):
                        return Verdict('refuted', 'alias-analysis', time.time() - t0, 'feature %s writes in place (%s) into %s' % (tag, what, st.origin),
                                       witness={'written': st.origin, 'op': what}, sample=sample, replay=_replay_feature(fname, und))
                nvc += 1
        sample['n_vcs'] = nvc
        return Verdict('proved', 'z3 (LIA) + alias analysis', time.time() - t0, '%d VCs' % nvc, sample=sample)
    return Obligation('HS/feature/%s/%s' % (tag, '+'.join(aspects)), '+'.join(aspects), 'pfhedge.features.features', check, list(props),
                      clause='feature %s: %s' % (tag, ', '.join({'reads': 'non-anticipative (reads only columns <= step)', 'frame': 'modifies nothing', 'shape': 'shape (N,1,1)/(N,T,1)'}[a_] for a_ in aspects)))


def feature_consistency_ob(fname, und, tag):
    """C03: get(i)[n,0,0] == get(None)[n,i,0] for every step i (Empty: shape only)."""
    def check():
        t0 = time.time()
        hyps = DIMS + [tm.gt(B, tm.ZERO)] + STEP
        if fname == 'empty':
            return Verdict('proved', 'by contract', 0.0, 'Empty is uninitialised by contract: no value equality is claimed (shape is covered by the reads+frame obligation)',
                           sample={'claim': 'n/a for Empty'})

        def run(c):
            d, f = bound_feature(fname, und)
            # in every order of evaluation: step, all steps, the same step again, all steps again
            a = f.get(SInt(I))
            b = f.get(None)
            a2 = f.get(SInt(I))
            b2 = f.get(None)
            # ... and after the instrument has been re-simulated (new buffers of the same shape): nothing of the earlier
            # evaluations may survive in the bound feature
            import torch
            from pfv.torchlib.tensor import Tensor
            for bn in list(d.ul()._buffers):
                old_b = d.ul()._buffers[bn]
                if old_b is None:
                    continue
                d.ul().register_buffer(bn, Tensor.input(bn + 'B', old_b._shape, old_b.dtype))
                assume_positive_spot(c, bn + 'B')
            a3 = f.get(SInt(I))
            b3 = f.get(None)
            return a, b, a2, b2, a3, b3
        paths = explore(run, hyps, max_paths=16)
        n = tm.var('n', 'I')
        rng = [tm.le(tm.IZERO, n), tm.lt(n, N)]
        nvc = 0
        sample = {'claim': 'get(i)[n,0,0] == get(None)[n,i,0], whichever is evaluated first (and again after the other)', 'feature': tag}
        for p in paths:
            if p.outcome() != 'returns':
                return Verdict('unknown', 'engine', time.time() - t0, 'path %s: %s %s' % (p.outcome(), p.exception, p.traceback[-500:]), sample=sample)
            a, b, a2, b2, a3, b3 = p.result
            rhs0 = b.at((n, I, tm.IZERO))
            for (what, lhs, rhs) in (('get(i)', a.at((n, tm.IZERO, tm.IZERO)), rhs0), ('get(i) evaluated after get(None)', a2.at((n, tm.IZERO, tm.IZERO)), rhs0),
                                     ('get(None)[:, i] evaluated a second time', b2.at((n, I, tm.IZERO)), rhs0),
                                     ('get(i) after the instrument was re-simulated', a3.at((n, tm.IZERO, tm.IZERO)), b3.at((n, I, tm.IZERO)))):
                nvc += 1
                r = fc.prove_eq(p.facts(hyps) + rng, lhs, rhs, timeout_ms=20000)
                sample.update(step=tm.show(lhs)[:200], batch=tm.show(rhs)[:200], status=r.status)
                if r.status != 'unsat':
                    rp = _replay_feature(fname, und)
                    return Verdict('refuted' if (r.status == 'sat' and rp.get('confirmed')) else 'unknown', r.backend, time.time() - t0,
                                   '%s = %s but get(None)[:, i] = %s' % (what, tm.show(lhs)[:200], tm.show(rhs)[:200]), witness={'step': tm.show(lhs)[:300], 'batch': tm.show(rhs)[:300], 'order': what},
                                   sample=sample, replay=rp)
        return Verdict('proved', 'z3', time.time() - t0, '%d VCs' % nvc, sample=sample)
    return Obligation('HS/feature/%s/step==batch' % tag, 'post', 'pfhedge.features.features', check, ['C03'],
                      clause='feature %s evaluated at step i equals column i of the all-steps evaluation, for every i' % tag)


FEATURE_REPLAY = '''
import pfhedge.features.features as ff
from pfhedge.features import get_feature
from pfhedge.instruments import BrownianStock, HestonStock, EuropeanOption
torch.manual_seed(0)
und = HestonStock(dt=0.01) if W["und"] == "heston" else BrownianStock(sigma=0.3, dt=0.01)
d = EuropeanOption(und, strike=1.1, maturity=0.07)
d.simulate(n_paths=3)
d.to(torch.float64)
if W["listed"]: d.list(lambda dd: dd.ul().spot)
name = W["feature"]
spec = {"underlier_log_spot": lambda: ff.UnderlierLogSpot(), "log_spot": lambda: ff.Spot(log=True), "barrier_up": lambda: ff.Barrier(1.02, up=True),
        "barrier_down": lambda: ff.Barrier(0.98, up=False), "ones": lambda: ff.Ones()}
f = get_feature(spec[name]() if name in spec else name).of(d)
bufs = {k: b.clone() for k, b in d.ul().named_buffers()}
Tn = d.ul().spot.size(1)
full = f.get(None)
bad = []
for i in range(Tn):
    step = f.get(i)
    if name != "empty" and not torch.allclose(step[:, 0, 0], f.get(None)[:, i, 0], equal_nan=True): bad.append(("step!=batch", i))
# perturb the future: columns > i must not influence column i
for i in range(Tn - 1):
    base = f.get(None)[:, i, 0].clone(); bstep = f.get(i).clone()
    saved = {k: b.clone() for k, b in d.ul().named_buffers()}
    for k, b in d.ul().named_buffers(): b[:, i + 1:] = b[:, i + 1:] * 1.7 + 0.3
    if name != "empty" and (not torch.equal(base, f.get(None)[:, i, 0]) or not torch.equal(bstep, f.get(i))): bad.append(("anticipates", i))
    for k, b in d.ul().named_buffers(): b.copy_(saved[k])
for k, b in d.ul().named_buffers():
    if not torch.equal(b, bufs[k]): bad.append(("buffer-mutated", k))
# re-simulate: the bound feature must follow the new buffers in both forms
d.simulate(n_paths=3); d.to(torch.float64)
for i in range(Tn):
    if name != "empty" and not torch.allclose(f.get(i)[:, 0, 0], f.get(None)[:, i, 0], equal_nan=True): bad.append(("step!=batch after re-simulation", i))
result = {"got": [str(x) for x in bad], "ref": []}
'''


def _replay_feature(fname, und):
    r = real_exec(FEATURE_REPLAY, {'feature': fname, 'und': und, 'listed': FEATURES[fname][2]})
    ok = r.get('ok') and r['result']['got'] == []
    return {'real': r, 'confirmed': not ok, 'note': 'replay: real feature on simulated paths: step-vs-batch, perturb-the-future, buffers unchanged'}


def prev_hedge_ob():
    def check():
        t0 = time.time()
        import torch
        import pfhedge.nn as pnn
        from pfhedge.features import get_feature
        from pfv.torchlib.tensor import Tensor
        hold = {}

        def run(c):
            d = mk_derivative()
            h = pnn.Hedger(pnn.Naked(), ['prev_hedge'])
            buf = Tensor.input('prevbuf', (N, 1, 1), torch.float64)
            h.register_buffer('prev_output', buf, persistent=False)
            f = get_feature('prev_hedge').of(d, h)
            hold['buf'] = buf
            hold['dep'] = f.is_state_dependent()
            return f.get(SInt(I))
        paths = explore(run, DIMS + STEP, max_paths=4)
        if len(paths) != 1 or paths[0].outcome() != 'returns':
            return Verdict('unknown', 'engine', time.time() - t0, str([(p.outcome(), str(p.exception)[:200]) for p in paths]))
        res = paths[0].result
        same = res is hold['buf']
        if not same:
            # not the buffer object itself: accept any tensor with the buffer's shape and values (e.g. a copy)
            n_ = tm.var('n', 'I')
            same = (hasattr(res, '_shape') and len(res._shape) == 3 and res._shape[1] == 1 and res._shape[2] == 1
                    and smt.prove(paths[0].facts(DIMS + STEP), tm.eq(tm.as_term(lift(res._shape[0])), N), timeout_ms=5000).status == 'unsat'
                    and fc.prove_eq(paths[0].facts(DIMS + STEP) + [tm.le(tm.IZERO, n_), tm.lt(n_, N)], res.at((n_, tm.IZERO, tm.IZERO)), hold['buf'].at((n_, tm.IZERO, tm.IZERO)), timeout_ms=10000).status == 'unsat')
        if not same or not hold['dep']:
            return Verdict('refuted', 'structural + z3', time.time() - t0, 'PrevHedge.get(i) is not the hedger\'s prev_output buffer (shape (N,1,H), same values) / not state dependent', witness={}, replay=_replay_prev())

        def run2(c):
            d = mk_derivative()
            h = pnn.Hedger(pnn.Naked(), ['prev_hedge'])
            return get_feature('prev_hedge').of(d, h).get(None)
        p2 = explore(run2, DIMS, max_paths=4)
        # what get(None) does (it raises ValueError today) is documented behaviour outside the listed properties: recorded, not required
        return Verdict('proved', 'path-exploration', time.time() - t0, '', sample={'claim': 'PrevHedge.get(i) is hedger.prev_output (same values and shape); state dependent', 'get(None)': [p.outcome() for p in p2]})
    return Obligation('HS/feature/prev_hedge/post', 'post', 'pfhedge.features.features.PrevHedge.get', check, ['C03', 'C14', 'C16'],
                      clause='PrevHedge.get(i) returns the hedger\'s prev_output buffer (its values and shape); the feature is state dependent')


def rebind_ob():
    """C02/C03/C16: `of(derivative, hedger)` binds to the objects GIVEN, whatever the feature was bound to before:
    a ModuleOutput / FeatureList containing prev_hedge, used by one hedger and then handed to another hedger (and/or another
    derivative), reads the second hedger's own previous output and the second derivative's data - as a fresh feature does."""
    def check():
        t0 = time.time()
        import torch
        import pfhedge.nn as pnn
        import pfhedge.instruments as pi
        from pfhedge.features import ModuleOutput, FeatureList
        from pfv.torchlib.tensor import Tensor
        DT2 = tm.var('dt2')
        hyps = DIMS + [tm.gt(DT2, tm.ZERO), tm.gt(tm.var('K2'), tm.ZERO)] + STEP

        class _G(torch.nn.Module):
            def forward(self, x):
                rd = x.reader()
                Fn = x._shape[-1]
                return Tensor.fresh(lambda idx: tm.app('G', *[rd(idx[:-1] + (tm.const(k_, 'I'),)) for k_ in range(Fn)]), x._shape[:-1] + (1,), x.dtype, x.deps)
        rows = []
        for (what, same_derivative) in (('another hedger, same derivative', True), ('another hedger and another derivative', False)):
            for kind in ('ModuleOutput', 'FeatureList'):
                def run(c):
                    d = mk_derivative()
                    assume_positive_spot(c)
                    s2 = pi.BrownianStock(sigma=SReal(tm.var('sigma2')), dt=SReal(DT2), dtype=torch.float64)
                    s2.register_buffer('spot', Tensor.input('spot2', (N, T), torch.float64))
                    assume_positive_spot(c, 'spot2')
                    d2 = d if same_derivative else pi.EuropeanOption(s2, strike=SReal(tm.var('K2')))
                    h1, h2 = pnn.Hedger(pnn.Naked(), ['prev_hedge']), pnn.Hedger(pnn.Naked(), ['prev_hedge'])
                    h1.register_buffer('prev_output', Tensor.input('prevA', (N, 1, 1), torch.float64), persistent=False)
                    h2.register_buffer('prev_output', Tensor.input('prevB', (N, 1, 1), torch.float64), persistent=False)
                    mk = (lambda: ModuleOutput(_G(), inputs=['log_moneyness', 'prev_hedge'])) if kind == 'ModuleOutput' else (lambda: FeatureList(['log_moneyness', 'prev_hedge']))
                    f = mk()
                    g1 = f.of(d, h1)
                    g1.get(SInt(I))                       # used by the first hedger
                    g2 = f.of(d2, h2)                     # ... then handed to the second
                    fresh = mk().of(d2, h2)
                    return g2.get(SInt(I)), fresh.get(SInt(I))
                paths = explore(run, hyps + [tm.gt(tm.var('sigma2'), tm.ZERO)], max_paths=8)
                n, k = tm.var('n', 'I'), tm.var('k', 'I')
                for p in paths:
                    if p.outcome() != 'returns':
                        return Verdict('unknown', 'engine', time.time() - t0, 'path %s: %s %s' % (p.outcome(), p.exception, p.traceback[-500:]))
                    a, b = p.result
                    if len(a._shape) != len(b._shape) or a._shape[-1] != b._shape[-1]:
                        rows.append(('%s re-bound to %s: shape' % (kind, what), 'refuted', '%s vs %s' % (a._shape, b._shape)))
                        continue
                    for col in range(a._shape[-1]):
                        r = fc.prove_eq(p.facts(hyps) + [tm.le(tm.IZERO, n), tm.lt(n, N)], a.at((n, tm.IZERO, tm.const(col, 'I'))), b.at((n, tm.IZERO, tm.const(col, 'I'))), timeout_ms=20000)
                        rows.append(('%s re-bound to %s equals a fresh one (column %d)' % (kind, what, col), {'unsat': 'proved', 'sat': 'refuted'}.get(r.status, 'unknown'),
                                     '%s vs %s' % (tm.show(a.at((n, tm.IZERO, tm.const(col, 'I'))))[:150], tm.show(b.at((n, tm.IZERO, tm.const(col, 'I'))))[:150]) if r.status != 'unsat' else ''))
        bad = [r for r in rows if r[1] == 'refuted']
        unk = [r for r in rows if r[1] == 'unknown']
        sample = {'claim': 'of(derivative, hedger) binds to the given objects regardless of earlier bindings', 'vcs': [{'vc': r[0], 'status': r[1]} for r in rows]}
        if bad:
            return Verdict('refuted', 'z3', time.time() - t0, '; '.join('%s: %s' % (r[0], r[2]) for r in bad)[:600], witness={'failed': [r[0] for r in bad]}, sample=sample, replay=_replay_rebind())
        if unk:
            return Verdict('unknown', 'z3', time.time() - t0, '; '.join('%s: %s' % (r[0], r[2]) for r in unk)[:600], sample=sample)
        return Verdict('proved', 'z3', time.time() - t0, '%d VCs' % len(rows), sample=sample)
    return Obligation('HS/feature/of/rebinding', 'post', 'pfhedge.features.container.ModuleOutput.of', check, ['C02', 'C03', 'C16'],
                      clause='a ModuleOutput / FeatureList (with prev_hedge inside) that was bound to one hedger and derivative and is then bound to another equals a freshly built one: it reads the second hedger\'s previous output and the second derivative\'s data')


REBIND_REPLAY = '''
import pfhedge.nn as pnn
from pfhedge.features import ModuleOutput
from pfhedge.instruments import BrownianStock, EuropeanOption
torch.manual_seed(2)
bad = []
d = EuropeanOption(BrownianStock(sigma=0.3, dt=0.01), strike=1.02, maturity=0.06); d.simulate(n_paths=5)
layer = torch.nn.Sequential(torch.nn.Linear(2, 2), torch.nn.Tanh())
shared = ModuleOutput(layer, inputs=["log_moneyness", "prev_hedge"])
h1 = pnn.Hedger(torch.nn.Linear(2, 1), [shared]); h2 = pnn.Hedger(torch.nn.Linear(2, 1), [shared])
with torch.no_grad():
    h2.model.weight.mul_(3.0).add_(0.5)
def reference(h):
    # explicit recursion with THIS hedger's own previous output
    s = d.ul().spot; prev = torch.zeros(5, 1); outs = []
    for t in range(s.size(1) - 1):
        x = torch.stack([(s[:, t] / 1.02).log(), prev[:, 0]], dim=-1)
        prev = h.model(layer(x)); outs.append(prev)
    outs.append(outs[-1])
    return torch.stack(outs, dim=-1).transpose(1, 2).transpose(1, 2)
with torch.no_grad():
    for rnd in range(2):
        for nm, h in (("first hedger", h1), ("second hedger", h2)):
            got = h.compute_hedge(d)
            ref = reference(h)
            if got.shape != ref.shape or not torch.allclose(got, ref, atol=1e-6): bad.append((nm, "round %d" % rnd, float((got - ref).abs().max()) if got.shape == ref.shape else str(tuple(got.shape))))
# a bound FeatureList evaluated at a step, the derivative re-simulated, evaluated at a LATER step (never passing step 0 again)
from pfhedge.features import FeatureList
fl = FeatureList(["log_moneyness", "time_to_maturity"]).of(d)
fl.get(2)
d.simulate(n_paths=5)
fresh = FeatureList(["log_moneyness", "time_to_maturity"]).of(d)
for i in (3, 1):
    if not torch.allclose(fl.get(i), fresh.get(i), atol=1e-7): bad.append(("FeatureList", "step %d after re-simulation differs from a fresh list" % i))
d2 = EuropeanOption(BrownianStock(sigma=0.2, dt=0.02), strike=0.9, maturity=0.12); d2.simulate(n_paths=5)
re = fl.of(d2); fresh2 = FeatureList(["log_moneyness", "time_to_maturity"]).of(d2)
if not torch.allclose(re.get(3), fresh2.get(3), atol=1e-7): bad.append(("FeatureList", "re-bound to another derivative differs from a fresh list"))
result = {"got": [str(b) for b in bad], "ref": []}
'''


def _replay_rebind():
    r = real_exec(REBIND_REPLAY, {}, timeout=300)
    ok = r.get('ok') and r['result']['got'] == []
    return {'real': r, 'confirmed': not ok, 'note': 'replay: two hedgers sharing one ModuleOutput feature with prev_hedge among its inputs, evaluated alternately, each against an explicit recursion with its own previous output'}


def feature_list_ob():
    def check():
        t0 = time.time()
        from pfhedge.features import FeatureList
        hold = {}

        def run(c):
            d = mk_derivative()
            assume_positive_spot(c)
            fl0 = FeatureList(['log_moneyness', 'time_to_maturity', 'volatility'])
            fl = fl0.of(d)
            hold['same_list'] = fl0.features is fl.features
            hold['unbound'] = all(not hasattr(f, 'derivative') for f in fl0.features)
            hold['dep'] = fl.is_state_dependent()
            hold['len'] = len(fl)
            return fl.get(SInt(I)), [f.get(SInt(I)) for f in fl.features]
        paths = explore(run, DIMS + STEP, max_paths=4)
        if len(paths) != 1 or paths[0].outcome() != 'returns':
            return Verdict('unknown', 'engine', time.time() - t0, str([(p.outcome(), p.traceback[-300:]) for p in paths]))
        catd, parts = paths[0].result
        n = tm.var('n', 'I')
        facts = paths[0].facts(DIMS + STEP) + [tm.le(tm.IZERO, n), tm.lt(n, N)]
        for k, part in enumerate(parts):
            r = smt.prove(facts, tm.eq(catd.at((n, tm.IZERO, tm.const(k, 'I'))), part.at((n, tm.IZERO, tm.IZERO))), timeout_ms=10000)
            if r.status != 'unsat':
                return Verdict('refuted' if r.status == 'sat' else 'unknown', r.backend, time.time() - t0, 'FeatureList.get column %d is not feature %d' % (k, k), witness={'column': k}, replay={'confirmed': False})
        if hold['same_list'] or not hold['unbound'] or hold['dep'] or hold['len'] != 3 or catd._shape[2] != 3:
            return Verdict('refuted', 'structural', time.time() - t0, 'FeatureList.of/len/is_state_dependent: %s' % hold, witness={k: str(v) for k, v in hold.items()}, replay={'confirmed': False})
        return Verdict('proved', 'z3 + structural', time.time() - t0, '', sample={'claim': 'FeatureList.get = concatenation in list order; of() returns a copy and leaves self.features unbound'})
    return Obligation('HS/FeatureList/post', 'post+frame', 'pfhedge.features.container.FeatureList.get', check, ['C03', 'C16'],
                      clause='FeatureList.get concatenates the features in list order on the last axis; of() binds copies and leaves the original list untouched')


# ------------------------------------------------------------------ hedger scenarios

class UserModel:
    """Factory for an uninterpreted user module that is point-wise in time (the documented (N,*,F) ->
    (N,*,H) contract): out[n, t, h] = M(h, in[n, t, 0..F-1]).  Optionally records its inputs."""
    @staticmethod
    def make(H, record=None, ignore_last=0, name='M', params=('theta',), noisy=False):
        import torch
        from pfv.torchlib.tensor import Tensor
        from pfv.torchlib import nn as tn

        class _User(torch.nn.Module):
            def __init__(self):
                super().__init__()
                self.theta = tn.make_parameter(params[0], (), torch.float64)

            def forward(self, input):
                if record is not None:
                    record.append(input)
                F = input._shape[-1] - ignore_last
                rd = input.reader()
                th = self.theta.reader()
                shape = input._shape[:-1] + (H,)
                nz = None
                if noisy:
                    # a stochastic layer (dropout in training mode): a fresh random mask per forward call, one draw per (path, step)
                    from pfv.torchlib import tensor as tt_
                    nz = tt_._random('U', input._shape[:-1], input.dtype).reader()

                def f(idx):
                    args = [rd(idx[:-1] + (tm.const(k, 'I'),)) for k in range(F)]
                    if nz is not None:
                        args.append(nz(idx[:-1]))
                    return tm.app(name, idx[-1], th(()), *args)
                return Tensor.fresh(f, shape, input.dtype, input.deps | self.theta.deps)
        return _User()


def mk_hedger(model_kind, d, H=1, feats=None, record=None, criterion=None):
    import torch
    import pfhedge.nn as pnn
    if model_kind == 'bs':
        model = pnn.BlackScholes(d)
        feats = model.inputs()
    elif model_kind == 'ww':
        model = pnn.WhalleyWilmott(d)
        feats = model.inputs()
    elif model_kind == 'naked':
        model = pnn.Naked(H)
        feats = feats or ['log_moneyness', 'time_to_maturity']
    elif model_kind == 'linear':
        feats = feats or ['log_moneyness', 'time_to_maturity', 'volatility']
        model = torch.nn.Linear(len(feats) + (H - 1 if 'prev_hedge' in feats else 0), H)
    elif model_kind == 'user':
        feats = feats or ['log_moneyness', 'time_to_maturity', 'volatility']
        model = UserModel.make(H, record)
    elif model_kind == 'noisy':
        feats = feats or ['log_moneyness', 'time_to_maturity', 'volatility']
        model = UserModel.make(H, record, noisy=True)        # e.g. a net with Dropout, in training mode
    elif model_kind == 'module_output':
        # a ModuleOutput feature (point-wise parameter-free module G of two features) next to a plain feature
        from pfhedge.features import ModuleOutput
        from pfv.torchlib.tensor import Tensor as _T

        class _G(torch.nn.Module):
            def forward(self, x):
                rd = x.reader()
                Fn = x._shape[-1]
                return _T.fresh(lambda idx: tm.app('G', *[rd(idx[:-1] + (tm.const(k_, 'I'),)) for k_ in range(Fn)]), x._shape[:-1] + (1,), x.dtype, x.deps)
        feats = [ModuleOutput(_G(), inputs=['log_moneyness', 'volatility']), 'time_to_maturity']
        model = UserModel.make(H, record)
    elif model_kind == 'identity':
        model = torch.nn.Identity()     # output aliases the input: the worst case for the frame condition
    else:
        raise ValueError(model_kind)
    kw = {} if criterion is None else {'criterion': criterion}
    return pnn.Hedger(model, feats, **kw), feats


def mk_hedge_list(d, H, cost2=None):
    """hedge instruments: the underlier, plus (H >= 2) further primaries with their own buffers, plus a
    listed derivative for H == 3."""
    import torch
    import pfhedge.instruments as pi
    from pfv.torchlib.tensor import Tensor
    hs = [d.ul()]
    if H >= 2:
        s2 = pi.BrownianStock(sigma=SReal(SIGMA), dt=SReal(DT), dtype=torch.float64, cost=SReal(tm.var('c2')))
        s2.register_buffer('spot', Tensor.input('spot2', (N, T if isinstance(T, tm.T) else T), torch.float64))
        hs.append(s2)
    if H >= 3:
        import pfhedge.instruments as pi2
        d2 = pi2.EuropeanOption(d.ul(), strike=SReal(K))
        d2.list(lambda dd: dd.ul().spot * 0.5 + 1.0, cost=SReal(tm.var('c3')))
        hs.append(d2)
    return hs


def _set_T(tval):
    """Temporarily make the module-level T concrete (for the step-by-step branch)."""
    global T
    old = T
    T = tval
    return old


def hedge_footprint_ob(model_kind, H, stepwise, Tc=None, dkind='european', und='brownian', aspects=('reads', 'last', 'shape'), props=('C02', 'C13'), feats_override=None):
    """C02: shape, last column, reads footprint of Hedger.compute_hedge; C16: frame."""
    tag = '%s,H=%d,%s%s,%s%s' % (model_kind, H, 'stepwise' if stepwise else 'vectorised', ',T=%d' % Tc if Tc else ',all T', dkind, (',' + '+'.join(feats_override)) if feats_override else '')
    if und != 'brownian':
        tag += ',' + und

    def check():
        t0 = time.time()
        global T
        Tsym = T
        Tloc = tm.const(Tc, 'I') if Tc else Tsym
        hyps = [h for h in DIMS] + [tm.ge(tm.var('c1'), tm.ZERO), tm.ge(tm.var('c2'), tm.ZERO), tm.gt(tm.var('a'), tm.ZERO)]
        if Tc:
            hyps = hyps + [tm.eq(Tsym, Tloc)]
        old = _set_T(Tc if Tc else Tsym)
        try:
            def run(c):
                d = mk_derivative(kind=dkind, underlier=und, cost=SReal(tm.var('c1')))
                assume_positive_spot(c)
                if und == 'heston':
                    assume_nonneg(c, 'variance')
                if H >= 2:
                    assume_positive_spot(c, 'spot2')
                feats = None
                if model_kind in ('linear', 'user', 'naked', 'noisy'):
                    feats = ['log_moneyness', 'time_to_maturity', 'volatility'] + (['prev_hedge'] if stepwise else [])
                if feats_override:
                    feats = list(feats_override)
                hedger, feats = mk_hedger(model_kind, d, H, feats)
                hs = mk_hedge_list(d, H)
                return hedger.compute_hedge(d, hedge=hs if H >= 2 else None), hedger
            paths = explore(run, hyps, max_paths=32)
        except Unsupported as e:
            return Verdict('unknown', 'engine', time.time() - t0, 'out of reach: %s' % e)
        finally:
            _set_T(old)
        from pfv.torchlib.tensor import ti
        nvc = 0
        sample = {'claim': 'shape (N,H,T); hedge[:,:,T-1] == hedge[:,:,T-2]; reads(hedge[:,:,j]) within columns <= j; no buffer written', 'scenario': tag, 'accesses': 0}
        for p in paths:
            if p.outcome() != 'returns':
                return Verdict('unknown', 'engine', time.time() - t0, 'path %s: %s %s' % (p.outcome(), p.exception, p.traceback[-700:]), sample=sample)
            hedge, hedger = p.result
            facts = p.facts(hyps)
            want = (N, H, Tloc)
            if len(hedge._shape) != 3:
                return Verdict('refuted', 'shape', time.time() - t0, 'rank %d' % len(hedge._shape), witness={}, sample=sample, replay=_replay_hedger())
            for a, b in zip(hedge._shape, want):
                if 'shape' not in aspects:
                    break
                nvc += 1
                r = smt.prove(facts, tm.eq(ti(a), ti(b)), timeout_ms=10000)
                if r.status != 'unsat':
                    return Verdict('refuted' if r.status == 'sat' else 'unknown', r.backend, time.time() - t0, 'hedge shape %s, expected %s' % (hedge._shape, want), witness={'shape': str(hedge._shape)}, sample=sample, replay=_replay_hedger())
            n, h = tm.var('n', 'I'), tm.var('h', 'I')
            rng = [tm.le(tm.IZERO, n), tm.lt(n, N), tm.le(tm.IZERO, h), tm.lt(h, tm.const(H, 'I'))]
            cols = [tm.const(k, 'I') for k in range(Tc)] if Tc else [tm.var('j', 'I')]
            if not ('reads' in aspects or 'last' in aspects):
                cols = []
            for col in cols:
                crng = [] if Tc else [tm.le(tm.IZERO, col), tm.lt(col, Tsym)]
                for hh in range(H):
                    el = hedge.at((n, tm.const(hh, 'I'), col))
                    # last column equals the previous one
                    last = tm.sub(Tloc, tm.IONE)
                    prev = hedge.at((n, tm.const(hh, 'I'), tm.sub(Tloc, tm.const(2, 'I'))))
                    if ('last' in aspects) and (Tc is None or col.args[0] == Tc - 1):
                        nvc += 1
                        r = fc.prove_eq(facts + rng + crng + [tm.eq(col, last)], el, prev, timeout_ms=20000)
                        if r.status != 'unsat':
                            return Verdict('refuted' if r.status == 'sat' else 'unknown', r.backend, time.time() - t0, 'hedge at the final index differs from the one held over the last step (a trade at maturity)',
                                           witness={'final': tm.show(el)[:300], 'previous': tm.show(prev)[:300]}, sample=sample, replay=_replay_hedger())
                    for (g, acc) in (_buffer_accesses(el) if 'reads' in aspects else []):
                        nvc += 1
                        sample['accesses'] += 1
                        # columns <= j, and for the final index <= T-2
                        bound = tm.ite(tm.eq(col, last), tm.sub(Tloc, tm.const(2, 'I')), col)
                        r = smt.prove(facts + rng + crng + [g], tm.le(acc.args[2], bound), timeout_ms=10000)
                        if r.status != 'unsat':
                            return Verdict('refuted' if r.status == 'sat' else 'unknown', r.backend, time.time() - t0,
                                           'hedge at time index %s reads %s: market data later than allowed' % (tm.show(col), tm.show(acc)),
                                           witness={'access': tm.show(acc), 'time_index': tm.show(col)}, sample=sample, replay=_replay_hedger())
            for (st, what) in (p.writes if 'frame' in aspects else []):
                if st.origin != 'fresh' and not st.origin.startswith('leaf:'):
                    return Verdict('refuted', 'alias-analysis', time.time() - t0, 'compute_hedge writes in place (%s) into %s' % (what, st.origin),
                                   witness={'written': st.origin, 'op': what}, sample=sample, replay=_replay_hedger())
            nvc += 1
        sample['n_vcs'] = nvc
        return Verdict('proved', 'z3 (LIA/UF) + alias analysis', time.time() - t0, '%d path(s), %d VCs' % (len(paths), nvc), sample=sample)
    return Obligation('HS/compute_hedge/%s[%s]' % ('+'.join(aspects), tag), '+'.join(aspects), 'pfhedge.nn.modules.hedger.Hedger.compute_hedge', check, list(props),
                      clause='compute_hedge [%s]: %s' % (tag, ', '.join({'shape': 'shape (N,H,T)', 'last': 'final index = previous (no trade at maturity)', 'reads': 'non-anticipative', 'frame': 'modifies no market data'}[a_] for a_ in aspects)))


HEDGER_REPLAY = '''
import pfhedge.nn as pnn
from pfhedge.instruments import BrownianStock, HestonStock, EuropeanOption, LookbackOption
torch.manual_seed(1)
bad = []
def scen(kind):
    und = BrownianStock(sigma=0.3, dt=0.01, cost=1e-3)
    d = EuropeanOption(und, strike=1.05, maturity=0.06)
    und2 = BrownianStock(sigma=0.2, dt=0.01, cost=2e-3)
    return d, und2
for kind in ("bs", "ww", "lin", "lin-prev", "lin2", "lin2-prev", "naked", "identity", "module-output", "dropout", "dropout2"):
    d, und2 = scen(kind)
    d.simulate(n_paths=4); und2.simulate(n_paths=4, time_horizon=0.06)
    hedge = [d.ul(), und2] if "2" in kind else None
    H = 2 if "2" in kind else 1
    torch.manual_seed(5)
    if kind == "bs": hedger = pnn.Hedger(pnn.BlackScholes(d), pnn.BlackScholes(d).inputs())
    elif kind == "ww": hedger = pnn.Hedger(pnn.WhalleyWilmott(d), pnn.WhalleyWilmott(d).inputs())
    elif kind == "naked": hedger = pnn.Hedger(pnn.Naked(), ["log_moneyness"])
    elif kind == "identity": hedger = pnn.Hedger(torch.nn.Identity(), ["underlier_spot"])
    elif kind == "module-output":
        from pfhedge.features import ModuleOutput
        mo = ModuleOutput(torch.nn.Sequential(torch.nn.Linear(2, 1), torch.nn.Tanh()), inputs=["log_moneyness", "volatility"])
        hedger = pnn.Hedger(torch.nn.Linear(2, 1), [mo, "time_to_maturity"])
    elif kind.startswith("dropout"):
        hedger = pnn.Hedger(torch.nn.Sequential(torch.nn.Linear(3, 8), torch.nn.ReLU(), torch.nn.Dropout(0.5), torch.nn.Linear(8, H)), ["log_moneyness", "time_to_maturity", "volatility"])
        hedger.train()
    else:
        feats = ["log_moneyness", "time_to_maturity", "volatility"] + (["prev_hedge"] if "prev" in kind else [])
        hedger = pnn.Hedger(torch.nn.Sequential(torch.nn.Linear(3 + (H if "prev" in kind else 0), H), torch.nn.Tanh()), feats)
    bufs = [b.clone() for b in d.ul().buffers()] + [b.clone() for b in und2.buffers()]
    with torch.enable_grad():
        out = hedger.compute_hedge(d, hedge=hedge)
    Tn = d.ul().spot.size(1)
    if tuple(out.shape) != (4, H, Tn): bad.append((kind, "shape", tuple(out.shape)))
    if not torch.equal(out[..., -1], out[..., -2]): bad.append((kind, "trade at maturity"))
    for j in (range(Tn - 1) if not kind.startswith("dropout") else ()):      # a stochastic model draws new noise on every evaluation
        saved = [b.clone() for b in d.ul().buffers()] + [b.clone() for b in und2.buffers()]
        for b in list(d.ul().buffers()) + list(und2.buffers()): b[:, j + 1:] = b[:, j + 1:] * 1.3 + 0.1
        out2 = hedger.compute_hedge(d, hedge=hedge)
        if kind != "identity" and not torch.allclose(out[..., : j + 1], out2[..., : j + 1], atol=1e-12): bad.append((kind, "anticipates", j))
        for b, s in zip(list(d.ul().buffers()) + list(und2.buffers()), saved): b.copy_(s)
    for b, s in zip(list(d.ul().buffers()) + list(und2.buffers()), bufs):
        if not torch.equal(b, s): bad.append((kind, "buffer mutated"))
# long horizons (hundreds of steps): shape, no trade at maturity, and the hedge equals an explicit step-by-step recursion
for (Tn_, kind) in ((301, "lin-prev"), (401, "ww")):
    und = BrownianStock(sigma=0.3, dt=0.01, cost=1e-3); d = EuropeanOption(und, strike=1.05, maturity=(Tn_ - 1) * 0.01); d.simulate(n_paths=2)
    torch.manual_seed(5)
    if kind == "ww":
        model = pnn.WhalleyWilmott(d); feats = model.inputs()
    else:
        model = torch.nn.Sequential(torch.nn.Linear(4, 1), torch.nn.Tanh()); feats = ["log_moneyness", "time_to_maturity", "volatility", "prev_hedge"]
    hedger = pnn.Hedger(model, feats)
    with torch.no_grad():
        out = hedger.compute_hedge(d)
        s = und.spot; prev = torch.zeros(2, 1); ref = []
        for t in range(Tn_ - 1):
            x = torch.stack([(s[:, t] / 1.05).log(), torch.full((2,), (Tn_ - 1 - t) * 0.01), torch.full((2,), 0.3), prev[:, 0]], dim=-1)
            prev = model(x); ref.append(prev[:, 0])
        ref.append(ref[-1]); ref = torch.stack(ref, dim=-1)
    if tuple(out.shape) != (2, 1, Tn_): bad.append((kind, "T=%d" % Tn_, "shape", tuple(out.shape)))
    elif not torch.equal(out[..., -1], out[..., -2]): bad.append((kind, "T=%d" % Tn_, "trade at maturity"))
    elif not torch.allclose(out[:, 0, :], ref, atol=1e-5): bad.append((kind, "T=%d" % Tn_, "differs from the step-by-step recursion", float((out[:, 0, :] - ref).abs().max())))
result = {"got": [str(b) for b in bad], "ref": []}
'''


def _replay_hedger():
    r = real_exec(HEDGER_REPLAY, {}, timeout=600)
    ok = r.get('ok') and r['result']['got'] == []
    return {'real': r, 'confirmed': not ok, 'note': 'replay: real hedgers (BS, WW, linear nets with/without prev_hedge, H=1,2) on simulated paths: shape, last column, perturb-the-future, buffers unchanged; horizons of 301 and 401 steps against an explicit step-by-step recursion'}


# ------------------------------------------------------------------ the step-by-step loop of compute_hedge, cut by an invariant (all T)

def _loop_spec(H, on_preserve=None, extra_inv=None, extra_lemmas=None):
    """LoopSpec for `for time_step in range(n_steps - 1)` of Hedger.compute_hedge.
    State: the list `outputs` (havocked as a SymList: one stacked tensor hvS (N, L, H) for the L outputs so far),
    the loop variable, and on the heap the hedger's buffer prev_output (havocked as hvP (N,1,H)).
    Invariant:  len(outputs) == time_step  and  prev_output == the last output (zeros (N,1,H) before the first step).
    Ghost footprint invariant (checked by `_footprint_rows`): outputs[k] reads market data of columns <= k only."""
    import torch
    from pfv import cutloops
    from pfv.torchlib.tensor import Tensor
    Hc = tm.const(H, 'I')

    def heap_havoc(state):
        P = Tensor.input('hvP', (N, 1, H), torch.float64, origin='fresh')
        state['self'].register_buffer('prev_output', P, persistent=False)

    def havoc_outputs(old, c):
        L = SInt(c.fresh('hvL', 'I'))
        return cutloops.SymList(Tensor.input('hvS', (N, L, H), torch.float64, origin='fresh'), L)

    def elem(outs, n, k, h):
        phys = list(list.__iter__(outs))
        L = lift(outs.stacked_len)
        val = phys[0].at((n, k, h))
        for j_, it in enumerate(phys[1:]):
            val = tm.ite(tm.lt(k, tm.add(L, tm.const(j_, 'I'))), val, it.at((n, tm.IZERO, h)))
        return val

    def inv(state, state0):
        outs, i = state['outputs'], lift(state['time_step'])
        P = state['self'].get_buffer('prev_output')
        if state is state0:
            ctx().notes.append(('entry', P))        # loop entry: the ghost footprint of prev_output must start empty
        n, h = tm.fresh('in', 'I'), tm.fresh('ih', 'I')
        rows = [('len(outputs) == time_step', tm.eq(cutloops.list_len(outs), i))]
        prev = tm.ite(tm.eq(i, tm.IZERO), tm.ZERO, elem(outs, n, tm.sub(i, tm.IONE), h)) if isinstance(outs, cutloops.SymList) else tm.ZERO
        shape_ok = len(P._shape) == 3 and P._shape[1] == 1 and P._shape[2] == H
        rows.append(('prev_output has shape (N, 1, H)', tm.TRUE if shape_ok else tm.FALSE))
        if shape_ok:
            rows.append(('prev_output == the last output (zeros before the first step)',
                         tm.forall(n, tm.IZERO, N, tm.forall(h, tm.IZERO, Hc, tm.eq(P.at((n, tm.IZERO, h)), prev)))))
        if extra_inv is not None and isinstance(outs, cutloops.SymList):
            rows += extra_inv(state, lambda n_, k_, h_: elem(outs, n_, k_, h_))
        return rows

    def lemmas(state):
        if on_preserve is not None:
            on_preserve(state)
        return extra_lemmas(state) if extra_lemmas is not None else []
    return cutloops.LoopSpec(inv, name='for time_step', havoc={'outputs': havoc_outputs}, heap_havoc=heap_havoc, lemmas=lemmas)


def _mk_static(spec):
    """a declared static feature of a layout: a built-in name, or ('G2', [inputs]) = a ModuleOutput with TWO output columns (uninterpreted G2)"""
    from pfhedge.features import get_feature, ModuleOutput
    if isinstance(spec, str):
        return get_feature(spec)
    import torch
    from pfv.torchlib.tensor import Tensor

    class _G2(torch.nn.Module):
        def forward(self, x):
            rd = x.reader()
            Fn = x._shape[-1]
            return Tensor.fresh(lambda idx: tm.app('G2', idx[-1], *[rd(idx[:-1] + (tm.const(k_, 'I'),)) for k_ in range(Fn)]), x._shape[:-1] + (2,), x.dtype, x.deps)
    return ModuleOutput(_G2(), inputs=list(spec[1]))


def hedge_loop_ob(model_kind, H, aspects=('reads', 'last', 'shape', 'prev'), props=('C02', 'C13'), und='brownian', dkind='european', prev_first=False, layout=None):
    """compute_hedge, state-dependent branch, for EVERY number of steps: the real loop cut by the invariant of `_loop_spec`.
    layout (user model only): the declared feature list as specs, 'prev_hedge' marking the recurrent block, e.g.
    [('G2', ['moneyness', 'time_to_maturity']), 'prev_hedge', 'time_to_maturity'] - a multi-column static feature before prev_hedge."""
    tag = '%s,H=%d,stepwise,all T (loop invariant),%s%s%s%s' % (model_kind, H, dkind, (',' + und) if und != 'brownian' else '', ',prev_hedge declared first' if prev_first else '',
                                                              (',layout ' + '|'.join(x if isinstance(x, str) else 'ModuleOutput(2 columns)' for x in layout)) if layout else '')
    STATIC = ['log_moneyness', 'time_to_maturity', 'volatility']
    if layout is None:
        layout = (['prev_hedge'] + STATIC) if prev_first else (STATIC + ['prev_hedge'])
    WIDTH = lambda spec: 2 if not isinstance(spec, str) else (H if spec == 'prev_hedge' else 1)

    def check():
        t0 = time.time()
        from pfv import cutloops
        from pfv.torchlib.tensor import ti
        from pfhedge.nn.modules.hedger import Hedger
        hyps = [h for h in DIMS] + [tm.ge(tm.var('c1'), tm.ZERO), tm.ge(tm.var('c2'), tm.ZERO), tm.gt(tm.var('a'), tm.ZERO)]
        holder = {}

        def on_preserve(state):
            # what the declared static features are at the step just executed (their own contracts are the HS/feature obligations)
            from pfhedge.features import get_feature
            exp_cols = []
            if model_kind == 'user':
                i_prev = state['time_step'] - 1
                exp_cols = [None if spec == 'prev_hedge' else _mk_static(spec).of(state['derivative']).get(i_prev) for spec in layout]
            ctx().notes.append(('iter', state['outputs'], lift(state['time_step']), list(rec), state['self'].get_buffer('prev_output'), exp_cols))
        rec = []
        cut, info = cutloops.cut(Hedger.compute_hedge, {0: _loop_spec(H, on_preserve)})

        def run(c):
            del rec[:]
            d = mk_derivative(kind=dkind, underlier=und, cost=SReal(tm.var('c1')))
            assume_positive_spot(c)
            if und == 'heston':
                assume_nonneg(c, 'variance')
            if H >= 2:
                assume_positive_spot(c, 'spot2')
            feats = [(_mk_static(spec) if not isinstance(spec, str) else spec) for spec in layout] if model_kind == 'user' else None
            if model_kind == 'user':
                import pfhedge.nn as pnn
                hedger = pnn.Hedger(UserModel.make(H, record=rec), feats)
            else:
                hedger, feats = mk_hedger(model_kind, d, H, feats)
            hs = mk_hedge_list(d, H)
            # arbitrary call history: the hedger has been evaluated before on a batch of the same size, so an arbitrary
            # (N, 1, H) tensor is sitting in its prev_output buffer; nothing of it may survive into this evaluation
            import torch
            from pfv.torchlib.tensor import Tensor
            hedger.register_buffer('prev_output', Tensor.input('STALE', (N, 1, H), torch.float64, origin='fresh'), persistent=False)
            return cut(hedger, d, hedge=hs if H >= 2 else None), hedger
        try:
            paths = explore(run, hyps, max_paths=32)
        except Unsupported as e:
            return Verdict('unknown', 'engine', time.time() - t0, 'out of reach: %s' % e)
        sample = {'claim': 'loop invariant of the step loop; shape (N,H,T); no trade at maturity; ghost footprint: output k reads columns <= k; prev_hedge = previous output', 'scenario': tag,
                  'rewritten': info['rewritten'][-900:], 'accesses': 0}
        rows = []
        n, h, j = tm.var('n', 'I'), tm.var('h', 'I'), tm.var('j', 'I')
        Hc = tm.const(H, 'I')
        rng = [tm.le(tm.IZERO, n), tm.lt(n, N), tm.le(tm.IZERO, h), tm.lt(h, Hc)]
        seen_iter = seen_exit = False

        def st(r):
            return {'unsat': 'proved', 'sat': 'refuted'}.get(r.status, 'unknown')

        def footprint(el, facts, bound_buf, bound_S, where):
            out = []
            for (g, acc) in tm.accesses(el):
                nm_ = acc.args[0]
                if nm_ in BUFFERS:
                    b = bound_buf
                elif nm_ == 'hvS':
                    b = bound_S
                elif nm_ == 'STALE':
                    # state left behind by an earlier evaluation (it may encode any market data, including later columns)
                    out.append(('[reads] %s: depends on state left in prev_output by an EARLIER evaluation' % where, 'refuted', tm.show(acc)))
                    continue
                else:
                    continue
                sample['accesses'] += 1
                r = smt.prove(facts + [g], tm.le(acc.args[2], b), timeout_ms=10000)
                out.append(('[reads] %s: %s read at a column <= %s' % (where, nm_, tm.show(b)), st(r), tm.show(acc) if r.status != 'unsat' else ''))
            return out
        for p in paths:
            for so in p.side:
                if so['kind'] in ('inv-init', 'inv-preserve'):
                    r = smt.prove(so['hyps'], so['goal'], timeout_ms=20000)
                    rows.append(('[inv] %s: %s' % (so['kind'], so['name']), st(r), tm.show(so['goal'])[:200] if r.status != 'unsat' else ''))
                elif so['kind'] == 'bounds' and 'list of symbolic length' in so['name']:
                    r = smt.prove(so['hyps'], so['goal'], timeout_ms=20000)
                    rows.append(('[inv] %s' % so['name'], st(r), ''))
            facts = p.facts(hyps)
            for ent in [x for x in p.ctx.notes if isinstance(x, tuple) and x and x[0] == 'entry'][:1]:
                P0 = ent[1]
                if len(P0._shape) == 3:
                    # ghost footprint at loop entry: prev_output carries no market data and nothing from an earlier evaluation
                    rows += footprint(P0.at((n, tm.IZERO, h)), facts + rng, tm.const(-1, 'I'), tm.const(-1, 'I'), 'prev_output at loop entry')
            if p.aborted is not None and p.aborted.kind == 'loop-cut':
                seen_iter = True
                notes = [x for x in p.ctx.notes if isinstance(x, tuple) and x and x[0] == 'iter']
                if not notes:
                    return Verdict('unknown', 'engine', time.time() - t0, 'iteration state not captured', sample=sample)
                _, outs, i_after, inputs, P_after, exp_cols = notes[-1]
                i_new = tm.sub(i_after, tm.IONE)
                new = list(list.__iter__(outs))[-1]
                if len(list(list.__iter__(outs))) != 2 or len(new._shape) != 3:
                    rows.append(('[shape] one (N,1,H) output appended per step', 'refuted', str(getattr(new, '_shape', None))))
                    continue
                for a_, b_ in zip(new._shape, (N, 1, H)):
                    r = smt.prove(facts, tm.eq(ti(a_), ti(b_)), timeout_ms=10000)
                    rows.append(('[shape] step output is (N, 1, H)', st(r), str(new._shape) if r.status != 'unsat' else ''))
                el = new.at((n, tm.IZERO, h))
                fr = footprint(el, facts + rng, i_new, tm.sub(i_new, tm.IONE), 'output of step i')
                rows += fr
                # ghost footprint of the heap cell prev_output (what the prev_hedge feature will read at step i+1): columns <= i
                if len(P_after._shape) == 3:
                    rows += footprint(P_after.at((n, tm.IZERO, h)), facts + rng, i_new, tm.sub(i_new, tm.IONE), 'prev_output after step i')
                if model_kind == 'user':
                    if len(inputs) != 1:
                        rows.append(('[prev] the model is called once per step', 'refuted', '%d calls' % len(inputs)))
                    else:
                        inp = inputs[0]
                        total = sum(WIDTH(spec) for spec in layout)
                        ok_shape = len(inp._shape) == 3 and inp._shape[1] == 1 and inp._shape[2] == total
                        rows.append(('[prev] model input is (N, 1, F + H)', 'proved' if ok_shape else 'refuted', str(inp._shape)))
                        if ok_shape:
                            P_prev = tm.ite(tm.eq(i_new, tm.IZERO), tm.ZERO, tm.sel('hvS', n, tm.sub(i_new, tm.IONE), h))
                            off = 0
                            for spec, col in zip(layout, exp_cols):
                                w_ = WIDTH(spec)
                                for cc in range(w_):
                                    seen = inp.at((n, tm.IZERO, tm.const(off + cc, 'I')))
                                    if spec == 'prev_hedge':
                                        want = tm.subst(P_prev, {h: tm.const(cc, 'I')})
                                        label = '[prev] prev_hedge[%d] (declared position %d) seen by the model at step i == output of step i-1 (zero at step 0)' % (cc, off + cc)
                                    else:
                                        want = col.at((n, tm.IZERO, tm.const(cc, 'I')))
                                        label = '[prev] model input column %d == feature %s%s at step i (declared order)' % (off + cc, spec if isinstance(spec, str) else 'ModuleOutput', '' if w_ == 1 else '[%d]' % cc)
                                    r = fc.prove_eq(facts + rng, seen, want, timeout_ms=20000)
                                    rows.append((label, st(r), tm.show(seen)[:200] if r.status != 'unsat' else ''))
                                off += w_
                continue
            if p.outcome() != 'returns':
                return Verdict('unknown', 'engine', time.time() - t0, 'path %s: %s %s' % (p.outcome(), p.exception, p.traceback[-700:]), sample=sample)
            seen_exit = True
            hedge, hedger = p.result
            if len(hedge._shape) != 3:
                rows.append(('[shape] rank 3', 'refuted', str(hedge._shape)))
                continue
            for a_, b_ in zip(hedge._shape, (N, H, T)):
                r = smt.prove(facts, tm.eq(ti(a_), ti(b_)), timeout_ms=10000)
                rows.append(('[shape] hedge is (N, H, T)', st(r), str(hedge._shape) if r.status != 'unsat' else ''))
            last = tm.sub(T, tm.IONE)
            el_last, el_prev = hedge.at((n, h, last)), hedge.at((n, h, tm.sub(T, tm.const(2, 'I'))))
            r = fc.prove_eq(facts + rng, el_last, el_prev, timeout_ms=20000)
            rows.append(('[last] hedge at the final index == the one held over the last step', st(r), tm.show(el_last)[:200] if r.status != 'unsat' else ''))
            el = hedge.at((n, h, j))
            crng = [tm.le(tm.IZERO, j), tm.lt(j, T)]
            bound = tm.ite(tm.eq(j, last), tm.sub(T, tm.const(2, 'I')), j)
            rows += footprint(el, facts + rng + crng, bound, bound, 'hedge[:, :, j]')
            for (stg, what) in p.writes:
                if stg.origin != 'fresh' and not stg.origin.startswith('leaf:'):
                    rows.append(('[frame] no market data written', 'refuted', 'in-place %s into %s' % (what, stg.origin)))
            rows.append(('[frame] no market data written', 'proved', ''))
        if not (seen_iter and seen_exit):
            return Verdict('unknown', 'engine', time.time() - t0, 'paths: %s' % [p.outcome() for p in paths], sample=sample)
        keep = ['[inv]'] + ['[%s]' % a_ for a_ in aspects]
        rows = [r_ for r_ in rows if any(r_[0].startswith(k_) for k_ in keep)]
        if 'reads' in aspects and sample['accesses'] == 0:
            return Verdict('unknown', 'engine', time.time() - t0, 'no market-data access found in the step output (vacuous footprint)', sample=sample)
        sample['vcs'] = [{'vc': r_[0], 'status': r_[1]} for r_ in rows][:24]
        sample['n_vcs'] = len(rows)
        if 'prev' not in aspects:
            # the invariant "prev_output == the last output" is the statement of C03 and decides there; the other aspects do not rest on
            # it: non-anticipation uses the ghost footprint of prev_output (rows "[reads] prev_output after step i"), frames the write log
            rows = [r_ for r_ in rows if not (r_[0].startswith('[inv]') and 'prev_output' in r_[0])]
        bad = [r_ for r_ in rows if r_[1] == 'refuted']
        unk = [r_ for r_ in rows if r_[1] == 'unknown']
        if bad:
            return Verdict('refuted', 'z3 + loop cut', time.time() - t0, '; '.join('%s %s' % (r_[0], r_[2]) for r_ in bad)[:600], witness={'failed': [r_[0] for r_ in bad]}, sample=sample,
                           replay=_replay_prev() if any(('[prev]' in r_[0] or 'prev_output' in r_[0]) for r_ in bad) else _replay_hedger())
        if unk:
            return Verdict('unknown', 'z3', time.time() - t0, '; '.join('%s %s' % (r_[0], r_[2]) for r_ in unk)[:600], sample=sample)
        return Verdict('proved', 'z3 (LIA/UF, quantified loop invariant) + ghost footprint', time.time() - t0, '%d path(s), %d VCs' % (len(paths), len(rows)), sample=sample)
    names = {'shape': 'shape (N,H,T)', 'last': 'final index = previous (no trade at maturity)', 'reads': 'non-anticipative (ghost footprint invariant: output k reads columns <= k)',
             'frame': 'modifies no market data', 'prev': 'prev_hedge at step i is the output of step i-1 (zeros (N,1,H) at step 0)'}
    return Obligation('HS/compute_hedge/loop:%s[%s]' % ('+'.join(aspects), tag), 'inv-init/inv-preserve/post', 'pfhedge.nn.modules.hedger.Hedger.compute_hedge', check, list(props),
                      clause='compute_hedge step loop, every number of steps [%s]: %s' % (tag, ', '.join(names[a_] for a_ in aspects)))


def hedger_obligations(seed, tier='quick'):
    obs = []
    scen = []
    for mk in ('bs', 'naked', 'linear', 'user'):
        for H in ((1,) if mk == 'bs' else (1, 2)):
            scen.append(dict(model_kind=mk, H=H, stepwise=False))
    scen.append(dict(model_kind='bs', H=1, stepwise=False, dkind='lookback'))
    scen.append(dict(model_kind='bs', H=1, stepwise=False, dkind='american_binary'))
    scen.append(dict(model_kind='user', H=1, stepwise=False, und='heston'))
    # a stochastic model (fresh noise per forward call): "no trade at maturity" must hold by construction, not by re-evaluation
    scen.append(dict(model_kind='noisy', H=1, stepwise=False))
    scen.append(dict(model_kind='noisy', H=2, stepwise=False))
    # a ModuleOutput feature in the all-at-once branch
    scen.append(dict(model_kind='module_output', H=1, stepwise=False))
    # a model whose output aliases its input, fed by a single raw-series feature
    scen.append(dict(model_kind='identity', H=1, stepwise=False, feats_override=('underlier_spot',)))
    scen.append(dict(model_kind='identity', H=1, stepwise=False, feats_override=('variance',), und='heston'))
    for Tc in ((2, 3) if tier == 'quick' else (2, 3, 4, 5)):
        scen.append(dict(model_kind='ww', H=1, stepwise=True, Tc=Tc))
        scen.append(dict(model_kind='user', H=1, stepwise=True, Tc=Tc))
        scen.append(dict(model_kind='user', H=2, stepwise=True, Tc=Tc))
    for sc in scen:
        obs.append(hedge_footprint_ob(aspects=('reads', 'last', 'shape'), props=('C02', 'C13'), **sc))
        obs.append(hedge_footprint_ob(aspects=('frame',), props=('C16',), **sc))
    # the state-dependent branch for EVERY number of steps: the step loop cut by its invariant
    for (mk, H) in (('user', 1), ('user', 2), ('ww', 1)):
        obs.append(hedge_loop_ob(mk, H, aspects=('reads', 'last', 'shape'), props=('C02', 'C13')))
        obs.append(hedge_loop_ob(mk, H, aspects=('frame',), props=('C16',)))
    return obs


def feature_history_ob(fname, und, tag):
    """C16/C13: a bound feature re-bound to another derivative (same shape, other prices, other dt)
    returns what a fresh feature returns - nothing derived from earlier market data is retained."""
    def check():
        t0 = time.time()
        DT2 = tm.var('dt2')
        hyps = DIMS + [tm.gt(B, tm.ZERO), tm.gt(DT2, tm.ZERO)] + STEP
        if fname == 'empty':
            return Verdict('proved', 'by contract', 0.0, 'Empty carries no values', sample={'claim': 'n/a for Empty'})

        def run(c):
            import torch
            import pfhedge.instruments as pi
            from pfhedge.features import get_feature
            from pfv.torchlib.tensor import Tensor
            d, f = bound_feature(fname, und)
            f.get(SInt(I))
            f.get(None)
            # a second derivative: same shapes, different prices, different step size
            if und == 'heston':
                s2 = pi.HestonStock(dt=SReal(DT2), dtype=torch.float64)
                s2.register_buffer('spot', Tensor.input('spot2', (N, T), torch.float64))
                s2.register_buffer('variance', Tensor.input('variance2', (N, T), torch.float64))
                assume_nonneg(c, 'variance2')
            else:
                s2 = pi.BrownianStock(sigma=SReal(tm.var('sigma2')), dt=SReal(DT2), dtype=torch.float64)
                s2.register_buffer('spot', Tensor.input('spot2', (N, T), torch.float64))
            assume_positive_spot(c, 'spot2')
            d2 = pi.EuropeanOption(s2, strike=SReal(tm.var('K2')))
            if FEATURES[fname][2]:
                d2.list(lambda dd: dd.ul().spot)
            g = f.of(d2)
            fresh = get_feature(FEATURES[fname][0]()).of(d2)
            # and the same derivative re-simulated: buffers replaced in place of the old ones
            d.ul().register_buffer('spot', Tensor.input('spot3', (N, T), torch.float64))
            assume_positive_spot(c, 'spot3')
            # the reference is a fresh feature on a freshly built TWIN derivative over the same underlier: nothing the used
            # derivative object may have kept (caches on the instance) can leak into it
            d_tw = type(d)(d.ul(), call=True, strike=SReal(K))
            if FEATURES[fname][2]:
                d_tw.list(lambda dd: dd.ul().spot)
            fresh1 = get_feature(FEATURES[fname][0]()).of(d_tw)
            return (g.get(SInt(I)), fresh.get(SInt(I)), g.get(None), fresh.get(None), f.get(SInt(I)), fresh1.get(SInt(I)), f.get(None), fresh1.get(None))
        paths = explore(run, hyps + [tm.gt(tm.var('K2'), tm.ZERO), tm.gt(tm.var('sigma2'), tm.ZERO)], max_paths=16)
        n, j = tm.var('n', 'I'), tm.var('j', 'I')
        rng = [tm.le(tm.IZERO, n), tm.lt(n, N), tm.le(tm.IZERO, j), tm.lt(j, T)]
        nvc = 0
        for p in paths:
            if p.outcome() != 'returns':
                return Verdict('unknown', 'engine', time.time() - t0, 'path %s: %s %s' % (p.outcome(), p.exception, p.traceback[-500:]))
            r_ = p.result
            facts = p.facts(hyps) + rng
            pairs = [(r_[0].at((n, tm.IZERO, tm.IZERO)), r_[1].at((n, tm.IZERO, tm.IZERO)), 're-bound, step i'), (r_[2].at((n, j, tm.IZERO)), r_[3].at((n, j, tm.IZERO)), 're-bound, all steps'),
                     (r_[4].at((n, tm.IZERO, tm.IZERO)), r_[5].at((n, tm.IZERO, tm.IZERO)), 're-simulated, step i'), (r_[6].at((n, j, tm.IZERO)), r_[7].at((n, j, tm.IZERO)), 're-simulated, all steps')]
            for (a, b, what) in pairs:
                nvc += 1
                r = fc.prove_eq(facts, a, b, timeout_ms=20000)
                if r.status != 'unsat':
                    rp = _replay_feature_history(fname, und)
                    return Verdict('refuted' if r.status == 'sat' else 'unknown', r.backend, time.time() - t0,
                                   'feature %s (%s) returns %s; a fresh feature returns %s' % (tag, what, tm.show(a)[:200], tm.show(b)[:200]),
                                   witness={'case': what, 'reused': tm.show(a)[:300], 'fresh': tm.show(b)[:300]}, replay=rp)
        return Verdict('proved', 'z3', time.time() - t0, '%d VCs' % nvc, sample={'claim': 're-bound / re-simulated feature == fresh feature', 'feature': tag})
    return Obligation('HS/feature/%s/history' % tag, 'post', 'pfhedge.features.features', check, ['C16', 'C13'],
                      clause='feature %s used before, then re-bound to another derivative (other prices, other dt) or re-simulated, equals a fresh feature' % tag)


FEATURE_HISTORY_REPLAY = '''
import pfhedge.features.features as ff
from pfhedge.features import get_feature
from pfhedge.instruments import BrownianStock, HestonStock, EuropeanOption
torch.manual_seed(0)
mk = (lambda dt: HestonStock(dt=dt)) if W["und"] == "heston" else (lambda dt: BrownianStock(sigma=0.3, dt=dt))
name = W["feature"]
spec = {"underlier_log_spot": lambda: ff.UnderlierLogSpot(), "log_spot": lambda: ff.Spot(log=True), "barrier_up": lambda: ff.Barrier(1.02, up=True),
        "barrier_down": lambda: ff.Barrier(0.98, up=False), "ones": lambda: ff.Ones()}
new = lambda: get_feature(spec[name]() if name in spec else name)
d1 = EuropeanOption(mk(0.01), strike=1.1, maturity=0.05); d1.simulate(n_paths=3)
d2 = EuropeanOption(mk(0.02), strike=0.9, maturity=0.10); d2.simulate(n_paths=3)
if W["listed"]:
    d1.list(lambda dd: dd.ul().spot); d2.list(lambda dd: dd.ul().spot)
bad = []
f = new().of(d1)
for i in range(d1.ul().spot.size(1)): f.get(i)
f.get(None)
g = f.of(d2); fresh = new().of(d2)
for i in range(d2.ul().spot.size(1)):
    if not torch.allclose(g.get(i), fresh.get(i), equal_nan=True): bad.append(("rebound", i))
if not torch.allclose(g.get(None), fresh.get(None), equal_nan=True): bad.append(("rebound", None))
d1.ul().simulate(n_paths=3, time_horizon=0.05)          # re-simulated from outside (through the stock, as another derivative sharing it would)
tw = EuropeanOption(d1.ul(), strike=1.1, maturity=0.05)     # reference: a freshly built twin derivative on the same stock
if W["listed"]: tw.list(lambda dd: dd.ul().spot)
fresh1 = new().of(tw)
for i in range(d1.ul().spot.size(1)):
    if not torch.allclose(f.get(i), fresh1.get(i), equal_nan=True): bad.append(("resimulated", i))
if not torch.allclose(f.get(None), fresh1.get(None), equal_nan=True): bad.append(("resimulated", None))
result = {"got": [str(x) for x in bad], "ref": []}
'''


def _replay_feature_history(fname, und):
    r = real_exec(FEATURE_HISTORY_REPLAY, {'feature': fname, 'und': und, 'listed': FEATURES[fname][2]})
    ok = r.get('ok') and r['result']['got'] == []
    return {'real': r, 'confirmed': not ok, 'note': 'replay: bound feature reused after re-binding / re-simulation of the stock from outside vs a fresh feature on a freshly built twin derivative'}


# ------------------------------------------------------------------ C03: batched vs step-wise, prev_hedge

def batched_vs_stepwise_ob(H, Tc, alias_model=False):
    def check():
        t0 = time.time()
        hyps = DIMS + [tm.eq(T, tm.const(Tc, 'I')), tm.ge(tm.var('c1'), tm.ZERO)]
        old = _set_T(Tc)
        try:
            def run(c):
                # two derivatives with the same simulated series (separate storages): one per evaluation mode
                d = mk_derivative(cost=SReal(tm.var('c1')))
                d_s = mk_derivative(cost=SReal(tm.var('c1')))
                assume_positive_spot(c)
                if H >= 2:
                    assume_positive_spot(c, 'spot2')
                import torch
                import pfhedge.nn as pnn
                if alias_model:
                    L = ['underlier_spot']

                    class First(torch.nn.Module):       # returns a VIEW of its input
                        def forward(self, x):
                            return x[..., :1]
                    hv = pnn.Hedger(First(), L)
                    hs = pnn.Hedger(First(), L + ['prev_hedge'])
                else:
                    L = ['log_moneyness', 'time_to_maturity', 'volatility', 'max_log_moneyness']
                    hv = pnn.Hedger(UserModel.make(H), L)
                    hs = pnn.Hedger(UserModel.make(H, ignore_last=H), L + ['prev_hedge'])
                kw = {'hedge': mk_hedge_list(d, H)} if H >= 2 else {}
                kw_s = {'hedge': mk_hedge_list(d_s, H)} if H >= 2 else {}
                return (hv.compute_hedge(d, **kw), hs.compute_hedge(d_s, **kw_s), hv.compute_pl(d, **kw), hs.compute_pl(d_s, **kw_s),
                        hv.inputs.of(d, hv).is_state_dependent(), hs.inputs.of(d_s, hs).is_state_dependent())
            paths = explore(run, hyps, max_paths=16)
        finally:
            _set_T(old)
        n = tm.var('n', 'I')
        rng = [tm.le(tm.IZERO, n), tm.lt(n, N)]
        nvc = 0
        for p in paths:
            if p.outcome() != 'returns':
                return Verdict('unknown', 'engine', time.time() - t0, 'path %s %s %s' % (p.outcome(), p.exception, p.traceback[-600:]))
            V, W, plv, pls, depv, deps_ = p.result
            if depv or not deps_:
                return Verdict('refuted', 'structural', time.time() - t0, 'is_state_dependent: %s / %s' % (depv, deps_), witness={}, replay=_replay_hedger())
            facts = p.facts(hyps) + rng
            for hh in range(H):
                for tt in range(Tc):
                    nvc += 1
                    a, b = V.at((n, tm.const(hh, 'I'), tm.const(tt, 'I'))), W.at((n, tm.const(hh, 'I'), tm.const(tt, 'I')))
                    r = fc.prove_eq(facts, a, b, timeout_ms=20000)
                    if r.status != 'unsat':
                        return Verdict('refuted' if r.status == 'sat' else 'unknown', r.backend, time.time() - t0,
                                       'all-steps-at-once hedge[%d,%d] = %s, step-by-step = %s' % (hh, tt, tm.show(a)[:200], tm.show(b)[:200]),
                                       witness={'h': hh, 't': tt, 'batched': tm.show(a)[:300], 'stepwise': tm.show(b)[:300]}, replay=_replay_hedger())
            nvc += 1
            r = fc.prove_eq(facts, plv.at((n,)), pls.at((n,)), timeout_ms=20000)
            if r.status != 'unsat':
                return Verdict('refuted' if r.status == 'sat' else 'unknown', r.backend, time.time() - t0, 'P&L differs between the two evaluation modes', witness={}, replay=_replay_hedger())
        return Verdict('proved', 'z3', time.time() - t0, '%d VCs' % nvc, sample={'claim': 'same hedge and P&L in both evaluation modes', 'H': H, 'T': Tc, 'n_vcs': nvc})
    return Obligation('HS/compute_hedge/batched==stepwise[H=%d,T=%d%s]' % (H, Tc, ',aliasing-model' if alias_model else ''), 'lemma', 'pfhedge.nn.modules.hedger.Hedger.compute_hedge', check, ['C03'],
                      clause='a hedger with state-independent inputs gives the same hedge and P&L all-at-once and step-by-step (uninterpreted point-wise model, all N; H=%d, T=%d)' % (H, Tc))


FEATS_BVS = ['log_moneyness', 'time_to_maturity', 'volatility', 'max_log_moneyness']


def batched_vs_stepwise_loop_ob(H):
    """all T: the step loop (cut) of a hedger whose model ignores prev_hedge produces, column by column, the hedge
    that the all-at-once branch produces.  Extra invariant: outputs[k][n, 0, h] == vectorised hedge[n, h, k]."""
    def check():
        t0 = time.time()
        from pfv import cutloops
        from pfv.torchlib.tensor import ti
        from pfhedge.nn.modules.hedger import Hedger
        hyps = DIMS + [tm.ge(tm.var('c1'), tm.ZERO)]
        Hc = tm.const(H, 'I')
        hold = {}

        def extra_inv(state, elem):
            V = hold['V']
            n, k, h = tm.fresh('bn', 'I'), tm.fresh('bk', 'I'), tm.fresh('bh', 'I')
            return [('outputs[k] == column k of the all-at-once hedge, for k < time_step',
                     tm.forall(n, tm.IZERO, N, tm.forall(k, tm.IZERO, lift(state['time_step']), tm.forall(h, tm.IZERO, Hc, tm.eq(elem(n, k, h), V.at((n, h, k)))))))]
        def extra_lemmas(state):
            # index-wise (proved at a fresh path index, then assumed for all): the output appended in this iteration is column i of V
            V = hold['V']
            new = list(list.__iter__(state['outputs']))[-1]
            i_new = tm.sub(lift(state['time_step']), tm.IONE)
            return [('the output of step i == column i of the all-at-once hedge [h=%d]' % hh,
                     (lambda q, hh=hh: tm.eq(new.at((q, tm.IZERO, tm.const(hh, 'I'))), V.at((q, tm.const(hh, 'I'), i_new)))), tm.IZERO, N) for hh in range(H)]
        cut, info = cutloops.cut(Hedger.compute_hedge, {0: _loop_spec(H, None, extra_inv, extra_lemmas)})

        def run(c):
            d = mk_derivative(cost=SReal(tm.var('c1')))
            d_s = mk_derivative(cost=SReal(tm.var('c1')))
            assume_positive_spot(c)
            if H >= 2:
                assume_positive_spot(c, 'spot2')
            import pfhedge.nn as pnn
            L = FEATS_BVS
            hv = pnn.Hedger(UserModel.make(H), L)
            hs = pnn.Hedger(UserModel.make(H, ignore_last=H), L + ['prev_hedge'])
            kw = {'hedge': mk_hedge_list(d, H)} if H >= 2 else {}
            kw_s = {'hedge': mk_hedge_list(d_s, H)} if H >= 2 else {}
            V = hv.compute_hedge(d, **kw)
            hold['V'] = V
            W = cut(hs, d_s, **kw_s)
            return V, W
        try:
            paths = explore(run, hyps, max_paths=16)
        except Unsupported as e:
            return Verdict('unknown', 'engine', time.time() - t0, 'out of reach: %s' % e)
        rows = []
        n, h, j = tm.var('n', 'I'), tm.var('h', 'I'), tm.var('j', 'I')
        rng = [tm.le(tm.IZERO, n), tm.lt(n, N), tm.le(tm.IZERO, h), tm.lt(h, Hc), tm.le(tm.IZERO, j), tm.lt(j, T)]
        seen_iter = seen_exit = False
        st = lambda r: {'unsat': 'proved', 'sat': 'refuted'}.get(r.status, 'unknown')
        for p in paths:
            for so in p.side:
                if so['kind'] in ('inv-init', 'inv-preserve', 'lemma') or 'list of symbolic length' in so['name']:
                    r = fc.prove_inst(so['hyps'], so['goal'], timeout_ms=90000)
                    rows.append(('%s: %s' % (so['kind'], so['name']), st(r), tm.show(so['goal'])[:300] if r.status != 'unsat' else ''))
            if p.aborted is not None and p.aborted.kind == 'loop-cut':
                seen_iter = True
                continue
            if p.outcome() != 'returns':
                return Verdict('unknown', 'engine', time.time() - t0, 'path %s %s %s' % (p.outcome(), p.exception, p.traceback[-600:]))
            seen_exit = True
            V, W = p.result
            facts = p.facts(hyps)
            for a_, b_ in zip(W._shape, V._shape):
                r = smt.prove(facts, tm.eq(ti(a_), ti(b_)), timeout_ms=10000)
                rows.append(('same shape', st(r), '%s vs %s' % (W._shape, V._shape) if r.status != 'unsat' else ''))
            r = fc.prove_inst(facts + rng, tm.eq(W.at((n, h, j)), V.at((n, h, j))), timeout_ms=90000)
            rows.append(('step-by-step hedge[n,h,j] == all-at-once hedge[n,h,j] for every j < T', st(r), tm.show(W.at((n, h, j)))[:300] if r.status != 'unsat' else ''))
        if not (seen_iter and seen_exit):
            return Verdict('unknown', 'engine', time.time() - t0, 'paths: %s' % [p.outcome() for p in paths])
        sample = {'claim': 'same hedge in both evaluation modes for every number of steps', 'H': H, 'rewritten': info['rewritten'][-700:], 'vcs': [{'vc': r_[0], 'status': r_[1]} for r_ in rows][:20], 'n_vcs': len(rows)}
        bad = [r_ for r_ in rows if r_[1] == 'refuted']
        unk = [r_ for r_ in rows if r_[1] == 'unknown']
        if bad:
            return Verdict('refuted', 'z3 + loop cut', time.time() - t0, '; '.join('%s %s' % (r_[0], r_[2]) for r_ in bad)[:600], witness={'failed': [r_[0] for r_ in bad]}, sample=sample, replay=_replay_hedger())
        if unk:
            return Verdict('unknown', 'z3', time.time() - t0, '; '.join('%s %s' % (r_[0], r_[2]) for r_ in unk)[:600], sample=sample)
        return Verdict('proved', 'z3 (UF, quantified loop invariant)', time.time() - t0, '%d VCs' % len(rows), sample=sample)
    return Obligation('HS/compute_hedge/loop:batched==stepwise[H=%d,all T]' % H, 'inv-init/inv-preserve/post', 'pfhedge.nn.modules.hedger.Hedger.compute_hedge', check, ['C03'],
                      clause='a hedger with state-independent inputs gives the same hedge all-at-once and step-by-step for EVERY number of steps (uninterpreted point-wise model, all N; H=%d): loop invariant outputs[k] == column k' % H)


def prev_hedge_flow_ob(H, Tc):
    def check():
        t0 = time.time()
        hyps = DIMS + [tm.eq(T, tm.const(Tc, 'I'))]
        old = _set_T(Tc)
        rec = []
        try:
            def run(c):
                del rec[:]
                d = mk_derivative()
                assume_positive_spot(c)
                if H >= 2:
                    assume_positive_spot(c, 'spot2')
                import pfhedge.nn as pnn
                L = ['log_moneyness', 'time_to_maturity', 'prev_hedge']
                hg = pnn.Hedger(UserModel.make(H, record=rec), L)
                kw = {'hedge': mk_hedge_list(d, H)} if H >= 2 else {}
                hg.compute_hedge(d, **kw)          # an earlier evaluation on the same hedger: nothing of it may be seen below
                del rec[:]
                out = hg.compute_hedge(d, **kw)
                return out, list(rec)
            paths = explore(run, hyps, max_paths=8)
        finally:
            _set_T(old)
        from pfv.torchlib.tensor import ti
        n = tm.var('n', 'I')
        rng = [tm.le(tm.IZERO, n), tm.lt(n, N)]
        nvc = 0
        for p in paths:
            if p.outcome() != 'returns':
                return Verdict('unknown', 'engine', time.time() - t0, 'path %s %s %s' % (p.outcome(), p.exception, p.traceback[-600:]))
            out, inputs = p.result
            facts = p.facts(hyps) + rng
            if len(inputs) != Tc - 1:
                return Verdict('refuted', 'structural', time.time() - t0, 'model called %d times, expected T-1 = %d' % (len(inputs), Tc - 1), witness={'calls': len(inputs)}, replay=_replay_prev())
            for k, inp in enumerate(inputs):
                # model input at step k: (N, 1, 2 + H); its last H entries are the previous output (zeros at step 0)
                if len(inp._shape) != 3 or inp._shape[2] != 2 + H or inp._shape[1] != 1:
                    return Verdict('refuted', 'shape', time.time() - t0, 'step %d: model input has shape %s, expected (N,1,%d)' % (k, inp._shape, 2 + H), witness={'step': k, 'shape': str(inp._shape)}, replay=_replay_prev())
                for hh in range(H):
                    nvc += 1
                    seen = inp.at((n, tm.IZERO, tm.const(2 + hh, 'I')))
                    want = tm.ZERO if k == 0 else out.at((n, tm.const(hh, 'I'), tm.const(k - 1, 'I')))
                    r = fc.prove_eq(facts, seen, want, timeout_ms=20000)
                    if r.status != 'unsat':
                        return Verdict('refuted' if r.status == 'sat' else 'unknown', r.backend, time.time() - t0,
                                       'step %d: prev_hedge[%d] seen by the model is %s, expected %s' % (k, hh, tm.show(seen)[:200], tm.show(want)[:200]),
                                       witness={'step': k, 'h': hh}, replay=_replay_prev())
        return Verdict('proved', 'z3 + structural', time.time() - t0, '%d VCs' % nvc, sample={'claim': 'prev_hedge at step i = model output at step i-1; zeros (N,1,H) at step 0', 'H': H, 'T': Tc})
    return Obligation('HS/compute_hedge/prev_hedge-flow[H=%d,T=%d]' % (H, Tc), 'ghost', 'pfhedge.nn.modules.hedger.Hedger.compute_hedge', check, ['C03'],
                      clause='the prev_hedge input at step i is the model\'s output at step i-1 (zero with one entry per hedging instrument at step 0)')


PREV_REPLAY = '''
import pfhedge.nn as pnn
from pfhedge.instruments import BrownianStock, EuropeanOption
torch.manual_seed(2)
bad = []
for order in ("last", "first"):
  for H in (1, 2, 3):
    und = BrownianStock(dt=0.01); d = EuropeanOption(und, maturity=0.2); d.simulate(n_paths=5)
    others = [BrownianStock(dt=0.01) for _ in range(H - 1)]
    for o in others: o.simulate(n_paths=5, time_horizon=0.2)
    seen = []
    sl = slice(2, None) if order == "last" else slice(0, H)
    class M(torch.nn.Module):
        def forward(self, x):
            seen.append(x.clone()); return x[..., 2:3].repeat(1, 1, H) * 0.5 + x[..., sl] * 0.25 + 0.1 if order == "first" else x[..., :1].repeat(1, 1, H) * 0.5 + x[..., sl] * 0.25 + 0.1
    feats = ["log_moneyness", "time_to_maturity", "prev_hedge"] if order == "last" else ["prev_hedge", "log_moneyness", "time_to_maturity"]
    hedger = pnn.Hedger(M(), feats)
    hedger.compute_hedge(d, hedge=[und] + others)       # an earlier evaluation on the same hedger
    del seen[:]
    out = hedger.compute_hedge(d, hedge=[und] + others)
    lm = d.log_moneyness()
    for k, x in enumerate(seen):
        if tuple(x.shape) != (5, 1, 2 + H): bad.append((order, H, k, "shape", tuple(x.shape))); continue
        want = torch.zeros(5, H) if k == 0 else out[:, :, k - 1]
        if not torch.allclose(x[:, 0, sl], want): bad.append((order, H, k, "prev_hedge != previous output"))
        col = 0 if order == "last" else H
        if not torch.allclose(x[:, 0, col], lm[:, k]): bad.append((order, H, k, "log_moneyness not at its declared position"))
# a multi-column static feature (ModuleOutput with two outputs) declared BEFORE prev_hedge, another static one after it
from pfhedge.features import ModuleOutput
for H in (1, 2):
    und = BrownianStock(dt=0.01); d = EuropeanOption(und, maturity=0.2); d.simulate(n_paths=5)
    others = [BrownianStock(dt=0.01) for _ in range(H - 1)]
    for o in others: o.simulate(n_paths=5, time_horizon=0.2)
    enc = torch.nn.Linear(2, 2)
    seen = []
    class M2(torch.nn.Module):
        def forward(self, x):
            seen.append(x.clone()); return x[..., 2:2 + H] * 0.25 + x[..., :1] * 0.5 + 0.1
    hedger = pnn.Hedger(M2(), [ModuleOutput(enc, ["moneyness", "time_to_maturity"]), "prev_hedge", "time_to_maturity"])
    with torch.no_grad():
        out = hedger.compute_hedge(d, hedge=[und] + others)
        mny, ttm = d.moneyness(), d.time_to_maturity()
        for k, x in enumerate(seen):
            if tuple(x.shape) != (5, 1, 3 + H): bad.append(("layout", H, k, "shape", tuple(x.shape))); continue
            e_ = enc(torch.stack([mny[:, k], ttm[:, k]], dim=-1))
            want = torch.zeros(5, H) if k == 0 else out[:, :, k - 1]
            if not torch.allclose(x[:, 0, :2], e_, atol=1e-6): bad.append(("layout", H, k, "ModuleOutput columns not at positions 0, 1"))
            if not torch.allclose(x[:, 0, 2:2 + H], want): bad.append(("layout", H, k, "prev_hedge block not at its declared position"))
            if not torch.allclose(x[:, 0, 2 + H], ttm[:, k]): bad.append(("layout", H, k, "time_to_maturity not at its declared position"))
result = {"got": [str(b) for b in bad][:10], "ref": []}
'''


def _replay_prev():
    r = real_exec(PREV_REPLAY, {}, timeout=300)
    ok = r.get('ok') and r['result']['got'] == []
    return {'real': r, 'confirmed': not ok, 'note': 'replay: recording model with H = 1, 2, 3 hedging instruments, prev_hedge declared first / last / between a two-column ModuleOutput and another feature'}


def c03_obligations(seed, tier='quick'):
    obs = []
    for (H, Tc) in ((1, 2), (1, 3), (2, 3)) + (((2, 4), (1, 5)) if tier != 'quick' else ()):
        obs.append(batched_vs_stepwise_ob(H, Tc))
    obs.append(batched_vs_stepwise_ob(1, 3, alias_model=True))
    for (H, Tc) in ((1, 3), (2, 3), (3, 2)) + (((2, 5),) if tier != 'quick' else ()):
        obs.append(prev_hedge_flow_ob(H, Tc))
    # every number of steps: the step loop cut by its invariant
    for H in (1, 2):
        obs.append(batched_vs_stepwise_loop_ob(H))
        obs.append(hedge_loop_ob('user', H, aspects=('prev', 'shape'), props=('C03',)))
    obs.append(hedge_loop_ob('user', 2, aspects=('prev', 'shape'), props=('C03',), prev_first=True))
    obs.append(hedge_loop_ob('user', 1, aspects=('prev', 'shape'), props=('C03',), layout=[('G2', ['moneyness', 'time_to_maturity']), 'prev_hedge', 'time_to_maturity']))
    obs.append(hedge_loop_ob('user', 2, aspects=('prev', 'shape'), props=('C03',), layout=['log_moneyness', 'prev_hedge', ('G2', ['log_moneyness', 'volatility']), 'time_to_maturity']))
    return obs


# ------------------------------------------------------------------ C01: compute_pl / compute_portfolio wiring

def compute_pl_ob(which, model_kind, H, stepwise, Tc=None, clause_=False, history=False, as_tuple=False):
    tag = '%s,%s,H=%d,%s%s%s%s' % (which, model_kind, H, 'stepwise' if stepwise else 'vectorised', ',T=%d' % Tc if Tc else ',all T', ',after an earlier evaluation and an outside re-simulation' if history else '',
                                   ',hedges given as a tuple' if as_tuple else '')

    def check():
        t0 = time.time()
        from contracts import c01
        Tsym = T
        Tloc = tm.const(Tc, 'I') if Tc else Tsym
        hyps = DIMS + [tm.ge(tm.var('c1'), tm.ZERO), tm.ge(tm.var('c2'), tm.ZERO), tm.ge(tm.var('c3'), tm.ZERO)] + ([tm.eq(Tsym, Tloc)] if Tc else [])
        old = _set_T(Tc if Tc else Tsym)
        try:
            def run(c):
                d = mk_derivative(cost=SReal(tm.var('c1')))
                assume_positive_spot(c)
                if H >= 2:
                    assume_positive_spot(c, 'spot2')
                clause_fn = (lambda dd, payoff: payoff * 0.5 + 1.0)
                if clause_:
                    d.add_clause('knockout', clause_fn)
                feats = ['log_moneyness', 'time_to_maturity', 'volatility'] + (['prev_hedge'] if stepwise else [])
                hedger, _ = mk_hedger('user' if model_kind == 'contract' else model_kind, d, H, feats)
                hl = mk_hedge_list(d, H)
                kw = {'hedge': (tuple(hl) if as_tuple else hl)} if (H >= 2 or as_tuple) else {}
                if model_kind == 'contract':
                    # the caller is checked against the CALLEE'S CONTRACT, not its body: compute_hedge returns some (N, H, T)
                    # tensor (proved for both branches and every T by the HS/compute_hedge obligations) - its values are arbitrary
                    import torch
                    from pfv.torchlib.tensor import Tensor
                    UNIT = Tensor.input('UNIT', (N, H, T), torch.float64, origin='fresh')
                    hedger.compute_hedge = lambda derivative, hedge=None: UNIT
                if history:
                    # call history: everything has been evaluated once on other prices; then the shared underlier was re-simulated
                    # from outside (its buffer replaced, as another derivative sharing the stock would do)
                    [h_.spot for h_ in hl]
                    getattr(hedger, which)(d, **kw)
                    d.payoff()
                    import torch
                    from pfv.torchlib.tensor import Tensor
                    d.ul().register_buffer('spot', Tensor.input('spotB', (N, T), torch.float64))
                    assume_positive_spot(c, 'spotB')
                unit = hedger.compute_hedge(d, **kw)
                res = getattr(hedger, which)(d, **kw)
                # the instruments' CURRENT prices, read through freshly built twins (nothing kept on the used objects can leak in)
                cur = []
                for h_ in hl:
                    if h_ is d.ul() or not hasattr(h_, 'pricer'):
                        cur.append(h_.spot)
                    else:
                        tw = type(h_)(h_.ul(), strike=SReal(K))
                        tw.list(h_.pricer, cost=h_.cost)
                        cur.append(tw.spot)
                d_tw = type(d)(d.ul(), call=True, strike=SReal(K))
                if clause_:
                    d_tw.add_clause('knockout', clause_fn)
                return res, unit, cur, [h_.cost for h_ in hl], d_tw.payoff()
            paths = explore(run, hyps, max_paths=16)
        finally:
            _set_T(old)
        from pfv.proxies import lift
        n = tm.var('n', 'I')
        rng = [tm.le(tm.IZERO, n), tm.lt(n, N)]
        nvc = 0
        for p in paths:
            if p.outcome() != 'returns':
                # an exception raised by pfhedge's own code (not by the torch shim) where the contract says the call returns
                if p.outcome().startswith('raises:') and '/pfhedge/' in (p.traceback or '')[-900:] and 'torchlib' not in (p.traceback or '')[-400:]:
                    rp = _replay_pl()
                    if rp.get('confirmed'):
                        return Verdict('refuted', 'path-exploration', time.time() - t0, '%s raises %s' % (which, str(p.exception)[:200]), witness={'exception': str(p.exception)[:200]}, replay=rp)
                return Verdict('unknown', 'engine', time.time() - t0, 'path %s %s %s' % (p.outcome(), p.exception, p.traceback[-600:]))
            res, unit, spots, costs, payoff = p.result
            facts = p.facts(hyps) + rng
            Hc = tm.const(H, 'I')

            def S(a, b, c__):
                r_ = None
                for k in reversed(range(H)):
                    val = spots[k].at((a, c__))
                    r_ = val if r_ is None else tm.ite(tm.eq(b, tm.const(k, 'I')), val, r_)
                return r_

            def U(a, b, c__):
                return unit.at((a, b, c__))

            def cst(b):
                r_ = None
                for k in reversed(range(H)):
                    val = tm.toreal(lift(costs[k]))
                    r_ = val if r_ is None else tm.ite(tm.eq(b, tm.const(k, 'I')), val, r_)
                return r_
            # the property statement, instantiated with H = Hc, T = Tloc
            saveH, saveT = c01.H, c01.T
            c01.H, c01.T = Hc, Tloc
            try:
                spec = c01.PL(S, U, (lambda a: payoff.at((a,))) if which == 'compute_pl' else None, cst, True, n, p.ctx)
            finally:
                c01.H, c01.T = saveH, saveT
            nvc += 1
            r = fc.prove_eq(facts, res.at((n,)), spec, timeout_ms=30000)
            if r.status != 'unsat':
                rp = _replay_pl()
                return Verdict('refuted' if (r.status == 'sat' and rp.get('confirmed')) else ('refuted' if r.status == 'sat' else 'unknown'), r.backend, time.time() - t0,
                               '%s != PL(hedge spots, compute_hedge, hedge costs, %s)' % (which, 'payoff' if which == 'compute_pl' else 'no payoff'),
                               witness={'code': tm.show(res.at((n,)))[:400], 'spec': tm.show(spec)[:400]}, replay=rp)
        return Verdict('proved', 'sigma-normaliser+z3', time.time() - t0, '%d VCs' % nvc, sample={'claim': '%s == wealth identity on (hedge spots, compute_hedge, costs, payoff)' % which, 'scenario': tag})
    return Obligation('HS/%s/post[%s%s]' % (which, tag, ',clause' if clause_ else ''), 'post', 'pfhedge.nn.modules.hedger.Hedger.' + which, check, ['C01'],
                      clause='%s == PL on the hedging instruments\' current prices, the computed hedge, their cost rates and %s [%s]' % (which, 'the derivative\'s payoff (clauses applied)' if which == 'compute_pl' else 'no payoff', tag))


PL_REPLAY = '''
import pfhedge.nn as pnn
from pfhedge.instruments import BrownianStock, EuropeanOption, LookbackOption
torch.manual_seed(3)
bad = []
for (prev, H, c1, c2) in [(p_, h_, a_, b_) for p_ in (False, True) for h_ in (1, 2) for (a_, b_) in ((1e-3, 5e-3), (0.0, 5e-3), (1e-3, 0.0)) if h_ == 2 or b_ == 5e-3]:
    if True:
        und = BrownianStock(sigma=0.3, dt=0.01, cost=c1); d = EuropeanOption(und, strike=1.02, maturity=0.05)
        d.add_clause("cap", lambda dd, payoff: payoff.clamp(max=0.03) + 0.01)
        d.simulate(n_paths=6)
        hl = [und]
        if H == 2:
            lb = LookbackOption(und, strike=1.0, maturity=0.05); lb.list(lambda dd: dd.ul().spot * 0.4 + 0.2, cost=c2); hl.append(lb)
        feats = ["log_moneyness", "time_to_maturity"] + (["prev_hedge"] if prev else [])
        hedger = pnn.Hedger(torch.nn.Sequential(torch.nn.Linear(2 + (H if prev else 0), H), torch.nn.Tanh()), feats)
        for rnd in (0, 1):
            if rnd == 1:
                und.simulate(n_paths=6, time_horizon=0.05)        # the shared stock re-simulated from outside, after everything was evaluated once
                hl = tuple(hl)                                     # ... and the hedges handed over as a tuple this time
            unit = hedger.compute_hedge(d, hedge=hl).detach()
            for which in ("compute_pl", "compute_portfolio"):
                got = getattr(hedger, which)(d, hedge=hl).detach()
                ref = torch.zeros(6, dtype=unit.dtype)
                if which == "compute_pl": ref -= (torch.nn.functional.relu(und.spot[:, -1] - 1.02)).clamp(max=0.03) + 0.01
                for h, inst in enumerate(hl):
                    s = und.spot if inst is und else und.spot * 0.4 + 0.2          # current prices, computed here from the stock's current paths
                    for t in range(s.size(1) - 1):
                        ref += unit[:, h, t] * (s[:, t + 1] - s[:, t]) - inst.cost * (unit[:, h, t + 1] - unit[:, h, t]).abs() * s[:, t + 1]
                    ref -= inst.cost * unit[:, h, 0].abs() * s[:, 0]
                if not torch.allclose(got, ref, atol=1e-6): bad.append((prev, H, (c1, c2), which, "second evaluation after an outside re-simulation" if rnd else "first evaluation", float((got - ref).abs().max())))
result = {"got": [str(b) for b in bad], "ref": []}
'''


def _replay_pl():
    r = real_exec(PL_REPLAY, {}, timeout=300)
    ok = r.get('ok') and r['result']['got'] == []
    return {'real': r, 'confirmed': not ok, 'note': 'replay: compute_pl / compute_portfolio against a loop reference (H=1,2 incl. a listed derivative as hedge, a payoff clause, with/without prev_hedge, all / some / one instrument(s) with transaction costs; evaluated twice, the second time after the shared stock was re-simulated from outside)'}


def c01_obligations(seed, tier='quick'):
    obs = []
    for which in ('compute_pl', 'compute_portfolio'):
        obs.append(compute_pl_ob(which, 'user', 1, False))
        obs.append(compute_pl_ob(which, 'user', 2, False))
        obs.append(compute_pl_ob(which, 'user', 3, False))
        obs.append(compute_pl_ob(which, 'user', 2, True, Tc=3))
        for H in (1, 2, 3):
            obs.append(compute_pl_ob(which, 'contract', H, False))
    obs.append(compute_pl_ob('compute_pl', 'user', 1, False, clause_=True))
    obs.append(compute_pl_ob('compute_pl', 'user', 3, False, history=True))
    obs.append(compute_pl_ob('compute_pl', 'user', 3, False, as_tuple=True))          # the instruments given are the ones used, whatever sequence type carries them
    obs.append(compute_pl_ob('compute_portfolio', 'user', 1, False, as_tuple=True))
    obs.append(compute_pl_ob('compute_portfolio', 'contract', 3, False, history=True))
    obs.append(compute_pl_ob('compute_pl', 'linear', 2, False))
    return obs


def hedge_param_history_ob(stepwise):
    """C14/C16: a hedger evaluated twice on the SAME derivative and the same paths, with a model parameter updated in place in
    between (what an optimiser step does), returns the hedge of the CURRENT parameters - nothing is remembered per paths/derivative."""
    tag = 'stepwise,T=3' if stepwise else 'vectorised,all T'

    def check():
        t0 = time.time()
        import torch
        import pfhedge.nn as pnn
        hyps = DIMS + [tm.gt(tm.var('theta'), tm.ZERO)]
        old = _set_T(3 if stepwise else T)
        try:
            def run(c):
                d = mk_derivative()
                assume_positive_spot(c)
                feats = ['log_moneyness', 'time_to_maturity', 'volatility'] + (['prev_hedge'] if stepwise else [])
                hedger = pnn.Hedger(UserModel.make(1), feats)
                hedger.compute_hedge(d)
                hedger.compute_pl(d)
                with torch.no_grad():
                    hedger.model.theta.mul_(2.0)          # an optimiser step: the parameter is updated in place
                again = hedger.compute_hedge(d)
                m2 = UserModel.make(1)
                with torch.no_grad():
                    m2.theta.mul_(2.0)
                fresh = pnn.Hedger(m2, feats).compute_hedge(d)
                return again, fresh
            paths = explore(run, hyps, max_paths=8)
        finally:
            _set_T(old)
        n, j = tm.var('n', 'I'), tm.var('j', 'I')
        nvc = 0
        for p in paths:
            if p.outcome() != 'returns':
                return Verdict('unknown', 'engine', time.time() - t0, 'path %s: %s %s' % (p.outcome(), p.exception, p.traceback[-500:]))
            a, b = p.result
            if len(a._shape) != 3 or len(b._shape) != 3:
                return Verdict('refuted', 'shape', time.time() - t0, 'shapes %s / %s' % (a._shape, b._shape), witness={}, replay=_replay_param_history())
            Tn = a._shape[2]
            cols = [tm.const(k_, 'I') for k_ in range(Tn)] if isinstance(Tn, int) else [j]
            for col in cols:
                rng = [tm.le(tm.IZERO, n), tm.lt(n, N)] + ([tm.le(tm.IZERO, j), tm.lt(j, tm.as_term(lift(Tn)))] if col is j else [])
                r = fc.prove_eq(p.facts(hyps) + rng, a.at((n, tm.IZERO, col)), b.at((n, tm.IZERO, col)), timeout_ms=20000)
                nvc += 1
                if r.status != 'unsat':
                    rp = _replay_param_history()
                    return Verdict('refuted' if (r.status == 'sat' or rp.get('confirmed')) else 'unknown', r.backend, time.time() - t0,
                                   'second evaluation after an in-place parameter update: %s; fresh hedger with the updated parameter: %s' % (tm.show(a.at((n, tm.IZERO, col)))[:200], tm.show(b.at((n, tm.IZERO, col)))[:200]),
                                   witness={'again': tm.show(a.at((n, tm.IZERO, col)))[:300]}, replay=rp)
        return Verdict('proved', 'z3', time.time() - t0, '%d VCs' % nvc, sample={'claim': 'compute_hedge after an in-place parameter update == fresh hedger with the updated parameter', 'scenario': tag})
    return Obligation('HS/compute_hedge/history[parameter updated in place,%s]' % tag, 'post', 'pfhedge.nn.modules.hedger.Hedger.compute_hedge', check, ['C14', 'C16'],
                      clause='compute_hedge on the same derivative and paths, after a model parameter was updated in place, is the hedge of the current parameters [%s]' % tag)


PARAM_HISTORY_REPLAY = '''
import copy
import pfhedge.nn as pnn
from pfhedge.instruments import BrownianStock, EuropeanOption
torch.manual_seed(3)
bad = []
d = EuropeanOption(BrownianStock(sigma=0.3, dt=0.01), strike=1.01, maturity=0.05); d.simulate(n_paths=6)
for feats in (["log_moneyness", "time_to_maturity"], ["log_moneyness", "time_to_maturity", "prev_hedge"]):
    model = torch.nn.Sequential(torch.nn.Linear(len(feats), 4), torch.nn.Tanh(), torch.nn.Linear(4, 1))
    hedger = pnn.Hedger(model, feats)
    crit = pnn.EntropicRiskMeasure()
    first = crit(hedger.compute_pl(d)); first.backward()
    with torch.no_grad():
        for q in model.parameters(): q.add_(0.3 * torch.ones_like(q))            # parameters updated in place, same paths
    got = hedger.compute_hedge(d).detach()
    ref = pnn.Hedger(copy.deepcopy(model), feats).compute_hedge(d).detach()
    if not torch.allclose(got, ref, atol=1e-7): bad.append((len(feats), "hedge after an in-place parameter update differs from a fresh hedger with the same parameters", float((got - ref).abs().max())))
    # gradient of the loss on the same paths against central finite differences
    for q in model.parameters(): q.grad = None
    loss = crit(hedger.compute_pl(d)); loss.backward()
    q = next(model.parameters()); g = float(q.grad.flatten()[0]); eps = 1e-4
    with torch.no_grad():
        q.flatten()[0].add_(eps); lp = float(crit(hedger.compute_pl(d))); q.flatten()[0].sub_(2 * eps); lm = float(crit(hedger.compute_pl(d))); q.flatten()[0].add_(eps)
    fd = (lp - lm) / (2 * eps)
    if abs(fd - g) > 1e-3 * max(1.0, abs(g)) + 2e-4: bad.append((len(feats), "gradient %.6f, finite differences on the same paths %.6f" % (g, fd)))
result = {"got": [str(b) for b in bad], "ref": []}
'''


def _replay_param_history():
    r = real_exec(PARAM_HISTORY_REPLAY, {}, timeout=300)
    ok = r.get('ok') and r['result']['got'] == []
    return {'real': r, 'confirmed': not ok, 'note': 'replay: hedge and loss gradient on the same simulated paths after the parameters were updated in place, against a fresh hedger / finite differences (float32 tolerances)'}


MODE_REPLAY = '''
import pfhedge.nn as pnn
from pfhedge.instruments import BrownianStock, EuropeanOption
bad = []
for pre in ("model.eval()", "hedger.eval(); model.train()", "nothing"):
    net = torch.nn.Sequential(torch.nn.Linear(2, 4), torch.nn.Dropout(0.5), torch.nn.Linear(4, 1))
    d = EuropeanOption(BrownianStock(dt=0.01), maturity=0.03)
    if pre == "model.eval()": net.eval()
    hedger = pnn.Hedger(net, ["log_moneyness", "time_to_maturity"])
    if pre.startswith("hedger.eval"): hedger.eval(); net.train()
    flags = [(type(m_).__name__, m_.training) for m_ in hedger.modules()]
    for what, call in (("price", lambda: hedger.price(d, n_paths=4)), ("compute_loss(enable_grad=False)", lambda: hedger.compute_loss(d, n_paths=4, enable_grad=False)),
                       ("compute_pl", lambda: (d.simulate(n_paths=4), hedger.compute_pl(d))), ("compute_hedge", lambda: hedger.compute_hedge(d))):
        call()
        after = [(type(m_).__name__, m_.training) for m_ in hedger.modules()]
        if after != flags: bad.append((pre, what, "training flags changed: " + str([a_ for a_, b_ in zip(after, flags) if a_ != b_][:3])))
result = {"got": [str(b) for b in bad][:8], "ref": []}
'''


def _replay_modes():
    r = real_exec(MODE_REPLAY, {}, timeout=300)
    ok = r.get('ok') and r['result']['got'] == []
    return {'real': r, 'confirmed': not ok, 'note': 'replay: training flags of the hedger and all its sub-modules before and after price / compute_loss / compute_pl / compute_hedge, for mixed train/eval configurations'}


def mode_frame_ob():
    """C16: evaluation entry points leave the train/eval flags of the hedger and of every sub-module as they found them (the flags decide
    how a mode-dependent layer behaves in the NEXT evaluation: state that must not depend on what was evaluated before)."""
    def check():
        t0 = time.time()
        import pfhedge.nn as pnn
        from contracts import training as TR
        old = _set_T(3)
        rows = []
        try:
            for pre in ('model in eval mode inside a training-mode hedger', 'model in training mode inside an eval-mode hedger'):
                for what in ('price', 'compute_loss(enable_grad=False)', 'compute_hedge', 'compute_pl'):
                    def run(c):
                        d = TR.mk_sim_derivative(3)
                        model = UserModel.make(1)
                        hedger = pnn.Hedger(model, ['log_moneyness', 'time_to_maturity'])
                        if pre.startswith('model in eval'):
                            model.eval()
                        else:
                            hedger.eval()
                            model.train()
                        before = [(type(m_).__name__, m_.training) for m_ in hedger.modules()]
                        if what == 'price':
                            hedger.price(d, n_paths=SInt(TR.NP))
                        elif what.startswith('compute_loss'):
                            hedger.compute_loss(d, n_paths=SInt(TR.NP), enable_grad=False)
                        else:
                            d.simulate(n_paths=SInt(TR.NP))
                            getattr(hedger, what)(d)
                        return before, [(type(m_).__name__, m_.training) for m_ in hedger.modules()]
                    paths = explore(run, DIMS + [tm.ge(TR.NP, tm.IONE), tm.gt(tm.var('M'), tm.ZERO)], max_paths=8)
                    for p in paths:
                        if p.outcome() != 'returns':
                            return Verdict('unknown', 'engine', time.time() - t0, str((p.outcome(), str(p.exception)[:200], p.traceback[-400:])))
                        b_, a_ = p.result
                        rows.append(('%s leaves the training flags unchanged (%s)' % (what, pre), 'proved' if a_ == b_ else 'refuted', str([x for x, y in zip(a_, b_) if x != y][:3]) if a_ != b_ else ''))
        finally:
            _set_T(old)
        bad = [r for r in rows if r[1] == 'refuted']
        sample = {'claim': 'evaluation entry points do not change train/eval flags', 'vcs': [{'vc': r[0], 'status': r[1]} for r in rows]}
        if bad:
            return Verdict('refuted', 'path-exploration', time.time() - t0, '; '.join('%s %s' % (r[0], r[2]) for r in bad)[:600], witness={'failed': [r[0] for r in bad]}, sample=sample, replay=_replay_modes())
        return Verdict('proved', 'path-exploration', time.time() - t0, '%d cases' % len(rows), sample=sample)
    return Obligation('HS/modes/frame', 'frame', 'pfhedge.nn.modules.hedger.Hedger.price', check, ['C16'],
                      clause='price, compute_loss(enable_grad=False), compute_hedge and compute_pl leave the train/eval flags of the hedger and of all its sub-modules unchanged')


# ------------------------------------------------------------------ C16: frames and history independence

def frame_ob(oid, function, run, hyps, clause, props=('C16',), replay=None):
    def check():
        t0 = time.time()
        try:
            paths = explore(run, hyps, max_paths=64)
        except Unsupported as e:
            return Verdict('unknown', 'engine', time.time() - t0, 'out of reach: %s' % e)
        n = 0
        for p in paths:
            if p.outcome().startswith('abort') or (p.exception is not None and not fc._from_repo_or_contract(p)):
                return Verdict('unknown', 'engine', time.time() - t0, 'path %s: %s %s' % (p.outcome(), p.exception, p.traceback[-500:]))
            for (st, what) in p.writes:
                n += 1
                if st.origin != 'fresh' and not st.origin.startswith('leaf:'):
                    rp = replay() if replay else {'confirmed': False}
                    return Verdict('refuted', 'alias-analysis', time.time() - t0, 'in-place %s writes %s' % (what, st.origin), witness={'written': st.origin, 'op': what}, replay=rp)
        return Verdict('proved', 'alias-analysis', time.time() - t0, '%d path(s), %d in-place write(s), all into tensors allocated inside the call' % (len(paths), n),
                       sample={'claim': clause, 'paths': len(paths), 'in_place_writes_checked': n})
    return Obligation(oid, 'frame', function, check, list(props), clause=clause)


def history_independence_ob(model_kind, Tc):
    """One hedger used on derivative A then on derivative B gives on B exactly what a fresh hedger gives."""
    def check():
        t0 = time.time()
        N2 = tm.var('N2', 'I')
        hyps = DIMS + [tm.ge(N2, tm.IONE), tm.eq(T, tm.const(Tc, 'I'))]
        old = _set_T(Tc)
        try:
            def run(c):
                import torch
                import pfhedge.nn as pnn
                import pfhedge.instruments as pi
                from pfv.torchlib.tensor import Tensor
                dA = mk_derivative(name='spot')
                sB = pi.BrownianStock(sigma=SReal(SIGMA), dt=SReal(DT), dtype=torch.float64)
                sB.register_buffer('spot', Tensor.input('spot2', (N2, Tc), torch.float64))
                dB = pi.EuropeanOption(sB, strike=SReal(K))
                assume_positive_spot(c)
                i_, j_ = c.fresh('pi', 'I'), c.fresh('pj', 'I')
                c.assume(tm.forall(i_, tm.IZERO, N2, tm.forall(j_, tm.IZERO, tm.const(Tc, 'I'), tm.gt(tm.sel('spot2', i_, j_), tm.ZERO))))
                feats = ['log_moneyness', 'time_to_maturity', 'prev_hedge']
                used = pnn.Hedger(UserModel.make(1), feats) if model_kind == 'user' else pnn.Hedger(pnn.WhalleyWilmott(dB), pnn.WhalleyWilmott(dB).inputs())
                fresh = pnn.Hedger(UserModel.make(1), feats) if model_kind == 'user' else pnn.Hedger(pnn.WhalleyWilmott(dB), pnn.WhalleyWilmott(dB).inputs())
                used.compute_hedge(dA)
                used.compute_pl(dA)
                return used.compute_hedge(dB), fresh.compute_hedge(dB), used.compute_pl(dB), fresh.compute_pl(dB)
            paths = explore(run, hyps, max_paths=16)
        finally:
            _set_T(old)
        n = tm.var('n', 'I')
        rng = [tm.le(tm.IZERO, n), tm.lt(n, N2)]
        nvc = 0
        for p in paths:
            if p.outcome() != 'returns':
                return Verdict('unknown', 'engine', time.time() - t0, 'path %s %s %s' % (p.outcome(), p.exception, p.traceback[-600:]))
            a, b, pa, pb = p.result
            facts = p.facts(hyps) + rng
            from pfv.torchlib.tensor import ti
            if len(a._shape) != len(b._shape) or any(smt.prove(facts, tm.eq(ti(x_), ti(y_)), timeout_ms=5000).status != 'unsat' for x_, y_ in zip(a._shape, b._shape)):
                return Verdict('refuted', 'shape', time.time() - t0, 'reused hedger: shape %s, fresh hedger: %s' % (a._shape, b._shape), witness={}, replay=_replay_history())
            for tt in range(Tc):
                nvc += 1
                r = fc.prove_eq(facts, a.at((n, tm.IZERO, tm.const(tt, 'I'))), b.at((n, tm.IZERO, tm.const(tt, 'I'))), timeout_ms=20000)
                if r.status != 'unsat':
                    return Verdict('refuted' if r.status == 'sat' else 'unknown', r.backend, time.time() - t0, 'hedge at t=%d depends on the derivative the hedger was used with before' % tt,
                                   witness={'t': tt}, replay=_replay_history())
            nvc += 1
            r = fc.prove_eq(facts, pa.at((n,)), pb.at((n,)), timeout_ms=20000)
            if r.status != 'unsat':
                return Verdict('refuted' if r.status == 'sat' else 'unknown', r.backend, time.time() - t0, 'P&L depends on call history', witness={}, replay=_replay_history())
        return Verdict('proved', 'z3', time.time() - t0, '%d VCs' % nvc, sample={'claim': 'result on B after use on A == result of a fresh hedger on B (different path counts)', 'model': model_kind, 'T': Tc})
    return Obligation('HS/compute_hedge/history-independence[%s,T=%d]' % (model_kind, Tc), 'post', 'pfhedge.nn.modules.hedger.Hedger.compute_hedge', check, ['C16'],
                      clause='hedging derivative B gives the same hedge and P&L whether or not the hedger was used on another derivative (other path count) before')


HISTORY_REPLAY = '''
import copy
import pfhedge.nn as pnn
from pfhedge.instruments import BrownianStock, HestonStock, EuropeanOption, LookbackOption
torch.manual_seed(4)
bad = []
for feats in (["log_moneyness", "time_to_maturity", "prev_hedge"], ["max_log_moneyness", "time_to_maturity"], ["log_moneyness", "max_moneyness", "prev_hedge"]):
    F = len(feats)
    model = torch.nn.Sequential(torch.nn.Linear(F, 1), torch.nn.Tanh())
    used = pnn.Hedger(model, feats); fresh = pnn.Hedger(copy.deepcopy(model), feats)
    dA = LookbackOption(BrownianStock(dt=0.01), maturity=0.05); dA.simulate(n_paths=7)
    dB = EuropeanOption(BrownianStock(dt=0.01, sigma=0.4), maturity=0.05); dB.simulate(n_paths=3)
    used.compute_hedge(dA); used.compute_pl(dA); used.compute_loss(dA, n_paths=5); dA.simulate(n_paths=7)
    dB.simulate(n_paths=3)
    a, b = used.compute_hedge(dB), fresh.compute_hedge(dB)
    if a.shape != b.shape or not torch.allclose(a, b): bad.append((feats, "hedge differs"))
    if not torch.allclose(used.compute_pl(dB), fresh.compute_pl(dB)): bad.append((feats, "pl differs"))
result = {"got": [str(b) for b in bad], "ref": []}
'''


def _replay_history():
    r = real_exec(HISTORY_REPLAY, {}, timeout=300)
    ok = r.get('ok') and r['result']['got'] == []
    return {'real': r, 'confirmed': not ok, 'note': 'replay: one hedger reused across derivatives with different path counts vs a fresh copy'}


def c16_obligations(seed, tier='quick'):
    import torch
    obs = [hedge_param_history_ob(False), hedge_param_history_ob(True), mode_frame_ob()]

    def run_pl(c):
        d = mk_derivative(cost=SReal(tm.var('c1')))
        assume_positive_spot(c)
        assume_positive_spot(c, 'spot2')
        hedger, _ = mk_hedger('user', d, 2, ['log_moneyness', 'time_to_maturity', 'volatility'])
        hl = mk_hedge_list(d, 2)
        return hedger.compute_pl(d, hedge=hl), hedger.compute_portfolio(d, hedge=hl)
    obs.append(frame_ob('HS/compute_pl/frame', 'pfhedge.nn.modules.hedger.Hedger.compute_pl', run_pl, DIMS + [tm.ge(tm.var('c1'), tm.ZERO), tm.ge(tm.var('c2'), tm.ZERO)],
                        'compute_pl / compute_portfolio modify no instrument buffer (the in-place `output -= ...` of pl targets a tensor allocated inside the call)', replay=_replay_hedger))
    for kind in ('european', 'lookback', 'american_binary', 'european_binary'):
        for call in (True, False):
            def run_payoff(c, kind=kind, call=call):
                d = mk_derivative(kind=kind, call=call)
                assume_positive_spot(c)
                d.add_clause('c1', lambda dd, payoff: payoff * 2.0)
                return d.payoff()
            obs.append(frame_ob('HS/payoff/frame[%s,%s]' % (kind, 'call' if call else 'put'), 'pfhedge.instruments.derivative.base.BaseDerivative.payoff', run_payoff, DIMS,
                                'payoff() of %s modifies no instrument buffer' % kind))
    obs.append(history_independence_ob('user', 3))
    obs.append(history_independence_ob('ww', 3))
    return obs
